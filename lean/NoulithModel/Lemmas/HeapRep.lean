/-
C01 helper lemmas, part 2: the reference-count invariant `Inv`, the representation relation
`RepN`/`Rep` between heap values and trees, reachability from a frame of roots, and `Stable`
(payloads reachable from the frame are untouched).
-/
import NoulithModel.Lemmas.HeapBasic

namespace Noulith.RcHeap
open Noulith.Store (Tree)

/-- pointwise relation between two lists of the same length -/
def All2 {α β : Type} (R : α → β → Prop) : List α → List β → Prop
  | [], [] => True
  | a :: as, b :: bs => R a b ∧ All2 R as bs
  | _, _ => False

namespace All2
variable {α β : Type} {R S : α → β → Prop}

@[simp] theorem nil_nil : All2 R [] [] = True := rfl
@[simp] theorem cons_cons (a : α) (as : List α) (b : β) (bs : List β) :
    All2 R (a :: as) (b :: bs) = (R a b ∧ All2 R as bs) := rfl
@[simp] theorem nil_cons (b : β) (bs : List β) : All2 R [] (b :: bs) = False := rfl
@[simp] theorem cons_nil (a : α) (as : List α) : All2 R (a :: as) [] = False := rfl

theorem length_eq : ∀ {as : List α} {bs : List β}, All2 R as bs → as.length = bs.length
  | [], [], _ => rfl
  | _ :: _, _ :: _, h => by simp [length_eq h.2]
  | [], _ :: _, h => by simp at h
  | _ :: _, [], h => by simp at h

theorem mono : ∀ {as : List α} {bs : List β}, (∀ a b, a ∈ as → R a b → S a b) → All2 R as bs → All2 S as bs
  | [], [], _, _ => trivial
  | a :: as, b :: bs, f, h =>
    ⟨f a b (by simp) h.1, mono (fun a b ha => f a b (by simp [ha])) h.2⟩
  | [], _ :: _, _, h => by simp at h
  | _ :: _, [], _, h => by simp at h

theorem set : ∀ {as : List α} {bs : List β} (j : Nat) {a : α} {b : β},
    All2 R as bs → R a b → All2 R (as.set j a) (bs.set j b)
  | [], [], _, _, _, _, _ => trivial
  | _ :: _, _ :: _, 0, _, _, h, r => ⟨r, h.2⟩
  | _ :: _, _ :: _, j + 1, _, _, h, r => ⟨h.1, set j h.2 r⟩
  | [], _ :: _, _, _, _, h, _ => by simp at h
  | _ :: _, [], _, _, _, h, _ => by simp at h

theorem getD : ∀ {as : List α} {bs : List β} (j : Nat) (da : α) (db : β),
    All2 R as bs → j < as.length → R (as.getD j da) (bs.getD j db)
  | [], _, _, _, _, _, hj => by simp at hj
  | _ :: _, [], _, _, _, h, _ => by simp at h
  | _ :: _, _ :: _, 0, _, _, h, _ => by simpa using h.1
  | _ :: as, _ :: bs, j + 1, da, db, h, hj => by
    simpa using getD j da db h.2 (by simpa using hj)

theorem append : ∀ {as : List α} {bs : List β} {as' : List α} {bs' : List β},
    All2 R as bs → All2 R as' bs' → All2 R (as ++ as') (bs ++ bs')
  | [], [], _, _, _, h' => by simpa using h'
  | _ :: _, _ :: _, _, _, h, h' => ⟨h.1, append h.2 h'⟩
  | [], _ :: _, _, _, h, _ => by simp at h
  | _ :: _, [], _, _, h, _ => by simp at h

theorem eraseIdx : ∀ {as : List α} {bs : List β} (j : Nat), All2 R as bs → All2 R (as.eraseIdx j) (bs.eraseIdx j)
  | [], [], _, _ => by simp
  | _ :: _, _ :: _, 0, h => h.2
  | _ :: _, _ :: _, j + 1, h => ⟨h.1, eraseIdx j h.2⟩
  | [], _ :: _, _, h => by simp at h
  | _ :: _, [], _, h => by simp at h

theorem dropLast : ∀ {as : List α} {bs : List β}, All2 R as bs → All2 R as.dropLast bs.dropLast
  | [], [], _ => by simp
  | [_], [_], _ => by simp
  | _ :: a2 :: as, _ :: b2 :: bs, h => by
    have := dropLast (as := a2 :: as) (bs := b2 :: bs) h.2
    simp only [List.dropLast_cons_cons]
    exact ⟨h.1, this⟩
  | [_], _ :: _ :: _, h => by simp at h
  | _ :: _ :: _, [_], h => by simp at h
  | [], _ :: _, h => by simp at h
  | _ :: _, [], h => by simp at h

theorem getLast? : ∀ {as : List α} {bs : List β} {x : α}, All2 R as bs → as.getLast? = some x →
    ∃ y, bs.getLast? = some y ∧ R x y
  | [], _, _, _, hx => by simp at hx
  | _ :: _, [], _, h, _ => by simp at h
  | [a], [b], x, h, hx => by
    simp at hx; subst hx; exact ⟨b, by simp, h.1⟩
  | _ :: a2 :: as, _ :: b2 :: bs, x, h, hx => by
    have := getLast? (as := a2 :: as) (bs := b2 :: bs) (x := x) h.2 (by simpa [List.getLast?_cons_cons] using hx)
    simpa [List.getLast?_cons_cons] using this
  | [_], _ :: _ :: _, _, h, _ => by simp at h
  | _ :: _ :: _, [_], _, h, _ => by simp at h

theorem getLast?_none : ∀ {as : List α} {bs : List β}, All2 R as bs → as.getLast? = none → bs.getLast? = none
  | [], [], _, _ => rfl
  | [], _ :: _, h, _ => by simp at h
  | _ :: _, _, _, hx => by simp at hx

theorem replicate (n : Nat) {a : α} {b : β} (r : R a b) : All2 R (List.replicate n a) (List.replicate n b) := by
  induction n with
  | zero => simp
  | succ n ih => simp [List.replicate_succ, r, ih]

end All2

/-- the reference-count invariant: for every allocation, the handles held in payloads plus the handles
in the list `T` (variable cells, temporaries, the caller's frame) do not exceed its strong count -/
def Inv (h : Heap) (T : List Val) : Prop := ∀ id, pocc id h + occ id T ≤ rcOf h id

/-- `RepN k h v t`: value `v` in heap `h` represents the tree `t`, by a derivation of depth ≤ k.
A handle represents a container (list or dict): same kind and keys, element-wise represented values. -/
def RepN : Nat → Heap → Val → Tree → Prop
  | _, _, .null, t => t = .null
  | _, _, .int n, t => t = .int n
  | 0, _, .ref _, _ => False
  | k + 1, h, .ref id, t =>
    t.isCont = true ∧ id < h.allocs.length ∧ keysOf h id = t.keysT ∧ t.dictWF ∧
      All2 (RepN k h) (payloadOf h id) t.kids

def Rep (h : Heap) (v : Val) (t : Tree) : Prop := ∃ k, RepN k h v t

@[simp] theorem RepN_null (k : Nat) (h : Heap) (t : Tree) : RepN k h .null t = (t = .null) := by
  cases k <;> rfl
@[simp] theorem RepN_int (k : Nat) (h : Heap) (n : Int) (t : Tree) : RepN k h (.int n) t = (t = .int n) := by
  cases k <;> rfl
@[simp] theorem RepN_ref_succ (k : Nat) (h : Heap) (id : Nat) (t : Tree) :
    RepN (k + 1) h (.ref id) t =
      (t.isCont = true ∧ id < h.allocs.length ∧ keysOf h id = t.keysT ∧ t.dictWF ∧
        All2 (RepN k h) (payloadOf h id) t.kids) := rfl
@[simp] theorem RepN_zero_ref (h : Heap) (id : Nat) (t : Tree) : RepN 0 h (.ref id) t = False := rfl
theorem RepN_null_null (k : Nat) (h : Heap) : RepN k h .null .null = True := by simp
theorem RepN_int_int (k : Nat) (h : Heap) (n m : Int) : RepN k h (.int n) (.int m) = (n = m) := by
  simp; exact ⟨fun e => e.symm, fun e => e.symm⟩
theorem RepN_ref_list (k : Nat) (h : Heap) (id : Nat) (ts : List Tree) :
    RepN (k + 1) h (.ref id) (.list ts) =
      (id < h.allocs.length ∧ keysOf h id = none ∧ All2 (RepN k h) (payloadOf h id) ts) := by
  simp [Tree.dictWF_list]
theorem RepN_ref_dict (k : Nat) (h : Heap) (id : Nat) (ks : List Int) (vs : List Tree) :
    RepN (k + 1) h (.ref id) (.dict ks vs) =
      (id < h.allocs.length ∧ keysOf h id = some ks ∧ ks.length = vs.length ∧
        All2 (RepN k h) (payloadOf h id) vs) := by
  simp only [RepN_ref_succ, Tree.isCont_dict, Tree.keysT_dict, Tree.kids_dict, true_and]
  apply propext
  constructor
  · intro ⟨a, b, c, d⟩; exact ⟨a, b, by simpa [Tree.kids] using c ks rfl, d⟩
  · intro ⟨a, b, c, d⟩; exact ⟨a, b, Tree.dictWF_dict c, d⟩

/-- a represented handle has a container tree of the same kind and keys -/
theorem RepN_ref_inv {k : Nat} {h : Heap} {id : Nat} {t : Tree} (r : RepN k h (.ref id) t) :
    ∃ k', k = k' + 1 ∧ t.isCont = true ∧ id < h.allocs.length ∧ keysOf h id = t.keysT ∧ t.dictWF ∧
      All2 (RepN k' h) (payloadOf h id) t.kids := by
  cases k with
  | zero => simp at r
  | succ k => exact ⟨k, rfl, r⟩

theorem RepN_succ : ∀ {k : Nat} {h : Heap} {v : Val} {t : Tree}, RepN k h v t → RepN (k + 1) h v t := by
  intro k
  induction k with
  | zero =>
    intro h v t r
    cases v <;> simp at r ⊢ <;> exact r
  | succ k ih =>
    intro h v t r
    cases v with
    | null => simpa using r
    | int n => simpa using r
    | ref id =>
      simp only [RepN_ref_succ] at r ⊢
      exact ⟨r.1, r.2.1, r.2.2.1, r.2.2.2.1, All2.mono (fun a b _ hab => ih hab) r.2.2.2.2⟩

theorem RepN_le {k k' : Nat} {h : Heap} {v : Val} {t : Tree} (hk : k ≤ k') (r : RepN k h v t) : RepN k' h v t := by
  induction hk with
  | refl => exact r
  | step _ ih => exact RepN_succ ih

/-- a list of represented values can be represented at one common depth -/
theorem All2_Rep_common {h : Heap} : ∀ {vs : List Val} {ts : List Tree}, All2 (Rep h) vs ts →
    ∃ k, All2 (RepN k h) vs ts
  | [], [], _ => ⟨0, trivial⟩
  | v :: vs, t :: ts, hh => by
    obtain ⟨k1, r1⟩ := hh.1
    obtain ⟨k2, r2⟩ := All2_Rep_common hh.2
    exact ⟨max k1 k2, RepN_le (Nat.le_max_left _ _) r1,
      All2.mono (fun a b _ r => RepN_le (Nat.le_max_right _ _) r) r2⟩
  | [], _ :: _, hh => by simp at hh
  | _ :: _, [], hh => by simp at hh

theorem Rep_ref_cont {h : Heap} {id : Nat} {t : Tree} (hc : t.isCont = true) (hl : id < h.allocs.length)
    (hk : keysOf h id = t.keysT) (hw : t.dictWF) (hh : All2 (Rep h) (payloadOf h id) t.kids) :
    Rep h (.ref id) t := by
  obtain ⟨k, r⟩ := All2_Rep_common hh
  exact ⟨k + 1, ⟨hc, hl, hk, hw, r⟩⟩

theorem Rep_ref_list {h : Heap} {id : Nat} {ts : List Tree} (hl : id < h.allocs.length)
    (hk : keysOf h id = none) (hh : All2 (Rep h) (payloadOf h id) ts) : Rep h (.ref id) (.list ts) :=
  Rep_ref_cont (t := .list ts) rfl hl hk (Tree.dictWF_list ts) hh

theorem Rep_ref_dict {h : Heap} {id : Nat} {ks : List Int} {vs : List Tree} (hl : id < h.allocs.length)
    (hk : keysOf h id = some ks) (hlen : ks.length = vs.length) (hh : All2 (Rep h) (payloadOf h id) vs) :
    Rep h (.ref id) (.dict ks vs) :=
  Rep_ref_cont (t := .dict ks vs) rfl hl hk (Tree.dictWF_dict hlen) hh

/-! ### preservation of representation -/

/-- `h'` extends `h`: every old allocation keeps its payload (counts may differ, new allocations may exist) -/
structure PayloadExt (h h' : Heap) : Prop where
  len : h.allocs.length ≤ h'.allocs.length
  pay : ∀ id, id < h.allocs.length → payloadOf h' id = payloadOf h id
  keys : ∀ id, id < h.allocs.length → keysOf h' id = keysOf h id

theorem PayloadExt.refl (h : Heap) : PayloadExt h h := ⟨Nat.le_refl _, fun _ _ => rfl, fun _ _ => rfl⟩
theorem PayloadExt.trans {h1 h2 h3 : Heap} (a : PayloadExt h1 h2) (b : PayloadExt h2 h3) : PayloadExt h1 h3 :=
  ⟨Nat.le_trans a.len b.len, fun id hl => by rw [b.pay id (Nat.lt_of_lt_of_le hl a.len), a.pay id hl],
   fun id hl => by rw [b.keys id (Nat.lt_of_lt_of_le hl a.len), a.keys id hl]⟩

theorem RepN_ext {h h' : Heap} (e : PayloadExt h h') : ∀ {k : Nat} {v : Val} {t : Tree},
    RepN k h v t → RepN k h' v t := by
  intro k
  induction k with
  | zero => intro v t r; cases v <;> simp at r ⊢ <;> exact r
  | succ k ih =>
    intro v t r
    cases v with
    | null => simpa using r
    | int n => simpa using r
    | ref id =>
      simp only [RepN_ref_succ] at r ⊢
      refine ⟨r.1, Nat.lt_of_lt_of_le r.2.1 e.len, by rw [e.keys id r.2.1]; exact r.2.2.1, r.2.2.2.1, ?_⟩
      rw [e.pay id r.2.1]
      exact All2.mono (fun a b _ hab => ih hab) r.2.2.2.2

/-- frame rule for one allocation: if no payload holds a handle to `id`, rewriting allocation `id`
cannot be seen from any value other than the handle itself -/
theorem RepN_frame {h : Heap} {id : Nat} (a : Alloc) (hz : pocc id h = 0) : ∀ {k : Nat} {v : Val} {t : Tree},
    RepN k h v t → v ≠ .ref id → RepN k (setAlloc h id a) v t := by
  intro k
  induction k with
  | zero => intro v t r _; cases v <;> simp at r ⊢ <;> exact r
  | succ k ih =>
    intro v t r hne
    cases v with
    | null => simpa using r
    | int n => simpa using r
    | ref j =>
      have hj : ¬ (j = id) := fun e => hne (by rw [e])
      simp only [RepN_ref_succ] at r ⊢
      refine ⟨r.1, by simpa using r.2.1, ?_, r.2.2.2.1, ?_⟩
      · rw [keysOf_setAlloc]; simp only [hj, false_and, if_false]; exact r.2.2.1
      · rw [payloadOf_setAlloc]
        simp only [hj, false_and, if_false]
        exact All2.mono (fun c b hc hab => ih hab (ne_ref_of_pocc_zero hz hc)) r.2.2.2.2

/-! ### reachability from a frame and stability -/

inductive Reach (h : Heap) (F : List Val) : Val → Prop
  | root {v : Val} : v ∈ F → Reach h F v
  | step {id : Nat} {v : Val} : Reach h F (.ref id) → v ∈ payloadOf h id → Reach h F v

theorem not_reach_of_zero {h : Heap} {F : List Val} {id : Nat} (hz : pocc id h = 0) (hf : occ id F = 0) :
    ¬ Reach h F (.ref id) := by
  intro r
  cases r with
  | root hm => have := occ_pos_of_mem hm; omega
  | step _ hm => exact ne_ref_of_pocc_zero hz hm rfl

theorem Reach.mono {h : Heap} {F F' : List Val} (hsub : ∀ v, v ∈ F → v ∈ F') {v : Val} (r : Reach h F v) :
    Reach h F' v := by
  induction r with
  | root hm => exact .root (hsub _ hm)
  | step _ hm ih => exact .step ih hm

/-- everything reachable from the frame `F` keeps its payload -/
structure Stable (h h' : Heap) (F : List Val) : Prop where
  len : h.allocs.length ≤ h'.allocs.length
  pay : ∀ id, id < h.allocs.length → Reach h F (.ref id) → payloadOf h' id = payloadOf h id
  keys : ∀ id, id < h.allocs.length → Reach h F (.ref id) → keysOf h' id = keysOf h id

theorem Stable.refl (h : Heap) (F : List Val) : Stable h h F := ⟨Nat.le_refl _, fun _ _ _ => rfl, fun _ _ _ => rfl⟩

theorem lt_of_mem_payloadOf {h : Heap} {id : Nat} {v : Val} (hm : v ∈ payloadOf h id) : id < h.allocs.length := by
  rcases Nat.lt_or_ge id h.allocs.length with hl | hl
  · exact hl
  · rw [payloadOf_eq_nil_of_ge hl] at hm; simp at hm

theorem Stable.reach {h h' : Heap} {F : List Val} (s : Stable h h' F) {v : Val} (r : Reach h F v) :
    Reach h' F v := by
  induction r with
  | root hm => exact .root hm
  | step r0 hm ih => exact .step ih (by rw [s.pay _ (lt_of_mem_payloadOf hm) r0]; exact hm)

theorem Stable.trans {h1 h2 h3 : Heap} {F : List Val} (a : Stable h1 h2 F) (b : Stable h2 h3 F) :
    Stable h1 h3 F :=
  ⟨Nat.le_trans a.len b.len, fun id hl r => by
    rw [b.pay id (Nat.lt_of_lt_of_le hl a.len) (a.reach r), a.pay id hl r],
   fun id hl r => by
    rw [b.keys id (Nat.lt_of_lt_of_le hl a.len) (a.reach r), a.keys id hl r]⟩

theorem Stable.mono {h h' : Heap} {F F' : List Val} (s : Stable h h' F') (hsub : ∀ v, v ∈ F → v ∈ F') :
    Stable h h' F :=
  ⟨s.len, fun id hl r => s.pay id hl (r.mono hsub), fun id hl r => s.keys id hl (r.mono hsub)⟩

theorem PayloadExt.stable {h h' : Heap} (e : PayloadExt h h') (F : List Val) : Stable h h' F :=
  ⟨e.len, fun id hl _ => e.pay id hl, fun id hl _ => e.keys id hl⟩

/-- rewriting an allocation that the frame cannot reach is invisible from the frame -/
theorem Stable.setAlloc {h : Heap} {F : List Val} {id : Nat} (a : Alloc) (hn : ¬ Reach h F (.ref id)) :
    Stable h (setAlloc h id a) F := by
  refine ⟨by simp, fun i _ r => ?_, fun i _ r => ?_⟩
  · rw [payloadOf_setAlloc]
    have : ¬ (i = id) := fun e => hn (e ▸ r)
    simp [this]
  · rw [keysOf_setAlloc]
    have : ¬ (i = id) := fun e => hn (e ▸ r)
    simp [this]

/-- values reachable from a stable frame keep their representation -/
theorem Stable.repN {h h' : Heap} {F : List Val} (s : Stable h h' F) : ∀ {k : Nat} {v : Val} {t : Tree},
    Reach h F v → RepN k h v t → RepN k h' v t := by
  intro k
  induction k with
  | zero => intro v t _ r; cases v <;> simp at r ⊢ <;> exact r
  | succ k ih =>
    intro v t hr r
    cases v with
    | null => simpa using r
    | int n => simpa using r
    | ref id =>
      simp only [RepN_ref_succ] at r ⊢
      refine ⟨r.1, Nat.lt_of_lt_of_le r.2.1 s.len, by rw [s.keys id r.2.1 hr]; exact r.2.2.1, r.2.2.2.1, ?_⟩
      rw [s.pay id r.2.1 hr]
      exact All2.mono (fun c b hc hab => ih (.step hr hc) hab) r.2.2.2.2

end Noulith.RcHeap
