/-
C01 helper lemmas, part 9: one refinement lemma per statement form.
-/
import NoulithModel.Lemmas.HeapStep

namespace Noulith.RcHeap
open Noulith.Store (Tree modPath pyIdx setφ takeφ popφ removeφ getPath setPath)

/-- the simulation relation between an Impl state and a Spec store -/
structure Refines (s : State) (σ : List Tree) : Prop where
  inv : SInv s
  sim : Sim s σ

theorem Refines.len {s : State} {σ : List Tree} (R : Refines s σ) : s.cells.length = σ.length :=
  All2.length_eq R.sim

theorem Refines.decl {s : State} {σ : List Tree} (R : Refines s σ) (x : Nat) :
    declared s x = Store.declared σ x := by
  simp [RcHeap.declared, Store.declared, R.len]

/-- what one step must establish -/
def StepOK (s : State) (σ : List Tree) (st : Stmt) : Prop :=
  Refines (step s st).1 (Store.step σ st).1 ∧ (step s st).2 = (Store.step σ st).2

theorem step_assign {s : State} {σ : List Tree} (R : Refines s σ) (x : Nat) (r : Rhs) :
    StepOK s σ (.assign x r) := by
  obtain ⟨i1, st1, r1⟩ := evalRhs_spec (T := []) r (by simpa using R.inv) R.sim
  have sim1 := sim_stable R.sim st1
  by_cases hx : x < s.cells.length
  · have hd : declared s x = true := by simp [declared, hx]
    have hd' : Store.declared σ x = true := by rw [← R.decl]; exact hd
    obtain ⟨i2, s2, _⟩ := writeCell_spec (T := []) hx (by simpa using i1) sim1 r1
    simp only [StepOK, step, Store.step, hd, hd', if_true]
    exact ⟨⟨by simpa using i2, s2⟩, by first | rfl | trivial⟩
  · have hd : declared s x = false := by simp [declared, hx]
    have hd' : Store.declared σ x = false := by rw [← R.decl]; exact hd
    have D := drop_tr (by simpa using i1 : Inv (evalRhs s r).1 ((evalRhs s r).2 :: s.cells))
    simp only [StepOK, step, Store.step, hd, hd']
    exact ⟨⟨by simpa using D.inv, sim_stable (T := []) sim1 (by simpa using D.stable)⟩, by first | rfl | trivial⟩

theorem step_setIdx {s : State} {σ : List Tree} (R : Refines s σ) (x : Nat) (path : List Int) (r : Rhs) :
    StepOK s σ (.setIdx x path r) := by
  obtain ⟨i1, st1, r1⟩ := evalRhs_spec (T := []) r (by simpa using R.inv) R.sim
  have sim1 := sim_stable R.sim st1
  by_cases hx : x < s.cells.length
  · have hd : declared s x = true := by simp [declared, hx]
    have hd' : Store.declared σ x = true := by rw [← R.decl]; exact hd
    obtain ⟨i2, _, m2⟩ := withCell_setIndex (T := []) path hx (by simpa using i1) sim1 r1
    simp only [StepOK, step, Store.step, hd, hd', if_true, Store.get]
    cases hsp : setPath (σ.getD x .null) path (Store.evalRhs σ r) with
    | some t' => rw [hsp] at m2; exact ⟨⟨by simpa using i2, m2.2⟩, m2.1⟩
    | none => rw [hsp] at m2; exact ⟨⟨by simpa using i2, m2.2⟩, m2.1⟩
  · have hd : declared s x = false := by simp [declared, hx]
    have hd' : Store.declared σ x = false := by rw [← R.decl]; exact hd
    have D := drop_tr (by simpa using i1 : Inv (evalRhs s r).1 ((evalRhs s r).2 :: s.cells))
    simp only [StepOK, step, Store.step, hd, hd']
    exact ⟨⟨by simpa using D.inv, sim_stable (T := []) sim1 (by simpa using D.stable)⟩, by first | rfl | trivial⟩

/-- `y = pop / remove / consume x[path]` -/
theorem step_extract {leaf : Leaf} {φ : Store.LeafT}
    (L : LeafSpec leaf.act [] [] φ.act) (LI : InsSpec leaf.ins φ.ins [] []) {s : State} {σ : List Tree} (R : Refines s σ) (y x : Nat) (path : List Int) :
    Refines
      (if declared s x ∧ declared s y then
        (if (withCell s s.h x (fun h v => walk leaf h v path)).2.2 then
          (writeCell (withCell s s.h x (fun h v => walk leaf h v path)).1.h
            (withCell s s.h x (fun h v => walk leaf h v path)).1.cells y
            (withCell s s.h x (fun h v => walk leaf h v path)).2.1, true)
        else ((withCell s s.h x (fun h v => walk leaf h v path)).1, false))
      else (s, false)).1 (Store.extract σ φ y x path).1 ∧
    (if declared s x ∧ declared s y then
        (if (withCell s s.h x (fun h v => walk leaf h v path)).2.2 then
          (writeCell (withCell s s.h x (fun h v => walk leaf h v path)).1.h
            (withCell s s.h x (fun h v => walk leaf h v path)).1.cells y
            (withCell s s.h x (fun h v => walk leaf h v path)).2.1, true)
        else ((withCell s s.h x (fun h v => walk leaf h v path)).1, false))
      else (s, false)).2 = (Store.extract σ φ y x path).2 := by
  by_cases hxy : x < s.cells.length ∧ y < s.cells.length
  · obtain ⟨hx, hy⟩ := hxy
    have hd : (declared s x = true ∧ declared s y = true) := by simp [declared, hx, hy]
    have hd' : (Store.declared σ x = true ∧ Store.declared σ y = true) := by
      rw [← R.decl, ← R.decl]; exact hd
    obtain ⟨_, hlen, W⟩ := withCell_walk L LI (T := []) path hx (by simpa using R.inv) R.sim
    simp only [Store.extract, hd, hd', and_self, if_true, Store.get]
    cases hm : modPath φ (σ.getD x .null) path with
    | none =>
      rw [hm] at W
      simp only [W.1]
      exact ⟨⟨by simpa using W.2.1, W.2.2⟩, by first | rfl | trivial⟩
    | some tr =>
      obtain ⟨t', r⟩ := tr
      rw [hm] at W
      dsimp only at W ⊢
      simp only [W.1, if_true]
      obtain ⟨i2, s2, _⟩ := writeCell_spec (T := []) (by rw [hlen]; exact hy) (by simpa using W.2.1) W.2.2.1 W.2.2.2
      exact ⟨⟨by simpa using i2, s2⟩, by first | rfl | trivial⟩
  · have hd : ¬ (declared s x = true ∧ declared s y = true) := by simpa [declared] using hxy
    have hd' : ¬ (Store.declared σ x = true ∧ Store.declared σ y = true) := by
      rw [← R.decl, ← R.decl]; exact hd
    simp only [Store.extract, hd, hd', if_false]
    exact ⟨R, by first | rfl | trivial⟩

theorem step_pop {s : State} {σ : List Tree} (R : Refines s σ) (y x : Nat) (path : List Int) :
    StepOK s σ (.pop y x path) := step_extract popLeaf_spec popLeaf_ins R y x path
theorem step_remove {s : State} {σ : List Tree} (R : Refines s σ) (y x : Nat) (path : List Int) (i : Int) :
    StepOK s σ (.remove y x path i) := step_extract (removeLeaf_spec i) (removeLeaf_ins i) R y x path
theorem step_consume {s : State} {σ : List Tree} (R : Refines s σ) (y x : Nat) (path : List Int) :
    StepOK s σ (.consume y x path) := step_extract takeLeaf_spec takeLeaf_ins R y x path

theorem getD_set_same {α : Type} (l : List α) (x : Nat) (v d : α) (hx : x < l.length) : (l.set x v).getD x d = v :=
  getD_set_self l x v d hx

theorem withCell_cells_length (s : State) (h : Heap) (x : Nat) (f : Heap → Val → WalkRes) :
    (withCell s h x f).1.cells.length = s.cells.length := by simp [withCell]

end Noulith.RcHeap
