/-
Helper lemmas for C15, float literals: the texts the lexer hands to `str::parse::<f64>` are accepted
(`f64TextValid_shape`), the exponent / fraction / suffix arms on digit runs, and `float_step`: one
step of the lexer on any well-formed float / imaginary literal.
-/
import NoulithModel.Lemmas.C15Basic
namespace Noulith.C15
open Noulith Noulith.Lex Noulith.LitSpec

/-- digit runs -/
def AllDig (l : List Char) : Prop := ∀ c ∈ l, isDigit10 c = true

theorem all_of_allDig (l : List Char) (h : AllDig l) : l.all isDigit10 = true := by
  rw [List.all_eq_true]; exact h

/-- the exponent tail `e[-]DIGITS` is accepted when there is at least one digit -/
theorem f64_exp_ok (neg : Bool) (E : List Char) (hE : AllDig E) (hne : E ≠ []) :
    (let r3 := (if neg then ['-'] else []) ++ E
     let r4 := match r3 with
       | '-' :: r => r
       | '+' :: r => r
       | _ => r3
     (!r4.isEmpty && r4.all isDigit10)) = true := by
  obtain ⟨e0, E', rfl⟩ := List.exists_cons_of_ne_nil hne
  have he0 : isDigit10 e0 = true := hE e0 (by simp)
  cases neg
  · simp only [Bool.false_eq_true, if_false, List.nil_append]
    have h1 : e0 ≠ '-' := by intro h; rw [h] at he0; revert he0; decide
    have h2 : e0 ≠ '+' := by intro h; rw [h] at he0; revert he0; decide
    split
    · rename_i heq; simp at heq; exact absurd heq.1 h1
    · rename_i heq; simp at heq; exact absurd heq.1 h2
    · simp [all_of_allDig _ hE]
  · simp [all_of_allDig _ hE]

theorem f64TextValid_shape (I : List Char) (hI : AllDig I) (hIne : I ≠ [])
    (frac : Option (List Char)) (hF : ∀ F, frac = some F → AllDig F)
    (exp : Option (Bool × List Char)) (hE : ∀ n E, exp = some (n, E) → AllDig E ∧ E ≠ []) :
    f64TextValid (I ++ (match frac with | some F => '.' :: F | none => [])
      ++ (match exp with | some (neg, E) => 'e' :: ((if neg then ['-'] else []) ++ E) | none => [])) = true := by
  have hdot : isDigit10 '.' = false := by decide
  have he : isDigit10 'e' = false := by decide
  have hIe : I.isEmpty = false := by cases I <;> simp_all
  cases frac with
  | none =>
    cases exp with
    | none =>
      simp only [List.append_nil]
      unfold f64TextValid
      have h1 := takeWhile_run isDigit10 I [] hI (stops_nil _)
      have h2 := dropWhile_run isDigit10 I [] hI (stops_nil _)
      simp only [List.append_nil] at h1 h2
      simp [h1, h2, hIe]
    | some p =>
      obtain ⟨neg, E⟩ := p
      obtain ⟨hEd, hEne⟩ := hE neg E rfl
      simp only [List.append_nil]
      unfold f64TextValid
      have hs : Stops isDigit10 ('e' :: ((if neg then ['-'] else []) ++ E)) := stops_cons _ _ _ he
      simp only [List.cons_append] at *
      rw [takeWhile_run isDigit10 I _ hI hs, dropWhile_run isDigit10 I _ hI hs]
      simp only [hIe, Bool.false_and, Bool.false_eq_true, if_false]
      have := f64_exp_ok neg E hEd hEne
      simp only at this
      simp at this ⊢
      exact this
  | some F =>
    have hFd := hF F rfl
    cases exp with
    | none =>
      simp only [List.append_nil]
      unfold f64TextValid
      have hs : Stops isDigit10 ('.' :: F) := stops_cons _ _ _ hdot
      rw [takeWhile_run isDigit10 I _ hI hs, dropWhile_run isDigit10 I _ hI hs]
      have h1 := takeWhile_run isDigit10 F [] hFd (stops_nil _)
      have h2 := dropWhile_run isDigit10 F [] hFd (stops_nil _)
      simp only [List.append_nil] at h1 h2
      simp [h1, h2, hIe]
    | some p =>
      obtain ⟨neg, E⟩ := p
      obtain ⟨hEd, hEne⟩ := hE neg E rfl
      unfold f64TextValid
      have hs : Stops isDigit10 ('.' :: F ++ ('e' :: ((if neg then ['-'] else []) ++ E))) := stops_cons _ _ _ hdot
      rw [List.append_assoc, takeWhile_run isDigit10 I _ hI hs, dropWhile_run isDigit10 I _ hI hs]
      have hs2 : Stops isDigit10 ('e' :: ((if neg then ['-'] else []) ++ E)) := stops_cons _ _ _ he
      simp only [List.cons_append] at *
      rw [takeWhile_run isDigit10 F _ hFd hs2, dropWhile_run isDigit10 F _ hFd hs2]
      simp only [hIe, Bool.false_and, Bool.false_eq_true, if_false]
      have := f64_exp_ok neg E hEd hEne
      simp only at this
      simp at this ⊢
      exact this


theorem decDigits_allDig (ds : List Nat) (h : ds.all (· < 10) = true) : AllDig (decDigits ds) := by
  apply decDigits_all
  intro d hd
  have := List.all_eq_true.mp h d hd
  simpa using this

theorem decDigits_ne_nil (ds : List Nat) (h : ds ≠ []) : decDigits ds ≠ [] := by
  simp [decDigits, h]

theorem lexExponent_digits (acc : List Char) (neg : Bool) (E : List Char) (hE : AllDig E) (hEne : E ≠ [])
    (rest : List Char) (hstop : Stops isDigit10 rest) :
    lexExponent acc ((if neg then ['-'] else []) ++ (E ++ rest)) =
      ⟨[emitFloat (acc ++ 'e' :: ((if neg then ['-'] else []) ++ E))], rest, false⟩ := by
  obtain ⟨e0, E', rfl⟩ := List.exists_cons_of_ne_nil hEne
  have he0 : isDigit10 e0 = true := hE e0 (by simp)
  cases neg
  · have h1 : e0 ≠ '-' := by intro h; rw [h] at he0; revert he0; decide
    simp only [Bool.false_eq_true, if_false, List.nil_append]
    unfold lexExponent
    split
    · rename_i heq; simp at heq; exact absurd heq.1 h1
    · rw [takeWhile_run isDigit10 _ _ hE hstop, dropWhile_run isDigit10 _ _ hE hstop]
  · have h1 := takeWhile_run isDigit10 _ _ hE hstop
    have h2 := dropWhile_run isDigit10 _ _ hE hstop
    simp only [List.cons_append] at h1 h2
    simp only [if_true, List.cons_append, List.nil_append]
    unfold lexExponent
    simp only
    rw [h1, h2]

/-- what may follow a float literal for it to end there -/
def FloatStop (l : FloatLit) (rest : List Char) : Prop :=
  if l.suffix ≠ .none then True
  else if l.exp.isSome then Stops isDigit10 rest
  else ∀ c ∈ rest.head?, isDigit10 c = false ∧ c ∉ ['i', 'I', 'j', 'J', 'e', 'E', 'f', 'F']

def floatTok (l : FloatLit) : Token :=
  if l.suffix.isImag then .imagLit l.text else .floatLit l.text

theorem emitFloat_valid (t : List Char) (h : f64TextValid t = true) : emitFloat t = .floatLit t := by
  simp [emitFloat, h]
theorem emitImag_valid (t : List Char) (h : f64TextValid t = true) : emitImag t = .imagLit t := by
  simp [emitImag, h]


theorem stops_of_head (p : Char → Bool) (l : List Char) (h : ∀ c ∈ l.head?, p c = false) : Stops p l := h

theorem lexAfterFraction_exp (acc2 : List Char) (uE neg : Bool) (E rest : List Char) (hE : AllDig E)
    (hEne : E ≠ []) (hstop : Stops isDigit10 rest) :
    lexAfterFraction acc2 ((if uE then 'E' else 'e') :: ((if neg then ['-'] else []) ++ (E ++ rest))) =
      ⟨[emitFloat (acc2 ++ 'e' :: ((if neg then ['-'] else []) ++ E))], rest, false⟩ := by
  unfold lexAfterFraction
  simp only
  rw [if_neg (by cases uE <;> simp), if_pos (by cases uE <;> simp)]
  exact lexExponent_digits acc2 neg E hE hEne rest hstop

theorem lexAfterFraction_plain (acc2 rest : List Char)
    (h : ∀ c ∈ rest.head?, c ∉ ['i', 'I', 'j', 'J', 'e', 'E', 'f', 'F']) :
    lexAfterFraction acc2 rest = ⟨[emitFloat acc2], rest, false⟩ := by
  unfold lexAfterFraction
  cases rest with
  | nil => rfl
  | cons d cs =>
    have := h d (by simp)
    simp at this
    simp [this]

theorem lexAfterInt_exp (acc : List Char) (uE neg : Bool) (E rest : List Char) (hE : AllDig E)
    (hEne : E ≠ []) (hstop : Stops isDigit10 rest) :
    lexAfterInt acc (if uE then 'E' else 'e') ((if neg then ['-'] else []) ++ (E ++ rest)) =
      ⟨[emitFloat (acc ++ 'e' :: ((if neg then ['-'] else []) ++ E))], rest, false⟩ := by
  unfold lexAfterInt
  rw [if_neg (by cases uE <;> simp), if_neg (by cases uE <;> simp), if_neg (by cases uE <;> simp),
    if_neg (by cases uE <;> simp), if_neg (by cases uE <;> simp), if_neg (by cases uE <;> simp),
    if_neg (by cases uE <;> simp), if_pos (by cases uE <;> simp)]
  exact lexExponent_digits acc neg E hE hEne rest hstop


theorem suffix_not_digit (s : NumSuffix) (hs : s ≠ .none) :
    ∃ d, s.chars = [d] ∧ isDigit10 d = false ∧ d ≠ '.' := by
  cases s with
  | none => exact absurd rfl hs
  | f u => exact ⟨_, rfl, by cases u <;> decide, by cases u <;> decide⟩
  | i u => exact ⟨_, rfl, by cases u <;> decide, by cases u <;> decide⟩
  | j u => exact ⟨_, rfl, by cases u <;> decide, by cases u <;> decide⟩

theorem lexAfterFraction_suffix (acc2 : List Char) (s : NumSuffix) (hs : s ≠ .none) (rest : List Char) :
    lexAfterFraction acc2 (s.chars ++ rest) =
      ⟨[if s.isImag then emitImag acc2 else emitFloat acc2], rest, false⟩ := by
  unfold lexAfterFraction
  cases s with
  | none => exact absurd rfl hs
  | f u => cases u <;> simp [NumSuffix.chars, NumSuffix.isImag]
  | i u => cases u <;> simp [NumSuffix.chars, NumSuffix.isImag]
  | j u => cases u <;> simp [NumSuffix.chars, NumSuffix.isImag]

theorem lexAfterInt_suffix (acc : List Char) (s : NumSuffix) (hs : s ≠ .none) (rest : List Char) :
    ∃ d, s.chars = [d] ∧
      lexAfterInt acc d rest = ⟨[if s.isImag then emitImag acc else emitFloat acc], rest, false⟩ := by
  cases s with
  | none => exact absurd rfl hs
  | f u => exact ⟨_, rfl, by unfold lexAfterInt; cases u <;> simp [NumSuffix.isImag]⟩
  | i u => exact ⟨_, rfl, by unfold lexAfterInt; cases u <;> simp [NumSuffix.isImag]⟩
  | j u => exact ⟨_, rfl, by unfold lexAfterInt; cases u <;> simp [NumSuffix.isImag]⟩

/-- **`float_token_text`**: for every well-formed float / imaginary literal (`d+.d*`, `d+e[-]d+`,
`d+.d*e[-]d+`, and the `f`/`i`/`j` suffixes, any case, any number of digits), the lexer emits one
`FloatLit` / `ImaginaryFloatLit` token and the text handed to the `f64` parser is exactly the
literal's digits, point and exponent (`E` normalised to `e`, suffix dropped) — and that text is one
the parser accepts -/
theorem float_step (ip : List Nat) (frac : Option (List Nat)) (exp : Option (Bool × Bool × List Nat))
    (suffix : NumSuffix) (hwf : (FloatLit.mk ip frac exp suffix).wf = true) (rest : List Char)
    (hstop : FloatStop ⟨ip, frac, exp, suffix⟩ rest) :
    ∃ c cs, (FloatLit.mk ip frac exp suffix).render ++ rest = c :: cs ∧
      lexStep c cs = ⟨[floatTok ⟨ip, frac, exp, suffix⟩], rest, false⟩ := by
  simp only [FloatLit.wf, Bool.and_eq_true, decide_eq_true_eq, Bool.or_eq_true] at hwf
  obtain ⟨⟨⟨⟨⟨hipne, hip⟩, hfr⟩, hex⟩, hsx⟩, hfl⟩ := hwf
  have hI : AllDig (decDigits ip) := decDigits_allDig ip hip
  have hIne : decDigits ip ≠ [] := decDigits_ne_nil ip (by simpa using hipne)
  obtain ⟨c, ds, hcd⟩ := List.exists_cons_of_ne_nil hIne
  have hc : isDigit10 c = true := hI c (by rw [hcd]; simp)
  have hds : AllDig ds := fun d hd => hI d (by rw [hcd]; simp [hd])
  cases frac with
  | some fs =>
    have hF : AllDig (decDigits fs) := decDigits_allDig fs (by simpa using hfr)
    cases exp with
    | some p =>
      obtain ⟨uE, neg, es⟩ := p
      have hsn : suffix = .none := by simpa using hsx
      subst hsn
      simp only [Bool.and_eq_true, decide_eq_true_eq] at hex
      have hE : AllDig (decDigits es) := decDigits_allDig es hex.2
      have hEne : decDigits es ≠ [] := decDigits_ne_nil es (by simpa using hex.1)
      have hrest : Stops isDigit10 rest := by simpa [FloatStop] using hstop
      refine ⟨c, ds ++ '.' :: (decDigits fs ++ (if uE then 'E' else 'e') ::
        ((if neg then ['-'] else []) ++ (decDigits es ++ rest))), ?_, ?_⟩
      · simp [FloatLit.render, NumSuffix.chars, hcd]
      · have hs2 : Stops isDigit10 ((if uE then 'E' else 'e') :: ((if neg then ['-'] else []) ++ (decDigits es ++ rest))) :=
          stops_cons _ _ _ (by cases uE <;> decide)
        rw [lexStep_digit c _ hc, lexNumber_run_dot c ds _ hds, takeWhile_run isDigit10 _ _ hF hs2,
          dropWhile_run isDigit10 _ _ hF hs2, lexAfterFraction_exp _ uE neg _ rest hE hEne hrest]
        have hv := f64TextValid_shape (decDigits ip) hI hIne (some (decDigits fs)) (by intro F h; cases h; exact hF)
          (some (neg, decDigits es)) (by intro n E h; cases h; exact ⟨hE, hEne⟩)
        simp only at hv
        have htxt : c :: ds ++ '.' :: decDigits fs ++ 'e' :: ((if neg then ['-'] else []) ++ decDigits es)
            = decDigits ip ++ '.' :: decDigits fs ++ 'e' :: ((if neg then ['-'] else []) ++ decDigits es) := by
          rw [hcd]
        rw [htxt, emitFloat_valid _ hv]
        simp [floatTok, NumSuffix.isImag, FloatLit.text]
    | none =>
      have hv := f64TextValid_shape (decDigits ip) hI hIne (some (decDigits fs)) (by intro F h; cases h; exact hF)
        none (by intro n E h; cases h)
      simp only [List.append_nil] at hv
      have htxt : c :: ds ++ '.' :: decDigits fs = decDigits ip ++ '.' :: decDigits fs := by rw [hcd]
      by_cases hsn : suffix = .none
      · subst hsn
        have hrest : ∀ c ∈ rest.head?, isDigit10 c = false ∧ c ∉ ['i', 'I', 'j', 'J', 'e', 'E', 'f', 'F'] := by
          simpa [FloatStop] using hstop
        have hs2 : Stops isDigit10 rest := fun c hc => (hrest c hc).1
        refine ⟨c, ds ++ '.' :: (decDigits fs ++ rest), ?_, ?_⟩
        · simp [FloatLit.render, NumSuffix.chars, hcd]
        · rw [lexStep_digit c _ hc, lexNumber_run_dot c ds _ hds, takeWhile_run isDigit10 _ _ hF hs2,
            dropWhile_run isDigit10 _ _ hF hs2, lexAfterFraction_plain _ _ (fun c hc => (hrest c hc).2),
            htxt, emitFloat_valid _ hv]
          simp [floatTok, NumSuffix.isImag, FloatLit.text]
      · obtain ⟨d, hd, hdd, _⟩ := suffix_not_digit suffix hsn
        have hs2 : Stops isDigit10 (suffix.chars ++ rest) := by rw [hd]; exact stops_cons _ _ _ hdd
        refine ⟨c, ds ++ '.' :: (decDigits fs ++ (suffix.chars ++ rest)), ?_, ?_⟩
        · simp [FloatLit.render, hcd]
        · rw [lexStep_digit c _ hc, lexNumber_run_dot c ds _ hds, takeWhile_run isDigit10 _ _ hF hs2,
            dropWhile_run isDigit10 _ _ hF hs2, lexAfterFraction_suffix _ suffix hsn, htxt,
            emitFloat_valid _ hv, emitImag_valid _ hv]
          cases hsi : suffix.isImag <;> simp [floatTok, hsi, FloatLit.text]
  | none =>
    cases exp with
    | some p =>
      obtain ⟨uE, neg, es⟩ := p
      have hsn : suffix = .none := by simpa using hsx
      subst hsn
      simp only [Bool.and_eq_true, decide_eq_true_eq] at hex
      have hE : AllDig (decDigits es) := decDigits_allDig es hex.2
      have hEne : decDigits es ≠ [] := decDigits_ne_nil es (by simpa using hex.1)
      have hrest : Stops isDigit10 rest := by simpa [FloatStop] using hstop
      refine ⟨c, ds ++ (if uE then 'E' else 'e') :: ((if neg then ['-'] else []) ++ (decDigits es ++ rest)), ?_, ?_⟩
      · simp [FloatLit.render, NumSuffix.chars, hcd]
      · rw [lexStep_digit c _ hc,
          lexNumber_run_other c ds _ _ hds (by cases uE <;> decide) (by cases uE <;> decide),
          lexAfterInt_exp _ uE neg _ rest hE hEne hrest]
        have hv := f64TextValid_shape (decDigits ip) hI hIne none (by intro F h; cases h)
          (some (neg, decDigits es)) (by intro n E h; cases h; exact ⟨hE, hEne⟩)
        simp only [List.append_nil] at hv
        rw [← hcd, emitFloat_valid _ hv]
        simp [floatTok, NumSuffix.isImag, FloatLit.text]
    | none =>
      have hsn : suffix ≠ .none := by
        intro h; subst h; simp at hfl
      have hv := f64TextValid_shape (decDigits ip) hI hIne none (by intro F h; cases h)
        none (by intro n E h; cases h)
      simp only [List.append_nil] at hv
      obtain ⟨d, hd, hstep⟩ := lexAfterInt_suffix (c :: ds) suffix hsn rest
      obtain ⟨d', hd', hdd, hdot⟩ := suffix_not_digit suffix hsn
      have : d' = d := by rw [hd] at hd'; simpa using hd'.symm
      subst this
      refine ⟨c, ds ++ d' :: rest, ?_, ?_⟩
      · simp [FloatLit.render, hcd, hd]
      · rw [lexStep_digit c _ hc, lexNumber_run_other c ds d' rest hds hdd hdot, hstep, ← hcd,
          emitFloat_valid _ hv, emitImag_valid _ hv]
        cases hsi : suffix.isImag <;> simp [floatTok, hsi, FloatLit.text]



end Noulith.C15
