/-
C01 helper lemmas, part 7: evaluation of right-hand sides (handle clones, fresh allocations) and moving
values in and out of variable cells.
-/
import NoulithModel.Lemmas.HeapStmt

namespace Noulith.RcHeap
open Noulith.Store (Tree)

/-! ### cells -/

theorem occ_take_cell (k : Nat) (cells : List Val) (x : Nat) (hx : x < cells.length) :
    occ k cells = occ k [cells.getD x .null] + occ k (cells.set x .null) := by
  have := occ_set k cells x .null hx
  simp at this ⊢; omega

theorem occ_put_cell (k : Nat) (cells : List Val) (x : Nat) (v : Val) (hx : x < cells.length) :
    occ k (cells.set x v) = occ k [v] + occ k (cells.set x .null) := by
  have h1 := occ_set k (cells.set x .null) x v (by simpa using hx)
  rw [getD_set_self _ _ _ _ hx, List.set_set] at h1
  simp at h1 ⊢; omega

theorem inv_take_cell {h : Heap} {T cells : List Val} {x : Nat} (hx : x < cells.length)
    (i : Inv h (T ++ cells)) : Inv h (cells.getD x .null :: T ++ cells.set x .null) :=
  i.congr (fun k => by
    have := occ_take_cell k cells x hx
    simp only [occ_append, occ_cons, List.cons_append, occ_nil] at this ⊢; omega)

theorem inv_put_cell {h : Heap} {T cells : List Val} {x : Nat} {v : Val} (hx : x < cells.length)
    (i : Inv h (v :: T ++ cells.set x .null)) : Inv h (T ++ cells.set x v) :=
  i.congr (fun k => by
    have := occ_put_cell k cells x v hx
    simp only [occ_append, occ_cons, List.cons_append, occ_nil] at this ⊢; omega)

theorem sim_put_cell {h h' : Heap} {T cells : List Val} {σ : List Tree} {x : Nat} {v : Val} {t' : Tree}
    (a : All2 (Rep h) cells σ) (s : Stable h h' (T ++ cells.set x .null)) (rv : Rep h' v t') :
    All2 (Rep h') (cells.set x v) (σ.set x t') := by
  have a0 : All2 (Rep h) (cells.set x .null) (σ.set x .null) := All2.set x a Rep_null
  have a1 : All2 (Rep h') (cells.set x .null) (σ.set x .null) :=
    All2.mono (fun c _ hc r => s.rep (.root (by simp [hc])) r) a0
  have := All2.set x a1 rv
  simpa [List.set_set] using this

theorem sim_stable {h h' : Heap} {T cells : List Val} {σ : List Tree}
    (a : All2 (Rep h) cells σ) (s : Stable h h' (T ++ cells)) : All2 (Rep h') cells σ :=
  All2.mono (fun c _ hc r => s.rep (.root (by simp [hc])) r) a

/-! ### atoms, literals -/

theorem evalAtom_spec {s : State} {h : Heap} {T : List Val} {σ : List Tree} (a : Atom)
    (i : Inv h (T ++ s.cells)) (sim : All2 (Rep h) s.cells σ) :
    Inv (evalAtom s h a).1 ((evalAtom s h a).2 :: T ++ s.cells) ∧ PayloadExt h (evalAtom s h a).1 ∧
    Rep (evalAtom s h a).1 (evalAtom s h a).2 (Store.evalAtom σ a) := by
  cases a with
  | null => exact ⟨i.congr (fun k => by simp [evalAtom]), PayloadExt.refl h, Rep_null⟩
  | int n => exact ⟨i.congr (fun k => by simp [evalAtom]), PayloadExt.refl h, Rep_int n⟩
  | var x =>
    simp only [evalAtom, Store.evalAtom, Store.get, cellOf]
    rcases Nat.lt_or_ge x s.cells.length with hx | hx
    · have hm : s.cells.getD x .null ∈ T ++ s.cells := List.mem_append_right _ (getD_mem _ hx)
      have hlive := i.live_of_mem hm
      refine ⟨fun k => ?_, PayloadExt.dup _ _, (All2.getD x _ _ sim hx).ext (PayloadExt.dup _ _)⟩
      have := i k
      rw [pocc_dup, rcOf_dup _ _ _ hlive]
      simp only [occ_cons, occ_append, occ_nil, List.cons_append] at this ⊢; omega
    · have e1 : s.cells.getD x .null = .null := by simp [List.getD, List.getElem?_eq_none hx]
      have e2 : σ.getD x Tree.null = .null := by
        have := All2.length_eq sim
        simp [List.getD, List.getElem?_eq_none (by omega : σ.length ≤ x)]
      rw [e1, e2]
      exact ⟨i.congr (fun k => by simp [dup]), PayloadExt.refl h, Rep_null⟩

theorem evalAtoms_spec {s : State} {σ : List Tree} : ∀ (as : List Atom) {h : Heap} {T : List Val},
    Inv h (T ++ s.cells) → All2 (Rep h) s.cells σ →
    Inv (evalAtoms s h as).1 ((evalAtoms s h as).2 ++ T ++ s.cells) ∧ PayloadExt h (evalAtoms s h as).1 ∧
    All2 (Rep (evalAtoms s h as).1) (evalAtoms s h as).2 (as.map (Store.evalAtom σ)) := by
  intro as
  induction as with
  | nil => intro h T i _; exact ⟨by simpa [evalAtoms] using i, PayloadExt.refl h, by simp [evalAtoms]⟩
  | cons a as ih =>
    intro h T i sim
    obtain ⟨i1, e1, r1⟩ := evalAtom_spec (T := T) a i sim
    have sim1 : All2 (Rep (evalAtom s h a).1) s.cells σ := All2.mono (fun _ _ _ r => r.ext e1) sim
    obtain ⟨i2, e2, r2⟩ := ih (h := (evalAtom s h a).1) (T := (evalAtom s h a).2 :: T)
      (by simpa using i1) sim1
    simp only [evalAtoms, List.map_cons]
    refine ⟨i2.congr (fun k => by simp [occ_cons, occ_append]; omega), e1.trans e2, r1.ext e2, r2⟩

theorem alloc_spec {h : Heap} {p T : List Val} (i : Inv h (p ++ T)) :
    Inv (alloc h p).1 (.ref (alloc h p).2 :: T) ∧ PayloadExt h (alloc h p).1 ∧
    payloadOf (alloc h p).1 (alloc h p).2 = p ∧ (alloc h p).2 < (alloc h p).1.allocs.length := by
  refine ⟨fun k => ?_, PayloadExt.push _ _ _ _, by simp [alloc, payloadOf_push], by simp [alloc]⟩
  have hk := i k
  simp only [alloc, pocc_push, rcOf_push, occ_cons_ref, occ_append] at hk ⊢
  by_cases e : k = h.allocs.length
  · subst e
    rw [rcOf_eq_zero_of_ge (Nat.le_refl _)] at hk
    simp; omega
  · have : ¬ h.allocs.length = k := fun x => e x.symm
    simp [e, this]; omega

theorem alloc_keys (h : Heap) (p : List Val) : keysOf (alloc h p).1 (alloc h p).2 = none := by
  simp [alloc, keysOf_push]

theorem alloc_rep {h : Heap} {p T : List Val} {ts : List Tree} (i : Inv h (p ++ T)) (a : All2 (Rep h) p ts) :
    Rep (alloc h p).1 (.ref (alloc h p).2) (.list ts) := by
  obtain ⟨_, e, hp, hl⟩ := alloc_spec i
  apply Rep_ref_list hl (alloc_keys h p)
  rw [hp]
  exact All2.mono (fun _ _ _ r => r.ext e) a

theorem allocDict_spec {h : Heap} {p T : List Val} (ks : List Int) (i : Inv h (p ++ T)) :
    Inv (allocDict h ks p).1 (.ref (allocDict h ks p).2 :: T) ∧ PayloadExt h (allocDict h ks p).1 ∧
    payloadOf (allocDict h ks p).1 (allocDict h ks p).2 = p ∧
    keysOf (allocDict h ks p).1 (allocDict h ks p).2 = some ks ∧
    (allocDict h ks p).2 < (allocDict h ks p).1.allocs.length := by
  refine ⟨fun k => ?_, PayloadExt.push _ _ _ _, by simp [allocDict, payloadOf_push],
    by simp [allocDict, keysOf_push], by simp [allocDict]⟩
  have hk := i k
  simp only [allocDict, pocc_push, rcOf_push, occ_cons_ref, occ_append] at hk ⊢
  by_cases e : k = h.allocs.length
  · subst e
    rw [rcOf_eq_zero_of_ge (Nat.le_refl _)] at hk
    simp; omega
  · have : ¬ h.allocs.length = k := fun x => e x.symm
    simp [e, this]; omega

theorem allocDict_rep {h : Heap} {p T : List Val} {vs : List Tree} (ks : List Int) (i : Inv h (p ++ T))
    (hlen : ks.length = vs.length)
    (a : All2 (Rep h) p vs) : Rep (allocDict h ks p).1 (.ref (allocDict h ks p).2) (.dict ks vs) := by
  obtain ⟨_, e, hp, hk, hl⟩ := allocDict_spec ks i
  apply Rep_ref_dict hl hk hlen
  rw [hp]
  exact All2.mono (fun _ _ _ r => r.ext e) a

/-- evaluating a right-hand side: the result is an owned value representing the Spec's value; every
variable keeps its representation -/
theorem evalRhs_spec {s : State} {T : List Val} {σ : List Tree} (r : Rhs)
    (i : Inv s.h (T ++ s.cells)) (sim : All2 (Rep s.h) s.cells σ) :
    Inv (evalRhs s r).1 ((evalRhs s r).2 :: T ++ s.cells) ∧ Stable s.h (evalRhs s r).1 (T ++ s.cells) ∧
    Rep (evalRhs s r).1 (evalRhs s r).2 (Store.evalRhs σ r) := by
  cases r with
  | atom a =>
    obtain ⟨i1, e1, r1⟩ := evalAtom_spec (T := T) a i sim
    exact ⟨i1, e1.stable _, r1⟩
  | list as =>
    obtain ⟨i1, e1, r1⟩ := evalAtoms_spec (σ := σ) as (T := T) i sim
    have i1' : Inv (evalAtoms s s.h as).1 ((evalAtoms s s.h as).2 ++ (T ++ s.cells)) := by
      simpa [List.append_assoc] using i1
    obtain ⟨i2, e2, _, _⟩ := alloc_spec i1'
    exact ⟨by simpa [evalRhs] using i2, (e1.trans e2).stable _, alloc_rep i1' r1⟩
  | dict kvs =>
    obtain ⟨i1, e1, r1⟩ := evalAtoms_spec (σ := σ) (kvs.map (·.2)) (T := T) i sim
    have i1' : Inv (evalAtoms s s.h (kvs.map (·.2))).1 ((evalAtoms s s.h (kvs.map (·.2))).2 ++ (T ++ s.cells)) := by
      simpa [List.append_assoc] using i1
    obtain ⟨i2, e2, _, _⟩ := allocDict_spec (kvs.map (·.1)) i1'
    exact ⟨by simpa [evalRhs] using i2, (e1.trans e2).stable _, allocDict_rep _ i1' (by simp) r1⟩
  | rep a n =>
    obtain ⟨i1, e1, r1⟩ := evalAtom_spec (T := T) a i sim
    -- the one-element list
    have i1' : Inv (evalAtom s s.h a).1 ([(evalAtom s s.h a).2] ++ (T ++ s.cells)) := by simpa using i1
    obtain ⟨i2, e2, hp2, hl2⟩ := alloc_spec i1'
    -- n clones of its element
    have hlive : ∀ v ∈ List.replicate n (evalAtom s s.h a).2, Live (alloc (evalAtom s s.h a).1 [(evalAtom s s.h a).2]).1 v := by
      intro v hv
      have : v = (evalAtom s s.h a).2 := (List.mem_replicate.1 hv).2
      subst this
      exact i2.live_of_payload (j := (alloc (evalAtom s s.h a).1 [(evalAtom s s.h a).2]).2) (by rw [hp2]; simp)
    have i3 : Inv (bumpAll (alloc (evalAtom s s.h a).1 [(evalAtom s s.h a).2]).1 (List.replicate n (evalAtom s s.h a).2))
        (List.replicate n (evalAtom s s.h a).2 ++
          (.ref (alloc (evalAtom s s.h a).1 [(evalAtom s s.h a).2]).2 :: (T ++ s.cells))) := by
      intro k
      have := i2 k
      rw [pocc_bumpAll, rcOf_bumpAll _ _ _ hlive]
      simp only [occ_append, occ_cons] at this ⊢; omega
    obtain ⟨i4, e4, hp4, hl4⟩ := alloc_spec i3
    have D := drop_tr (i4.congr (fun k => by simp only [occ_cons]; omega) :
      Inv _ (.ref (alloc (evalAtom s s.h a).1 [(evalAtom s s.h a).2]).2 ::
        (.ref (alloc (bumpAll (alloc (evalAtom s s.h a).1 [(evalAtom s s.h a).2]).1
          (List.replicate n (evalAtom s s.h a).2)) (List.replicate n (evalAtom s s.h a).2)).2 :: (T ++ s.cells))))
    have e04 := ((e1.trans e2).trans (PayloadExt.bumpAll _ _)).trans e4
    refine ⟨by simpa [evalRhs] using D.inv, ?_, ?_⟩
    · exact (e04.stable _).trans (D.stable.mono (by intro v hv; simp [hv]))
    · simp only [evalRhs, Store.evalRhs]
      refine D.stable.rep (.root (by simp)) ?_
      apply Rep_ref_list hl4 (alloc_keys _ _)
      rw [hp4]
      exact All2.replicate n (r1.ext ((e2.trans (PayloadExt.bumpAll _ _)).trans e4))

end Noulith.RcHeap
