/-
C01 helper lemmas, part 10: refinement lemmas for operator-assignment (`append=`) and `swap`.
-/
import NoulithModel.Lemmas.HeapRefine

namespace Noulith.RcHeap
open Noulith.Store (Tree modPath pyIdx setφ takeφ popφ removeφ getPath setPath)

/-- second half of an operator-assignment: `drop_lhs`, operator, assign — entered with the old
left-hand value `l` and the right-hand value `ev` owned -/
theorem appendFinish_spec {s : State} {h : Heap} {σ : List Tree} {x : Nat} {l ev : Val} {tl tv : Tree}
    (path : List Int) (hx : x < s.cells.length) (i : Inv h (ev :: l :: s.cells))
    (sim : All2 (Rep h) s.cells σ) (rl : Rep h l tl) (re : Rep h ev tv) :
    Refines (appendFinish s h x path l ev).1 (Store.appendFinish σ x path tl tv).1 ∧
    (appendFinish s h x path l ev).2 = (Store.appendFinish σ x path tl tv).2 := by
  have hxσ : x < σ.length := by rw [← All2.length_eq sim]; exact hx
  have D := withCell_setIndex (s := s) (T := [ev, l]) (new := .null) path hx
    (i.congr (fun k => by simp [occ_cons])) sim Rep_null
  have hlen := withCell_cells_length s h x (fun h v => setIndex h v path .null)
  simp only [appendFinish, Store.appendFinish, Store.get]
  obtain ⟨d, hdd⟩ : ∃ d, withCell s h x (fun h v => setIndex h v path .null) = d := ⟨_, rfl⟩
  simp only [hdd] at D hlen ⊢
  obtain ⟨id, std, md⟩ := D
  have rl3 : Rep d.1.h l tl := std.rep (.root (by simp)) rl
  have re3 : Rep d.1.h ev tv := std.rep (.root (by simp)) re
  have id' : Inv d.1.h (l :: ev :: d.1.cells) := id.congr (fun k => by simp [occ_cons, occ_append]; omega)
  cases hsn : setPath (σ.getD x .null) path .null with
  | none =>
    rw [hsn] at md
    simp only [md.1]
    have D1 := drop_tr id'
    have D2 := drop_tr D1.inv
    have simf : All2 (Rep (drop (drop d.1.h l) ev)) d.1.cells σ :=
      sim_stable (T := []) (sim_stable (T := [ev]) md.2 (by simpa using D1.stable)) (by simpa using D2.stable)
    have hnone : ∀ b, setPath (σ.getD x .null) path b = none := fun b => (setPath_none_iff .null b).1 hsn
    refine ⟨⟨by simpa using D2.inv, ?_⟩, ?_⟩
    · cases tl with
      | null => exact simf
      | int n => exact simf
      | dict ks vs => exact simf
      | list ts => simp only [hnone]; exact simf
    · cases tl with
      | null => rfl
      | int n => rfl
      | dict ks vs => rfl
      | list ts => simp only [hnone]; first | rfl | trivial
  | some t1 =>
    rw [hsn] at md
    simp only [md.1, if_true]
    have A := appendOp_spec (F := d.1.cells) id' rl3 re3
    obtain ⟨ap, hap⟩ : ∃ ap, appendOp d.1.h l ev = ap := ⟨_, rfl⟩
    simp only [hap] at A ⊢
    cases tl with
    | null =>
      dsimp only at A ⊢
      simp only [A.1]
      exact ⟨⟨by simpa using A.2.inv, sim_stable (T := []) md.2 (by simpa using A.2.stable)⟩, by first | rfl | trivial⟩
    | int n =>
      dsimp only at A ⊢
      simp only [A.1]
      exact ⟨⟨by simpa using A.2.inv, sim_stable (T := []) md.2 (by simpa using A.2.stable)⟩, by first | rfl | trivial⟩
    | dict ks vs =>
      dsimp only at A ⊢
      simp only [A.1]
      exact ⟨⟨by simpa using A.2.inv, sim_stable (T := []) md.2 (by simpa using A.2.stable)⟩, by first | rfl | trivial⟩
    | list ts =>
      dsimp only at A ⊢
      obtain ⟨c, hc, trc, rc⟩ := A
      simp only [hc]
      have sim4 := sim_stable (T := []) md.2 (by simpa using trc.stable)
      have hx2 : x < d.1.cells.length := by rw [hlen]; exact hx
      have W := withCell_setIndex (s := d.1) (T := []) path hx2 (by simpa using trc.inv) sim4 rc
      obtain ⟨w, hw⟩ : ∃ w, withCell d.1 ap.1 x (fun h v => setIndex h v path c) = w := ⟨_, rfl⟩
      simp only [hw] at W ⊢
      obtain ⟨iw, _, mw⟩ := W
      rw [getD_set_same _ _ _ _ hxσ, setPath_setPath _ (treeWF_of_rep (All2.getD x .null .null sim hx)) hsn] at mw
      cases hsf : setPath (σ.getD x .null) path (.list (ts ++ [tv])) with
      | none =>
        exact absurd ((setPath_none_iff _ .null).1 hsf) (by rw [hsn]; simp)
      | some t2 =>
        rw [hsf] at mw
        refine ⟨⟨by simpa using iw, ?_⟩, mw.1⟩
        have := mw.2
        rwa [List.set_set] at this

theorem step_append {s : State} {σ : List Tree} (R : Refines s σ) (x : Nat) (path : List Int) (r : Rhs) :
    StepOK s σ (.append x path r) := by
  by_cases hx : x < s.cells.length
  · have hd : declared s x = true := by simp [declared, hx]
    have hd' : Store.declared σ x = true := by rw [← R.decl]; exact hd
    have RL := readLvalue_spec (s := s) (h := s.h) (T := []) x path (by simpa using R.inv) R.sim
    simp only [StepOK, step, Store.step, hd, hd', if_true, Store.get, readVar]
    obtain ⟨rp, hrp⟩ : ∃ rp, readPath (dup s.h (cellOf s x)) (cellOf s x) path = rp := ⟨_, rfl⟩
    simp only [hrp] at RL ⊢
    cases hg : getPath (σ.getD x .null) path with
    | none =>
      rw [hg] at RL
      simp only [RL.1]
      exact ⟨⟨by simpa using RL.2.1, sim_stable (T := []) R.sim (by simpa using RL.2.2)⟩, by first | rfl | trivial⟩
    | some tl =>
      rw [hg] at RL
      obtain ⟨l, hl, il, stl, rl⟩ := RL
      simp only [hl]
      have sim1 : All2 (Rep rp.1) s.cells σ := sim_stable (T := []) R.sim (by simpa using stl)
      have E := evalRhs_spec (s := ⟨rp.1, s.cells⟩) (T := [l]) r (by simpa using il) sim1
      obtain ⟨e, he⟩ : ∃ e, evalRhs ⟨rp.1, s.cells⟩ r = e := ⟨_, rfl⟩
      simp only [he] at E ⊢
      obtain ⟨ie, ste, re⟩ := E
      try dsimp only at ie ste re
      have sim2 := sim_stable sim1 ste
      have rl2 : Rep e.1 l tl := ste.rep (.root (by simp)) rl
      exact appendFinish_spec path hx (by simpa using ie) sim2 rl2 re
  · have hd : declared s x = false := by simp [declared, hx]
    have hd' : Store.declared σ x = false := by rw [← R.decl]; exact hd
    simp only [StepOK, step, Store.step, hd, hd']
    exact ⟨R, by first | rfl | trivial⟩

/-- `x[path] append= pop y[ypath]`: the old left-hand value is read before the right-hand side pops -/
theorem step_appendPop {s : State} {σ : List Tree} (R : Refines s σ) (x : Nat) (path : List Int) (y : Nat)
    (ypath : List Int) : StepOK s σ (.appendPop x path y ypath) := by
  by_cases hxy : x < s.cells.length ∧ y < s.cells.length
  · obtain ⟨hx, hy⟩ := hxy
    have hd : (declared s x = true ∧ declared s y = true) := by simp [declared, hx, hy]
    have hd' : (Store.declared σ x = true ∧ Store.declared σ y = true) := by
      rw [← R.decl, ← R.decl]; exact hd
    have RL := readLvalue_spec (s := s) (h := s.h) (T := []) x path (by simpa using R.inv) R.sim
    simp only [StepOK, step, Store.step, hd, hd', and_self, if_true, Store.get, readVar]
    obtain ⟨rp, hrp⟩ : ∃ rp, readPath (dup s.h (cellOf s x)) (cellOf s x) path = rp := ⟨_, rfl⟩
    simp only [hrp] at RL ⊢
    cases hg : getPath (σ.getD x .null) path with
    | none =>
      rw [hg] at RL
      simp only [RL.1]
      exact ⟨⟨by simpa using RL.2.1, sim_stable (T := []) R.sim (by simpa using RL.2.2)⟩, by first | rfl | trivial⟩
    | some tl =>
      rw [hg] at RL
      obtain ⟨l, hl, il, stl, rl⟩ := RL
      simp only [hl]
      have sim1 : All2 (Rep rp.1) s.cells σ := sim_stable (T := []) R.sim (by simpa using stl)
      -- the right-hand side: pop y[ypath], with the old left-hand value `l` in the frame
      have W := withCell_walk popLeaf_spec popLeaf_ins (s := s) (h := rp.1) (T := [l]) ypath hy (by simpa using il) sim1
      obtain ⟨w, hw⟩ : ∃ w, withCell s rp.1 y (fun h v => walk popLeaf h v ypath) = w := ⟨_, rfl⟩
      simp only [hw] at W ⊢
      obtain ⟨stw, hlen, mw⟩ := W
      have rl2 : Rep w.1.h l tl := stw.rep (.root (by simp)) rl
      cases hm : modPath popφ (σ.getD y .null) ypath with
      | none =>
        rw [hm] at mw
        simp only [mw.1]
        have D := drop_tr (by simpa using mw.2.1 : Inv w.1.h (l :: w.1.cells))
        exact ⟨⟨by simpa using D.inv, sim_stable (T := []) mw.2.2 (by simpa using D.stable)⟩, by first | rfl | trivial⟩
      | some tr =>
        obtain ⟨ty, r⟩ := tr
        rw [hm] at mw
        dsimp only at mw ⊢
        simp only [mw.1, if_true]
        exact appendFinish_spec path (by rw [hlen]; exact hx) (by simpa using mw.2.1) mw.2.2.1 rl2 mw.2.2.2
  · have hd : ¬ (declared s x = true ∧ declared s y = true) := by simpa [declared] using hxy
    have hd' : ¬ (Store.declared σ x = true ∧ Store.declared σ y = true) := by
      rw [← R.decl, ← R.decl]; exact hd
    simp only [StepOK, step, Store.step, hd, hd', if_false]
    exact ⟨R, by first | rfl | trivial⟩

theorem step_swap {s : State} {σ : List Tree} (R : Refines s σ) (x : Nat) (px : List Int) (y : Nat) (py : List Int) :
    StepOK s σ (.swap x px y py) := by
  by_cases hxy : x < s.cells.length ∧ y < s.cells.length
  · obtain ⟨hx, hy⟩ := hxy
    have hd : (declared s x = true ∧ declared s y = true) := by simp [declared, hx, hy]
    have hd' : (Store.declared σ x = true ∧ Store.declared σ y = true) := by
      rw [← R.decl, ← R.decl]; exact hd
    have RA := readLvalue_spec (s := s) (h := s.h) (T := []) x px (by simpa using R.inv) R.sim
    simp only [StepOK, step, Store.step, hd, hd', and_self, if_true, Store.get, readVar]
    obtain ⟨ra, hra⟩ : ∃ ra, readPath (dup s.h (cellOf s x)) (cellOf s x) px = ra := ⟨_, rfl⟩
    simp only [hra] at RA ⊢
    cases hga : getPath (σ.getD x .null) px with
    | none =>
      rw [hga] at RA
      simp only [RA.1]
      exact ⟨⟨by simpa using RA.2.1, sim_stable (T := []) R.sim (by simpa using RA.2.2)⟩, by first | rfl | trivial⟩
    | some ta =>
      rw [hga] at RA
      obtain ⟨av, hav, ia, sta, rav⟩ := RA
      simp only [hav]
      have sim1 : All2 (Rep ra.1) s.cells σ := sim_stable (T := []) R.sim (by simpa using sta)
      have RB := readLvalue_spec (s := ⟨ra.1, s.cells⟩) (h := ra.1) (T := [av]) y py (by simpa using ia) sim1
      have ec : ∀ z, cellOf ⟨ra.1, s.cells⟩ z = cellOf s z := fun z => rfl
      simp only [ec] at RB ⊢
      obtain ⟨rb, hrb⟩ : ∃ rb, readPath (dup ra.1 (cellOf s y)) (cellOf s y) py = rb := ⟨_, rfl⟩
      simp only [hrb] at RB ⊢
      cases hgb : getPath (σ.getD y .null) py with
      | none =>
        rw [hgb] at RB
        simp only [RB.1]
        have D := drop_tr (by simpa using RB.2.1 : Inv rb.1 (av :: s.cells))
        have sim2 := sim_stable sim1 RB.2.2
        exact ⟨⟨by simpa using D.inv, sim_stable (T := []) sim2 (by simpa using D.stable)⟩, by first | rfl | trivial⟩
      | some tb =>
        rw [hgb] at RB
        obtain ⟨bv, hbv, ib, stb, rbv⟩ := RB
        simp only [hbv]
        have sim2 : All2 (Rep rb.1) s.cells σ := sim_stable sim1 stb
        have rav2 : Rep rb.1 av ta := stb.rep (.root (by simp)) rav
        have W1 := withCell_setIndex (s := s) (T := [av]) (path := px) hx (by simpa using ib) sim2 rbv
        obtain ⟨w1, hw1⟩ : ∃ w1, withCell s rb.1 x (fun h v => setIndex h v px bv) = w1 := ⟨_, rfl⟩
        have hlen := withCell_cells_length s rb.1 x (fun h v => setIndex h v px bv)
        simp only [hw1] at W1 hlen ⊢
        obtain ⟨i1, st1, m1⟩ := W1
        have rav3 : Rep w1.1.h av ta := st1.rep (.root (by simp)) rav2
        cases hsx : setPath (σ.getD x .null) px tb with
        | none =>
          rw [hsx] at m1
          simp only [m1.1]
          have D := drop_tr (by simpa using i1 : Inv w1.1.h (av :: w1.1.cells))
          exact ⟨⟨by simpa using D.inv, sim_stable (T := []) m1.2 (by simpa using D.stable)⟩, by first | rfl | trivial⟩
        | some tx =>
          rw [hsx] at m1
          simp only [m1.1, if_true]
          have hy2 : y < w1.1.cells.length := by rw [hlen]; exact hy
          have W2 := withCell_setIndex (s := w1.1) (T := []) (path := py) hy2 (by simpa using i1) m1.2 rav3
          obtain ⟨w2, hw2⟩ : ∃ w2, withCell w1.1 w1.1.h y (fun h v => setIndex h v py av) = w2 := ⟨_, rfl⟩
          simp only [hw2] at W2 ⊢
          obtain ⟨i2, _, m2⟩ := W2
          cases hsy : setPath ((σ.set x tx).getD y .null) py ta with
          | none => rw [hsy] at m2; exact ⟨⟨by simpa using i2, m2.2⟩, m2.1⟩
          | some ty => rw [hsy] at m2; exact ⟨⟨by simpa using i2, m2.2⟩, m2.1⟩
  · have hd : ¬ (declared s x = true ∧ declared s y = true) := by simpa [declared] using hxy
    have hd' : ¬ (Store.declared σ x = true ∧ Store.declared σ y = true) := by
      rw [← R.decl, ← R.decl]; exact hd
    simp only [StepOK, step, Store.step, hd, hd', if_false]
    exact ⟨R, by first | rfl | trivial⟩

theorem step_update {s : State} {σ : List Tree} (R : Refines s σ) (y x : Nat) (i : Int) (a : Atom) :
    StepOK s σ (.update y x i a) := by
  by_cases hxy : x < s.cells.length ∧ y < s.cells.length
  · obtain ⟨hx, hy⟩ := hxy
    have hd : (declared s x = true ∧ declared s y = true) := by simp [declared, hx, hy]
    have hd' : (Store.declared σ x = true ∧ Store.declared σ y = true) := by
      rw [← R.decl, ← R.decl]; exact hd
    obtain ⟨i1, e1, r1⟩ := evalAtom_spec (s := s) (T := []) (.var x) (by simpa using R.inv) R.sim
    simp only [evalAtom, Store.evalAtom] at i1 e1 r1
    have sim1 : All2 (Rep (dup s.h (cellOf s x))) s.cells σ := All2.mono (fun _ _ _ r => r.ext e1) R.sim
    obtain ⟨i2, e2, r2⟩ := evalAtom_spec (s := s) (h := dup s.h (cellOf s x)) (T := [cellOf s x]) a (by simpa using i1) sim1
    have sim2 : All2 (Rep (evalAtom s (dup s.h (cellOf s x)) a).1) s.cells σ := All2.mono (fun _ _ _ r => r.ext e2) sim1
    obtain ⟨S1, S2⟩ := setIndex_spec (F := s.cells) [i]
      (i2.congr (fun k => by simp [occ_cons, occ_append]; omega)) (r1.ext e2) r2
    simp only [StepOK, step, Store.step, hd, hd', and_self, if_true, readVar]
    obtain ⟨w, hw⟩ : ∃ w, setIndex (evalAtom s (dup s.h (cellOf s x)) a).1 (cellOf s x) [i]
      (evalAtom s (dup s.h (cellOf s x)) a).2 = w := ⟨_, rfl⟩
    simp only [hw] at S1 S2 ⊢
    have sim3 : All2 (Rep w.h) s.cells σ := sim_stable (T := []) sim2 (by simpa using S1.stable)
    cases hsp : setPath (Store.get σ x) [i] (Store.evalAtom σ a) with
    | none =>
      rw [hsp] at S2
      simp only [S2.1]
      have D := drop_tr (by simpa using S1.inv : Inv w.h (w.v :: s.cells))
      exact ⟨⟨by simpa using D.inv, sim_stable (T := []) sim3 (by simpa using D.stable)⟩, by first | rfl | trivial⟩
    | some t' =>
      rw [hsp] at S2
      simp only [S2.1, if_true]
      obtain ⟨i4, s4, _⟩ := writeCell_spec (T := []) hy (by simpa using S1.inv) sim3 S2.2
      exact ⟨⟨by simpa using i4, s4⟩, by first | rfl | trivial⟩
  · have hd : ¬ (declared s x = true ∧ declared s y = true) := by simpa [declared] using hxy
    have hd' : ¬ (Store.declared σ x = true ∧ Store.declared σ y = true) := by
      rw [← R.decl, ← R.decl]; exact hd
    simp only [StepOK, step, Store.step, hd, hd', if_false]
    exact ⟨R, by first | rfl | trivial⟩

theorem step_callAppend {s : State} {σ : List Tree} (R : Refines s σ) (y x : Nat) (a : Atom) :
    StepOK s σ (.callAppend y x a) := by
  by_cases hxy : x < s.cells.length ∧ y < s.cells.length
  · obtain ⟨hx, hy⟩ := hxy
    have hd : (declared s x = true ∧ declared s y = true) := by simp [declared, hx, hy]
    have hd' : (Store.declared σ x = true ∧ Store.declared σ y = true) := by
      rw [← R.decl, ← R.decl]; exact hd
    obtain ⟨i1, e1, r1⟩ := evalAtom_spec (s := s) (T := []) (.var x) (by simpa using R.inv) R.sim
    simp only [evalAtom, Store.evalAtom] at i1 e1 r1
    have sim1 : All2 (Rep (dup s.h (cellOf s x))) s.cells σ := All2.mono (fun _ _ _ r => r.ext e1) R.sim
    obtain ⟨i2, e2, r2⟩ := evalAtom_spec (s := s) (h := dup s.h (cellOf s x)) (T := [cellOf s x]) a (by simpa using i1) sim1
    have sim2 : All2 (Rep (evalAtom s (dup s.h (cellOf s x)) a).1) s.cells σ := All2.mono (fun _ _ _ r => r.ext e2) sim1
    simp only [StepOK, step, Store.step, hd, hd', and_self, if_true, readVar]
    obtain ⟨tx, htx⟩ : ∃ tx, Store.get σ x = tx := ⟨_, rfl⟩
    rw [htx] at r1
    simp only [htx]
    have A := appendOp_spec (F := s.cells) (i2.congr (fun k => by simp [occ_cons, occ_append]; omega))
      (r1.ext e2) r2
    obtain ⟨ap, hap⟩ : ∃ ap, appendOp (evalAtom s (dup s.h (cellOf s x)) a).1 (cellOf s x)
      (evalAtom s (dup s.h (cellOf s x)) a).2 = ap := ⟨_, rfl⟩
    simp only [hap] at A ⊢
    cases tx with
    | null =>
      dsimp only at A ⊢
      simp only [A.1]
      exact ⟨⟨by simpa using A.2.inv, sim_stable (T := []) sim2 (by simpa using A.2.stable)⟩, by first | rfl | trivial⟩
    | int n =>
      dsimp only at A ⊢
      simp only [A.1]
      exact ⟨⟨by simpa using A.2.inv, sim_stable (T := []) sim2 (by simpa using A.2.stable)⟩, by first | rfl | trivial⟩
    | dict ks vs =>
      dsimp only at A ⊢
      simp only [A.1]
      exact ⟨⟨by simpa using A.2.inv, sim_stable (T := []) sim2 (by simpa using A.2.stable)⟩, by first | rfl | trivial⟩
    | list ts =>
      dsimp only at A ⊢
      obtain ⟨c, hc, trc, rc⟩ := A
      simp only [hc]
      have sim3 := sim_stable (T := []) sim2 (by simpa using trc.stable)
      obtain ⟨i4, s4, _⟩ := writeCell_spec (T := []) hy (by simpa using trc.inv) sim3 rc
      exact ⟨⟨by simpa using i4, s4⟩, by first | rfl | trivial⟩
  · have hd : ¬ (declared s x = true ∧ declared s y = true) := by simpa [declared] using hxy
    have hd' : ¬ (Store.declared σ x = true ∧ Store.declared σ y = true) := by
      rw [← R.decl, ← R.decl]; exact hd
    simp only [StepOK, step, Store.step, hd, hd', if_false]
    exact ⟨R, by first | rfl | trivial⟩

/-- every statement form -/
theorem step_ok {s : State} {σ : List Tree} (R : Refines s σ) (st : Stmt) : StepOK s σ st := by
  cases st with
  | assign x r => exact step_assign R x r
  | setIdx x path r => exact step_setIdx R x path r
  | append x path r => exact step_append R x path r
  | pop y x path => exact step_pop R y x path
  | remove y x path i => exact step_remove R y x path i
  | consume y x path => exact step_consume R y x path
  | swap x px y py => exact step_swap R x px y py
  | update y x i a => exact step_update R y x i a
  | callAppend y x a => exact step_callAppend R y x a
  | appendPop x path y ypath => exact step_appendPop R x path y ypath

end Noulith.RcHeap
