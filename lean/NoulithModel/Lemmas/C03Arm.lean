/-
C03 helper lemmas, part 3: the `Expr::Chain` arm (trace of evaluated sub-expressions, fast path,
section path) — facts about the transcription in `Impl/Chain.lean`.
-/
import NoulithModel.Lemmas.C03Sim

namespace Noulith.Chain

variable {E F V : Type}

namespace Tr
variable {α β : Type}
@[simp] theorem bind_pure (a : α) (f : α → Tr E β) : Tr.bind (Tr.pure a) f = f a := by
  simp [Tr.bind, Tr.pure]
@[simp] theorem bind_lift_ok (a : α) (f : α → Tr E β) : Tr.bind (Tr.lift (.ok a)) f = f a := by
  simp [Tr.bind, Tr.lift]
@[simp] theorem bind_fail (f : α → Tr E β) : Tr.bind (Tr.fail : Tr E α) f = Tr.fail := by
  simp [Tr.bind, Tr.fail]
theorem bind_fst_prefix (x : Tr E α) (f : α → Tr E β) : x.1 <+: (Tr.bind x f).1 := by
  obtain ⟨l, o⟩ := x
  cases o <;> simp [Tr.bind]
end Tr

theorem Out.bind_ok_right {α : Type} (x : Out α) : x.bind Out.ok = x := by cases x <;> rfl

section arm
variable (I : Lang E F V)

/-- the sub-expressions of the chain that are not `_` holes, in source order -/
def expectedTrace (op1 : E) (ops : List (E × E)) : List E :=
  (if I.isUnderscore op1 then [] else [op1]) ++
    ops.flatMap (fun p => if I.isUnderscore p.2 then [p.1] else [p.1, p.2])

/-- a step `evaluate e` followed by a continuation whose trace is bounded by `rest` -/
theorem evalT_bind_prefix {β : Type} (e : E) (k : V → Tr E β) (rest : List E)
    (hk : ∀ v, (k v).1 <+: rest) : (Tr.bind (evalT I e) k).1 <+: e :: rest := by
  unfold evalT Tr.bind
  cases h : I.evaluate e with
  | ok v => simpa using (List.prefix_cons_inj e).2 (hk v)
  | throw => simp
  | panic => simp

theorem evalT_bind_complete {β : Type} (e : E) (k : V → Tr E β) (rest : List E) (r : β)
    (hk : ∀ v, (k v).2 = .ok r → (k v).1 = rest)
    (h : (Tr.bind (evalT I e) k).2 = .ok r) : (Tr.bind (evalT I e) k).1 = e :: rest := by
  unfold evalT Tr.bind at *
  cases hv : I.evaluate e with
  | ok v => simp only [hv] at h ⊢; simpa using hk v h
  | throw => simp [hv] at h
  | panic => simp [hv] at h

/-! #### general path -/

theorem generalLoop_prefix : ∀ (ops : List (E × E)) (ev : CE F V),
    (generalLoop I ops ev).1 <+: ops.flatMap (fun p => [p.1, p.2]) := by
  intro ops
  induction ops with
  | nil => intro ev; simp [generalLoop, Tr.lift]
  | cons p ops ih =>
    intro ev
    obtain ⟨oper, opd⟩ := p
    simp only [generalLoop, List.flatMap_cons, List.cons_append, List.nil_append]
    apply evalT_bind_prefix
    intro oprr
    cases I.asFunc oprr with
    | none => simp [Tr.fail]
    | some bp =>
      obtain ⟨b, prec⟩ := bp
      simp only
      apply evalT_bind_prefix
      intro oprd
      cases hg : ev.give I.run I.tryChain b prec oprd with
      | ok ev' => simpa [Tr.bind, Tr.lift] using ih ev'
      | throw => simp [Tr.bind, Tr.lift]
      | panic => simp [Tr.bind, Tr.lift]

theorem generalLoop_complete : ∀ (ops : List (E × E)) (ev : CE F V) (r : V),
    (generalLoop I ops ev).2 = .ok r →
      (generalLoop I ops ev).1 = ops.flatMap (fun p => [p.1, p.2]) := by
  intro ops
  induction ops with
  | nil => intro ev r _; simp [generalLoop, Tr.lift]
  | cons p ops ih =>
    intro ev r h
    obtain ⟨oper, opd⟩ := p
    simp only [generalLoop, List.flatMap_cons, List.cons_append, List.nil_append] at h ⊢
    apply evalT_bind_complete I oper _ _ r _ h
    intro oprr h1
    cases hf : I.asFunc oprr with
    | none => simp [hf, Tr.fail] at h1
    | some bp =>
      obtain ⟨b, prec⟩ := bp
      simp only [hf] at h1 ⊢
      apply evalT_bind_complete I opd _ _ r _ h1
      intro oprd h2
      cases hg : ev.give I.run I.tryChain b prec oprd with
      | ok ev' =>
        simp only [hg, Tr.bind_lift_ok] at h2 ⊢
        exact ih ev' r h2
      | throw => simp [hg, Tr.bind, Tr.lift] at h2
      | panic => simp [hg, Tr.bind, Tr.lift] at h2

/-! #### section path -/

theorem sectionOps_prefix : ∀ (ops : List (E × E)),
    (sectionOps I ops).1 <+: ops.flatMap (fun p => if I.isUnderscore p.2 then [p.1] else [p.1, p.2]) := by
  intro ops
  induction ops with
  | nil => simp [sectionOps, Tr.pure]
  | cons p ops ih =>
    obtain ⟨oper, opd⟩ := p
    simp only [sectionOps, List.flatMap_cons]
    cases hu : I.isUnderscore opd
    · simp only [Bool.false_eq_true, ↓reduceIte, List.cons_append, List.nil_append]
      apply evalT_bind_prefix
      intro oprr
      cases I.asFunc oprr with
      | none => simp [Tr.fail]
      | some bp =>
        simp only
        apply evalT_bind_prefix
        intro oprd
        rcases hso : sectionOps I ops with ⟨l, o⟩
        rw [hso] at ih
        cases o <;> simpa [Tr.bind, Tr.pure] using ih
    · simp only [↓reduceIte, List.cons_append, List.nil_append]
      apply evalT_bind_prefix
      intro oprr
      cases I.asFunc oprr with
      | none => simp [Tr.fail]
      | some bp =>
        simp only
        rcases hso : sectionOps I ops with ⟨l, o⟩
        rw [hso] at ih
        cases o <;> simpa [Tr.bind, Tr.pure] using ih

theorem sectionOps_complete : ∀ (ops : List (E × E)) (r : List (F × Precedence × Option V)),
    (sectionOps I ops).2 = .ok r →
      (sectionOps I ops).1 =
        ops.flatMap (fun p => if I.isUnderscore p.2 then [p.1] else [p.1, p.2]) := by
  intro ops
  induction ops with
  | nil => intro r _; simp [sectionOps, Tr.pure]
  | cons p ops ih =>
    intro r h
    obtain ⟨oper, opd⟩ := p
    simp only [sectionOps, List.flatMap_cons] at h ⊢
    cases hu : I.isUnderscore opd
    · simp only [hu, Bool.false_eq_true, ↓reduceIte, List.cons_append, List.nil_append] at h ⊢
      apply evalT_bind_complete I oper _ _ r _ h
      intro oprr h1
      cases hf : I.asFunc oprr with
      | none => simp [hf, Tr.fail] at h1
      | some bp =>
        simp only [hf] at h1 ⊢
        apply evalT_bind_complete I opd _ _ r _ h1
        intro oprd h2
        rcases hso : sectionOps I ops with ⟨l, o⟩
        rw [hso] at ih h2
        cases o with
        | ok acc => simpa [Tr.bind, Tr.pure] using ih acc rfl
        | throw => simp [Tr.bind] at h2
        | panic => simp [Tr.bind] at h2
    · simp only [hu, ↓reduceIte, List.cons_append, List.nil_append] at h ⊢
      apply evalT_bind_complete I oper _ _ r _ h
      intro oprr h1
      cases hf : I.asFunc oprr with
      | none => simp [hf, Tr.fail] at h1
      | some bp =>
        simp only [hf] at h1 ⊢
        rcases hso : sectionOps I ops with ⟨l, o⟩
        rw [hso] at ih h1
        cases o with
        | ok acc => simpa [Tr.bind, Tr.pure] using ih acc rfl
        | throw => simp [Tr.bind] at h1
        | panic => simp [Tr.bind] at h1

/-! #### `Func::ChainSection` applied -/

/-- number of `_` holes among the operands of a section -/
def holesOf : List (F × Precedence × Option V) → Nat
  | [] => 0
  | (_, _, some _) :: rest => holesOf rest
  | (_, _, none) :: rest => holesOf rest + 1

/-- the section's operators with the holes filled from `it`, left to right -/
def fillOps : List (F × Precedence × Option V) → List V → List (F × Precedence × V)
  | [], _ => []
  | (f, p, some x) :: rest, it => (f, p, x) :: fillOps rest it
  | (f, p, none) :: rest, a :: it => (f, p, a) :: fillOps rest it
  | (_, _, none) :: rest, [] => fillOps rest []

theorem sectionGives_enough : ∀ (ops : List (F × Precedence × Option V)) (it : List V) (ce : CE F V),
    holesOf ops ≤ it.length →
    sectionGives I ops it ce =
      (giveAll I.run I.tryChain (fillOps ops it) ce).bind
        (fun ce' => .ok (ce', it.drop (holesOf ops))) := by
  intro ops
  induction ops with
  | nil => intro it ce _; simp [sectionGives, fillOps, giveAll, holesOf]
  | cons o ops ih =>
    intro it ce h
    obtain ⟨f, p, opd⟩ := o
    cases opd with
    | some x =>
      simp only [holesOf] at h
      simp only [sectionGives, fillOps, giveAll, holesOf, Out.bind_assoc]
      congr 1; funext ce'; exact ih it ce' h
    | none =>
      cases it with
      | nil => simp [holesOf] at h
      | cons a it =>
        simp only [holesOf, List.length_cons, Nat.add_le_add_iff_right] at h
        simp only [sectionGives, fillOps, giveAll, holesOf, Out.bind_assoc, List.drop_succ_cons]
        congr 1; funext ce'; exact ih it ce' h

theorem sectionGives_few : ∀ (ops : List (F × Precedence × Option V)) (it : List V) (ce : CE F V),
    it.length < holesOf ops → ∀ r, sectionGives I ops it ce ≠ .ok r := by
  intro ops
  induction ops with
  | nil => intro it ce h; simp [holesOf] at h
  | cons o ops ih =>
    intro it ce h r
    obtain ⟨f, p, opd⟩ := o
    cases opd with
    | some x =>
      simp only [holesOf] at h
      simp only [sectionGives]
      cases hg : ce.give I.run I.tryChain f p x with
      | ok ce' => simpa using ih it ce' h r
      | throw => simp
      | panic => simp
    | none =>
      cases it with
      | nil => simp [sectionGives]
      | cons a it =>
        simp only [holesOf, List.length_cons, Nat.add_lt_add_iff_right] at h
        simp only [sectionGives]
        cases hg : ce.give I.run I.tryChain f p a with
        | ok ce' => simpa using ih it ce' h r
        | throw => simp
        | panic => simp

end arm
/-! #### the value of the arm when every sub-expression evaluates -/

section value
variable (I : Lang E F V)

/-- the operators and operands of the chain, evaluated (operands that are `_` stay holes);
`none` when some sub-expression fails or an operator is not a function -/
def evalOps : List (E × E) → Option (List (F × Precedence × Option V))
  | [] => some []
  | (oper, opd) :: rest =>
    match I.evaluate oper with
    | .ok w =>
      match I.asFunc w with
      | some (f, p) =>
        if I.isUnderscore opd then (evalOps rest).map ((f, p, none) :: ·)
        else
          match I.evaluate opd with
          | .ok v => (evalOps rest).map ((f, p, some v) :: ·)
          | _ => none
      | none => none
    | _ => none

theorem sectionOps_value : ∀ (ops : List (E × E)) (acc : List (F × Precedence × Option V)),
    evalOps I ops = some acc → (sectionOps I ops).2 = .ok acc := by
  intro ops
  induction ops with
  | nil => intro acc h; simp [evalOps] at h; simp [sectionOps, Tr.pure, h]
  | cons p ops ih =>
    intro acc h
    obtain ⟨oper, opd⟩ := p
    simp only [evalOps] at h
    simp only [sectionOps, evalT, Tr.bind]
    cases hw : I.evaluate oper with
    | throw => simp [hw] at h
    | panic => simp [hw] at h
    | ok w =>
      simp only [hw] at h ⊢
      cases hf : I.asFunc w with
      | none => simp [hf] at h
      | some fp =>
        obtain ⟨f, pr⟩ := fp
        simp only [hf] at h ⊢
        cases hu : I.isUnderscore opd
        · simp only [hu, Bool.false_eq_true, if_false] at h ⊢
          cases hv : I.evaluate opd with
          | throw => simp [hv] at h
          | panic => simp [hv] at h
          | ok v =>
            simp only [hv] at h ⊢
            cases hr : evalOps I ops with
            | none => simp [hr] at h
            | some acc' =>
              simp only [hr, Option.map_some, Option.some.injEq] at h
              have := ih acc' hr
              rcases hso : sectionOps I ops with ⟨l, o⟩
              rw [hso] at this
              simp only at this
              subst this
              simp [Tr.pure, h]
        · simp only [hu, if_true] at h ⊢
          cases hr : evalOps I ops with
          | none => simp [hr] at h
          | some acc' =>
            simp only [hr, Option.map_some, Option.some.injEq] at h
            have := ih acc' hr
            rcases hso : sectionOps I ops with ⟨l, o⟩
            rw [hso] at this
            simp only at this
            subst this
            simp [Tr.pure, h]

theorem generalLoop_value : ∀ (ops : List (E × E)) (acc : List (F × Precedence × Option V))
    (ev : CE F V), ops.any (fun p => I.isUnderscore p.2) = false → evalOps I ops = some acc →
    (generalLoop I ops ev).2 =
      (giveAll I.run I.tryChain (fillOps acc []) ev).bind (fun s => s.finish I.run) := by
  intro ops
  induction ops with
  | nil =>
    intro acc ev _ h
    simp [evalOps] at h
    subst h
    simp [generalLoop, Tr.lift, fillOps, giveAll]
  | cons p ops ih =>
    intro acc ev hno h
    obtain ⟨oper, opd⟩ := p
    simp only [List.any_cons, Bool.or_eq_false_iff] at hno
    simp only [evalOps, hno.1, Bool.false_eq_true, if_false] at h
    simp only [generalLoop, evalT, Tr.bind]
    cases hw : I.evaluate oper with
    | throw => simp [hw] at h
    | panic => simp [hw] at h
    | ok w =>
      simp only [hw] at h ⊢
      cases hf : I.asFunc w with
      | none => simp [hf] at h
      | some fp =>
        obtain ⟨f, pr⟩ := fp
        simp only [hf] at h ⊢
        cases hv : I.evaluate opd with
        | throw => simp [hv] at h
        | panic => simp [hv] at h
        | ok v =>
          simp only [hv] at h ⊢
          cases hr : evalOps I ops with
          | none => simp [hr] at h
          | some acc' =>
            simp only [hr, Option.map_some, Option.some.injEq] at h
            subst h
            simp only [fillOps, giveAll, Tr.lift]
            cases hg : ev.give I.run I.tryChain f pr v with
            | ok ev' => simpa using ih acc' ev' hno.2 hr
            | throw => simp
            | panic => simp

end value

end Noulith.Chain
