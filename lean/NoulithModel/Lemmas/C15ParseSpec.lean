/-
Helper lemmas for C15 (parser termination): a weakest-precondition predicate `SpecR` for the parser
monad, its rules for the primitives, the induction hypothesis `AllOK n` (at fuel `n` every function of
the parser's mutual block neither runs out of fuel within its budget nor increases the weight of the
token list) and the tactics that execute a `do` block symbolically.
-/
import NoulithModel.Lemmas.C15Weight
import NoulithModel.Impl.Parse
namespace Noulith.C15
open Noulith Noulith.Lex Noulith.Parse

/-- `r` is not out-of-fuel, and the postcondition holds if it is `ok` -/
def SpecR {α} (r : Res α) (Q : α → List Token → Prop) : Prop :=
  match r with
  | .ok a rest => Q a rest
  | .err => True
  | .oof => False

theorem SpecR.mono {α} {r : Res α} {Q Q' : α → List Token → Prop} (h : SpecR r Q)
    (hq : ∀ a rest, Q a rest → Q' a rest) : SpecR r Q' := by
  cases r <;> simp_all [SpecR]

theorem specR_ne_oof {α} {r : Res α} {Q : α → List Token → Prop} (h : SpecR r Q) : r ≠ .oof := by
  intro h'; subst h'; exact h

@[simp] theorem specR_ok {α} (a : α) (rest) (Q : α → List Token → Prop) : SpecR (.ok a rest) Q ↔ Q a rest := Iff.rfl
@[simp] theorem specR_err {α} (Q : α → List Token → Prop) : SpecR (.err : Res α) Q ↔ True := Iff.rfl
@[simp] theorem specR_oof {α} (Q : α → List Token → Prop) : SpecR (.oof : Res α) Q ↔ False := Iff.rfl

theorem specR_bind {α β} (m : P α) (f : α → P β) (ts : List Token) (Q : β → List Token → Prop) :
    SpecR ((m >>= f) ts) Q ↔ SpecR (m ts) (fun a r => SpecR (f a r) Q) := by
  show SpecR (match m ts with | .ok a rest => f a rest | .err => .err | .oof => .oof) Q ↔ _
  cases m ts <;> simp [SpecR]

theorem specR_pure {α} (a : α) (ts : List Token) (Q : α → List Token → Prop) :
    SpecR ((pure a : P α) ts) Q ↔ Q a ts := Iff.rfl

theorem specR_fail {α} (ts : List Token) (Q : α → List Token → Prop) : SpecR ((P.fail : P α) ts) Q ↔ True := Iff.rfl
theorem specR_outOfFuel {α} (ts : List Token) (Q : α → List Token → Prop) :
    SpecR ((P.outOfFuel : P α) ts) Q ↔ False := Iff.rfl

/-- `o` is the token `t` (kept opaque so that `subst_vars` does not put `some t` back into a `match`) -/
def IsTok (o : Option Token) (t : Token) : Prop := o = some t

theorem specR_peek (ts : List Token) (Q : Option Token → List Token → Prop) :
    SpecR (peek ts) Q ↔ (ts = [] → Q none []) ∧
      (∀ t tl o, ts = t :: tl → IsTok o t → 1 ≤ tw t → Q o (t :: tl)) := by
  cases ts with
  | nil => simp [peek]
  | cons t tl =>
    simp only [peek, specR_ok, List.head?_cons, reduceCtorEq, false_implies, true_and, List.cons.injEq, IsTok]
    constructor
    · intro h t' tl' o h1 h2 _; obtain ⟨rfl, rfl⟩ := h1; subst h2; exact h
    · intro h; exact h t tl (some t) ⟨rfl, rfl⟩ rfl (tw_pos t)

theorem specR_advance (ts : List Token) (Q : Unit → List Token → Prop) :
    SpecR (advance ts) Q ↔ Q () ts.tail := Iff.rfl

theorem specR_tryConsume (x : Token) (ts : List Token) (Q : Bool → List Token → Prop) :
    SpecR (tryConsume x ts) Q ↔ (ts = [] → Q false []) ∧
      (∀ t tl, ts = t :: tl → 1 ≤ tw t → (t = x → Q true tl) ∧ (t ≠ x → Q false (t :: tl))) := by
  cases ts with
  | nil => simp [tryConsume]
  | cons t tl =>
    by_cases h : t = x <;> simp [tryConsume, h, tw_pos]

theorem specR_require (x : Token) (ts : List Token) (Q : Unit → List Token → Prop) :
    SpecR (require x ts) Q ↔ (∀ tl, ts = x :: tl → Q () tl) := by
  cases ts with
  | nil => simp [require]
  | cons t tl =>
    by_cases h : t = x
    · simp [require, h]
    · simp [require, h]

theorem specR_peekIs (x : Token) (ts : List Token) (Q : Bool → List Token → Prop) :
    SpecR (peekIs x ts) Q ↔ (ts = [] → Q false []) ∧
      (∀ t tl, ts = t :: tl → 1 ≤ tw t → Q (decide (t = x)) (t :: tl)) := by
  cases ts with
  | nil => simp [peekIs]
  | cons t tl => simp [peekIs, tw_pos]

theorem specR_guardP (b : Bool) (ts : List Token) (Q : Unit → List Token → Prop) :
    SpecR (guardP b ts) Q ↔ (b = true → Q () ts) := by
  cases b <;> simp [guardP]

theorem specR_skip {α} (p : P α) (ts : List Token) (Q : Unit → List Token → Prop) :
    SpecR (skip p ts) Q ↔ SpecR (p ts) (fun _ r => Q () r) := by
  show SpecR ((p >>= fun _ => pure ()) ts) Q ↔ _
  rw [specR_bind]; rfl

theorem specR_tryConsumeBounded (b : Nat) (ts : List Token) (Q : Bool → List Token → Prop) :
    (∀ tl, W tl + 1 ≤ W ts → Q true tl) → Q false ts → SpecR (tryConsumeBounded b ts) Q := by
  intro h1 h2
  unfold tryConsumeBounded
  split
  · split
    · apply h1; simp [tw]; omega
    · trivial
  · exact h2


theorem specR_attach (e : PExpr) (ts : List Token) (Q : PExpr → List Token → Prop)
    (h : ∀ e' r, W r ≤ W ts → Q e' r) : SpecR (attachSymbolAccesses e ts) Q := by
  fun_induction attachSymbolAccesses e ts generalizing Q with
  | case1 e x rest ih =>
    apply ih
    intro e' r hr
    apply h
    simp [tw] at *; omega
  | case2 => trivial
  | case3 e ts => exact h e ts (Nat.le_refl _)

theorem specR_bytesTail (ts : List Token) (Q : Unit → List Token → Prop)
    (h : ∀ r, W r ≤ W ts → Q () r) : SpecR (bytesTail ts) Q := by
  fun_induction bytesTail ts generalizing Q with
  | case1 rest => apply h; simp [tw]
  | case2 i rest hle ih => apply ih; intro r hr; apply h; simp [tw] at *; omega
  | case3 => trivial
  | case4 => trivial
  | case5 ts => exact h ts (Nat.le_refl _)

theorem specR_bind_attach {β} (e : PExpr) (f : PExpr → P β) (ts : List Token) (Q : β → List Token → Prop)
    (h : ∀ e' r, W r ≤ W ts → SpecR (f e' r) Q) :
    SpecR (((show P PExpr from attachSymbolAccesses e) >>= f) ts) Q :=
  (specR_bind _ _ _ _).mpr (specR_attach e ts _ h)

theorem specR_bind_bytesTail {β} (f : Unit → P β) (ts : List Token) (Q : β → List Token → Prop)
    (h : ∀ r, W r ≤ W ts → SpecR (f () r) Q) :
    SpecR (((show P Unit from bytesTail) >>= f) ts) Q :=
  (specR_bind _ _ _ _).mpr (specR_bytesTail ts _ h)

/-- the fuel budget: 10 per unit of weight plus the grammar level of the function called -/
def Bud (n : Nat) (ts : List Token) (k : Nat) : Prop := 10 * W ts + k ≤ n

/-- weight is not increased / is decreased -/
def Le (ts : List Token) {α} : α → List Token → Prop := fun _ r => W r ≤ W ts
def Lt (ts : List Token) {α} : α → List Token → Prop := fun _ r => W r + 1 ≤ W ts


theorem W_skipBreaks (ts : List Token) : W (skipBreaks ts) ≤ W ts := by
  fun_induction skipBreaks ts <;> simp_all [tw] <;> omega

/-- the fuel needed by `formatParts` -/
def pneed : List FmtPart → Nat
  | [] => 1
  | .lit _ :: r => pneed r + 1
  | .expr toks _ :: r => max (10 * W toks + 10) (pneed r) + 1

/-- induction hypothesis: at fuel `n` every function of the parser's mutual block is safe on every
input whose budget fits, and does not increase (or strictly decreases) the weight -/
structure AllOK (n : Nat) : Prop where
  atom : ∀ ts, Bud n ts 1 → SpecR (atom n ts) (Lt ts)
  dictLoop : ∀ ts, Bud n ts 7 → SpecR (dictLoop n ts) (Le ts)
  switchCases : ∀ ts, Bud n ts 1 → SpecR (switchCases n ts) (Le ts)
  structFields : ∀ ts, Bud n ts 1 → SpecR (structFields n ts) (Le ts)
  forIterations : ∀ ts, Bud n ts 10 → SpecR (forIterations n ts) (Le ts)
  forIteration : ∀ ts, Bud n ts 9 → SpecR (forIteration n ts) (Le ts)
  operand : ∀ ts, Bud n ts 2 → SpecR (operand n ts) (Lt ts)
  operandLoop : ∀ cur ts, Bud n ts 1 → SpecR (operandLoop n cur ts) (Le ts)
  updateLoop : ∀ ts, Bud n ts 7 → SpecR (updateLoop n ts) (Le ts)
  operator : ∀ ab ts, Bud n ts 2 → SpecR (operator n ab ts) (Lt ts)
  chain : ∀ ab ts, Bud n ts 4 → SpecR (chain n ab ts) (Lt ts)
  chainLoop : ∀ ab ts, Bud n ts 3 → SpecR (chainLoop n ab ts) (Le ts)
  logicAnd : ∀ ts, Bud n ts 5 → SpecR (logicAnd n ts) (Lt ts)
  logicAndLoop : ∀ e ts, Bud n ts 1 → SpecR (logicAndLoop n e ts) (Le ts)
  single : ∀ ts, Bud n ts 6 → SpecR (single n ts) (Lt ts)
  singleLoop : ∀ e ts, Bud n ts 1 → SpecR (singleLoop n e ts) (Le ts)
  acs : ∀ a ts, Bud n ts 7 → SpecR (acs n a ts) (Lt ts)
  acsLoop : ∀ a x y c ts, Bud n ts 1 → SpecR (acsLoop n a x y c ts) (Le ts)
  annotatedPattern : ∀ a ts, Bud n ts 8 → SpecR (annotatedPattern n a ts) (Lt ts)
  assignment : ∀ ts, Bud n ts 9 → SpecR (assignment n ts) (Lt ts)
  paramList : ∀ ts, Bud n ts 8 → SpecR (paramList n ts) (Le ts)
  paramLoop : ∀ ts, Bud n ts 7 → SpecR (paramLoop n ts) (Le ts)
  expression : ∀ ts, Bud n ts 10 → SpecR (expression n ts) (Lt ts)
  exprLoop : ∀ ts, Bud n ts 1 → SpecR (exprLoop n ts) (Le ts)
  formatString : ∀ s, 20 * s.length + 12 ≤ n → formatString n s ≠ .oof
  formatParts : ∀ parts, pneed parts ≤ n → formatParts n parts ≠ .oof

theorem isTok_some_iff (a t : Token) : IsTok (some a) t ↔ t = a := by
  simp [IsTok, eq_comm]
theorem isTok_none (t : Token) : IsTok none t ↔ False := by simp [IsTok]
theorem isTok_def (o : Option Token) (t : Token) : IsTok o t ↔ o = some t := Iff.rfl

attribute [irreducible] SpecR IsTok

/-- arithmetic leaves: budgets and weight comparisons -/
macro "pbud" : tactic => `(tactic| (simp only [Bud, Le, Lt, W_cons, W_nil, tw, List.length_cons, Bool.and_false, Bool.and_true,
  Bool.false_eq_true, Bool.true_eq_false, Bool.false_and, Bool.true_and] at * <;> omega))

/-- one step of symbolic execution of a `do` block -/
macro "pstep" : tactic => `(tactic| first
  | simp only [specR_bind, specR_pure, specR_fail, specR_peek, specR_advance, specR_tryConsume,
      specR_require, specR_peekIs, specR_guardP, specR_skip, specR_ok, specR_err, List.tail_cons, List.tail_nil,
      Bool.not_eq_true', reduceCtorEq, false_implies, true_implies, implies_true, and_true, true_and,
      ne_eq, not_true_eq_false, not_false_eq_true, if_true, if_false, Bool.false_eq_true, decide_true, decide_false,
      List.cons.injEq, and_imp, forall_eq', forall_eq, forall_apply_eq_imp_iff, forall_eq_apply_imp_iff, imp_false]
  | (apply And.intro)
  | (intro h; try subst h)
  | split
  | (generalize (toLvalue _) = x at *; split))

/-- a recursive call: use the induction hypothesis of the callee, discharging its budget -/
macro "pcall" ih:ident : tactic => `(tactic| first
  | refine SpecR.mono (AllOK.atom $ih _ (by pbud)) ?_
  | refine SpecR.mono (AllOK.dictLoop $ih _ (by pbud)) ?_
  | refine SpecR.mono (AllOK.switchCases $ih _ (by pbud)) ?_
  | refine SpecR.mono (AllOK.structFields $ih _ (by pbud)) ?_
  | refine SpecR.mono (AllOK.forIterations $ih _ (by pbud)) ?_
  | refine SpecR.mono (AllOK.forIteration $ih _ (by pbud)) ?_
  | refine SpecR.mono (AllOK.operand $ih _ (by pbud)) ?_
  | refine SpecR.mono (AllOK.operandLoop $ih _ _ (by pbud)) ?_
  | refine SpecR.mono (AllOK.updateLoop $ih _ (by pbud)) ?_
  | refine SpecR.mono (AllOK.operator $ih _ _ (by pbud)) ?_
  | refine SpecR.mono (AllOK.chain $ih _ _ (by pbud)) ?_
  | refine SpecR.mono (AllOK.chainLoop $ih _ _ (by pbud)) ?_
  | refine SpecR.mono (AllOK.logicAnd $ih _ (by pbud)) ?_
  | refine SpecR.mono (AllOK.logicAndLoop $ih _ _ (by pbud)) ?_
  | refine SpecR.mono (AllOK.single $ih _ (by pbud)) ?_
  | refine SpecR.mono (AllOK.singleLoop $ih _ _ (by pbud)) ?_
  | refine SpecR.mono (AllOK.acs $ih _ _ (by pbud)) ?_
  | refine SpecR.mono (AllOK.acsLoop $ih _ _ _ _ _ (by pbud)) ?_
  | refine SpecR.mono (AllOK.annotatedPattern $ih _ _ (by pbud)) ?_
  | refine SpecR.mono (AllOK.assignment $ih _ (by pbud)) ?_
  | refine SpecR.mono (AllOK.paramList $ih _ (by pbud)) ?_
  | refine SpecR.mono (AllOK.paramLoop $ih _ (by pbud)) ?_
  | refine SpecR.mono (AllOK.expression $ih _ (by pbud)) ?_
  | refine SpecR.mono (AllOK.exprLoop $ih _ (by pbud)) ?_
  | (apply specR_attach)
  | (apply specR_bytesTail)
  | (apply specR_tryConsumeBounded))

macro "pauto" ih:ident : tactic => `(tactic| (repeat' (first | pstep | pcall $ih)) <;> (try pbud))


end Noulith.C15
