/-
C13 helper lemmas about the scan of `Permutations::next` (the transcription shared with C11,
`Impl/Stream.lean` `Perm.scan`): the converse of the scan invariant of Theorems/C11PermStep.lean.
-/
import NoulithModel.Theorems.C11PermStep
set_option linter.unusedSimpArgs false
set_option linter.unusedVariables false
namespace Noulith.C13Perm
open Noulith Noulith.Stream Noulith.C11 Noulith.C11.PermT

/-- entries of `p ++ x :: t` behind position `p.length` -/
theorem getD_tail (p : List Nat) (x : Nat) (t : List Nat) (i : Nat) :
    (p ++ x :: t).getD (p.length + 1 + i) 0 = t.getD i 0 := by
  simp only [List.getD_eq_getElem?_getD]
  rw [List.getElem?_append_right (by omega)]
  have : p.length + 1 + i - p.length = i + 1 := by omega
  rw [this]; simp

theorem getD_at (p : List Nat) (x : Nat) (t : List Nat) : (p ++ x :: t).getD p.length 0 = x := by
  simp [List.getD_eq_getElem?_getD]

/-- in a strictly descending list later entries are smaller -/
theorem desc_getD (t : List Nat) (h : t.Pairwise (· > ·)) (i j : Nat) (hij : i < j) (hj : j < t.length) :
    t.getD i 0 > t.getD j 0 := by
  have hi : i < t.length := by omega
  simp only [List.getD_eq_getElem?_getD, List.getElem?_eq_getElem hi, List.getElem?_eq_getElem hj, Option.getD_some]
  exact List.pairwise_iff_getElem.mp h i j hi hj hij

theorem mid_getD (d1 : List Nat) (y : Nat) (d2 : List Nat) : (d1 ++ y :: d2).getD d1.length 0 = y := by
  simp [List.getD_eq_getElem?_getD]

theorem right_getD (d1 : List Nat) (y : Nat) (d2 : List Nat) (i : Nat) (hi : d1.length < i)
    (hl : i < (d1 ++ y :: d2).length) : (d1 ++ y :: d2).getD i 0 ∈ d2 := by
  simp only [List.getD_eq_getElem?_getD]
  rw [List.getElem?_append_right (by omega)]
  obtain ⟨k, hk⟩ : ∃ k, i - d1.length = k + 1 := ⟨i - d1.length - 1, by omega⟩
  rw [hk, List.getElem?_cons_succ]
  have hk2 : k < d2.length := by simp at hl; omega
  rw [List.getElem?_eq_getElem hk2]
  simp

theorem left_getD (d1 : List Nat) (y : Nat) (d2 : List Nat) (i : Nat) (hi : i < d1.length) :
    (d1 ++ y :: d2).getD i 0 ∈ d1 := by
  simp only [List.getD_eq_getElem?_getD]
  rw [List.getElem?_append_left hi, List.getElem?_eq_getElem hi]
  simp

/-- **converse of the scan invariant**: the shape `p ++ x :: (d1 ++ y :: d2)` with a strictly
descending tail, `d1 > y > x > d2`, pins down what the scan finds -/
theorem scan_of_decomp (p d1 d2 : List Nat) (x y : Nat)
    (hdesc : (d1 ++ y :: d2).Pairwise (· > ·)) (hB : y > x) (hC : ∀ b ∈ d2, b < x) :
    Perm.scan (p ++ x :: (d1 ++ y :: d2)) = some (p.length, p.length + 1 + d1.length) := by
  have hA : ∀ a ∈ d1, a > y := fun a ha => (List.pairwise_append.mp hdesc).2.2 a ha y (List.mem_cons_self ..)
  generalize hv : p ++ x :: (d1 ++ y :: d2) = v
  have hlen : v.length = p.length + 1 + d1.length + 1 + d2.length := by rw [← hv]; simp; omega
  have tl : (d1 ++ y :: d2).length = d1.length + 1 + d2.length := by simp; omega
  have hx : v.getD p.length 0 = x := by rw [← hv]; exact getD_at _ _ _
  have ht : ∀ i, v.getD (p.length + 1 + i) 0 = (d1 ++ y :: d2).getD i 0 := by
    intro i; rw [← hv]; exact getD_tail _ _ _ _
  -- the first tail entry is larger than x
  have hfirst : v.getD (p.length + 1) 0 > x := by
    have := ht 0
    rw [Nat.add_zero] at this
    rw [this]
    cases d1 with
    | nil => simp [List.getD_eq_getElem?_getD]; exact hB
    | cons a d1' =>
      have := hA a (by simp)
      simp [List.getD_eq_getElem?_getD]; omega
  have inv := scan_inv v (v.length - 1)
  unfold Perm.scan
  cases hs : (List.range (v.length - 1)).foldl (Perm.scanStep v) none with
  | none =>
    rw [hs] at inv
    have := inv p.length (by omega)
    rw [hx] at this
    omega
  | some pr =>
    obtain ⟨inc, linc⟩ := pr
    rw [hs] at inv
    obtain ⟨h1, h2, h3, h4, h5, h6, h7⟩ := inv
    have hinc : inc = p.length := by
      rcases Nat.lt_trichotomy inc p.length with hlt | heq | hgt
      · have := h3 p.length hlt (by omega)
        rw [hx] at this; omega
      · exact heq
      · exfalso
        obtain ⟨i, hi⟩ : ∃ i, inc = p.length + 1 + i := ⟨inc - p.length - 1, by omega⟩
        rw [hi, ht i, show p.length + 1 + i + 1 = p.length + 1 + (i + 1) by omega, ht (i + 1)] at h2
        have := desc_getD _ hdesc i (i + 1) (by omega) (by omega)
        omega
    subst hinc
    rw [hx] at h6 h7
    have hlinc : linc = p.length + 1 + d1.length := by
      obtain ⟨j, hj⟩ : ∃ j, linc = p.length + 1 + j := ⟨linc - p.length - 1, by omega⟩
      rw [hj, ht j] at h6
      rcases Nat.lt_trichotomy j d1.length with hlt | heq | hgt
      · exfalso
        have := h7 (p.length + 1 + d1.length) (by omega) (by omega)
        rw [ht d1.length, mid_getD] at this
        omega
      · omega
      · exfalso
        have := hC _ (right_getD d1 y d2 j hgt (by omega))
        omega
    rw [hlinc]

end Noulith.C13Perm
