/-
C01 helper lemmas, part 5: contracts of the leaf actions (assignment, consume, pop, remove) and of the
non-walking operations (`readPath`, `appendOp`).
-/
import NoulithModel.Lemmas.HeapWalk

namespace Noulith.RcHeap
open Noulith.Store (Tree modPath pyIdx setφ takeφ popφ removeφ getPath LeafT dictSlot)

/-! ### heaps that differ only in the cost ledger -/

theorem rcOf_allocs_eq {h h' : Heap} (e : h'.allocs = h.allocs) (i : Nat) : rcOf h' i = rcOf h i := by
  simp [rcOf, e]
theorem payloadOf_allocs_eq {h h' : Heap} (e : h'.allocs = h.allocs) (i : Nat) : payloadOf h' i = payloadOf h i := by
  simp [payloadOf, e]
theorem keysOf_allocs_eq {h h' : Heap} (e : h'.allocs = h.allocs) (i : Nat) : keysOf h' i = keysOf h i := by
  simp [keysOf, e]
theorem pocc_allocs_eq {h h' : Heap} (e : h'.allocs = h.allocs) (i : Nat) : pocc i h' = pocc i h := by
  simp [pocc, e]
theorem PayloadExt.of_allocs_eq {h h' : Heap} (e : h'.allocs = h.allocs) : PayloadExt h h' :=
  ⟨by simp [e], fun i _ => payloadOf_allocs_eq e i, fun i _ => keysOf_allocs_eq e i⟩
theorem Inv.of_allocs_eq {h h' : Heap} (e : h'.allocs = h.allocs) {T : List Val} (i : Inv h T) : Inv h' T :=
  fun k => by rw [pocc_allocs_eq e, rcOf_allocs_eq e]; exact i k

theorem Tr.ledger {h h1 h' : Heap} {o F : List Val} (a : Tr h h1 o F) (e : h'.allocs = h1.allocs) : Tr h h' o F :=
  ⟨a.inv.of_allocs_eq e, a.stable.trans ((PayloadExt.of_allocs_eq e).stable F),
   fun k hp hle => by rw [rcOf_allocs_eq e]; exact a.tight k hp hle⟩

/-! ### replacing the payload of a uniquely owned allocation -/

theorem replace_payload {m : Heap} {id1 : Nat} {ins outs F : List Val} (p' : List Val)
    (i : Inv m (.ref id1 :: ins ++ F)) (rc1 : rcOf m id1 = 1)
    (hocc : ∀ k, occ k p' + occ k outs = occ k (payloadOf m id1) + occ k ins) :
    Tr m (setPayload m id1 p') (.ref id1 :: outs) F :=
  replace_alloc ⟨p', rcOf m id1, keysOf m id1⟩ rfl i rc1 hocc

theorem replace_entries {m : Heap} {id1 : Nat} {ins outs F : List Val} (p' : List Val) (ks : List Int)
    (i : Inv m (.ref id1 :: ins ++ F)) (rc1 : rcOf m id1 = 1)
    (hocc : ∀ k, occ k p' + occ k outs = occ k (payloadOf m id1) + occ k ins) :
    Tr m (setEntries m id1 p' ks) (.ref id1 :: outs) F :=
  replace_alloc ⟨p', rcOf m id1, some ks⟩ rfl i rc1 hocc

/-! ### leaf contracts -/

theorem setLeaf_spec (new : Val) (tn : Tree) : LeafSpec (setLeaf new).act [new] [tn] (setφ tn).act := by
  intro h c F t i _ rcap
  have t0 := drop_tr (h := h) (v := c) (F := new :: F) (i.congr (fun k => by simp [occ_cons, occ_append]))
  refine ⟨?_, rfl, ?_, Rep_null⟩
  · exact t0.to_outs (G := [new]) |>.outs_congr (fun k => by simp [setLeaf, occ_cons])
  · have : Rep h new tn := by simpa using rcap
    exact t0.stable.rep (.root (by simp [setLeaf])) this

theorem setLeaf_ins (new : Val) (tn : Tree) : InsSpec (setLeaf new).ins (setφ tn).ins [new] [tn] := ⟨rfl, rfl⟩
theorem takeLeaf_ins : InsSpec takeLeaf.ins takeφ.ins [] [] := trivial
theorem popLeaf_ins : InsSpec popLeaf.ins popφ.ins [] [] := trivial
theorem removeLeaf_ins (i : Int) : InsSpec (removeLeaf i).ins (removeφ i).ins [] [] := trivial

theorem takeLeaf_spec : LeafSpec takeLeaf.act [] [] takeφ.act := by
  intro h c F t i r _
  exact ⟨Tr.refl (i.congr (fun k => by simp [takeLeaf, occ_cons, occ_append])), rfl, Rep_null, r⟩

theorem mem_of_mem_dropLast {α : Type} {l : List α} {a : α} (h : a ∈ l.dropLast) : a ∈ l :=
  List.dropLast_subset l h

theorem mem_of_getLast? {α : Type} {l : List α} {a : α} (h : l.getLast? = some a) : a ∈ l :=
  List.mem_of_getLast? h

theorem popLeaf_spec : LeafSpec popLeaf.act [] [] popφ.act := by
  intro h c F t i r _
  cases c with
  | null =>
    have := Rep_null_inv r; subst this
    exact ⟨Tr.refl (i.congr (fun k => by simp [popLeaf, popAct, occ_cons, occ_append])), rfl, r, rfl⟩
  | int n =>
    have := Rep_int_inv r; subst this
    exact ⟨Tr.refl (i.congr (fun k => by simp [popLeaf, popAct, occ_cons, occ_append])), rfl, r, rfl⟩
  | ref id =>
    obtain ⟨hc, hl, hk, hw, a⟩ := Rep_ref_inv r
    cases t with
    | null => simp at hc
    | int n => simp at hc
    | dict ks vs =>
      simp only [Tree.keysT_dict] at hk
      have e : popLeaf.act h (.ref id) = ⟨h, .ref id, .null, false⟩ := by simp only [popLeaf, popAct, hk]
      rw [e]
      exact ⟨Tr.refl (i.congr (fun k => by simp [occ_cons, occ_append])), rfl, r, rfl⟩
    | list ts =>
      simp only [Tree.keysT_list, Tree.kids_list] at hk a
      have MS := makeMut_spec (h := h) (id := id) (F := F) (i.congr (fun k => by simp [occ_cons, occ_append]))
      have a0 : All2 (Rep (makeMut h id).1) (payloadOf (makeMut h id).1 (makeMut h id).2) ts := by
        rw [MS.pay]; exact All2.mono (fun _ _ _ r => r.ext MS.ext) a
      have hk0 : keysOf (makeMut h id).1 (makeMut h id).2 = none := by rw [MS.keys]; exact hk
      have i0 : Inv (makeMut h id).1 (.ref (makeMut h id).2 :: [] ++ F) := by simpa using MS.tr.inv
      obtain ⟨hz, _, hl0⟩ := unique_facts i0 MS.rc1
      cases hg : (payloadOf (makeMut h id).1 (makeMut h id).2).getLast? with
      | none =>
        have e : popLeaf.act h (.ref id) = ⟨(makeMut h id).1, .ref (makeMut h id).2, .null, false⟩ := by
          simp only [popLeaf, popAct, hk, hg]
        rw [e]
        have hs : ts.getLast? = none := All2.getLast?_none a0 hg
        simp only [popφ, Store.popAct, hs]
        exact ⟨MS.tr.outs_congr (fun k => by simp [occ_cons]), trivial, Rep_ref_list MS.lt hk0 a0, trivial⟩
      | some x =>
        have e : popLeaf.act h (.ref id) = ⟨setPayload (makeMut h id).1 (makeMut h id).2
            (payloadOf (makeMut h id).1 (makeMut h id).2).dropLast, .ref (makeMut h id).2, x, true⟩ := by
          simp only [popLeaf, popAct, hk, hg]
        rw [e]
        obtain ⟨y, hy, rxy⟩ := All2.getLast? a0 hg
        simp only [popφ, Store.popAct, hy]
        have R := replace_payload (ins := []) (outs := [x]) (F := F)
          (payloadOf (makeMut h id).1 (makeMut h id).2).dropLast i0 MS.rc1
          (fun k => by have := occ_dropLast_getLast k _ x hg; simp at this ⊢; omega)
        refine ⟨?_, trivial, ?_, ?_⟩
        · refine ⟨R.inv.congr (fun k => by simp [occ_cons, occ_append]), MS.tr.stable.trans R.stable, fun k hp hle => ?_⟩
          have e1 := MS.tr.tight k hp hle
          have := R.tight k (by omega) (by omega)
          omega
        · apply Rep_ref_list (by simpa using MS.lt) (by rw [keysOf_setPayload]; exact hk0)
          rw [payloadOf_setPayload]; simp only [hl0, and_true, if_true]
          exact All2.mono (fun s _ hs r => slot_write_rep _ hz r (ne_ref_of_pocc_zero hz (mem_of_mem_dropLast hs)))
            (All2.dropLast a0)
        · exact slot_write_rep _ hz rxy (ne_ref_of_pocc_zero hz (mem_of_getLast? hg))

theorem mem_of_mem_eraseIdx {α : Type} {l : List α} {a : α} {j : Nat} (h : a ∈ l.eraseIdx j) : a ∈ l :=
  List.mem_of_mem_eraseIdx h

theorem removeLeaf_spec (ix : Int) : LeafSpec (removeLeaf ix).act [] [] (removeφ ix).act := by
  intro h c F t i r _
  cases c with
  | null =>
    have := Rep_null_inv r; subst this
    exact ⟨Tr.refl (i.congr (fun k => by simp [removeLeaf, removeAct, occ_cons, occ_append])), rfl, r, rfl⟩
  | int n =>
    have := Rep_int_inv r; subst this
    exact ⟨Tr.refl (i.congr (fun k => by simp [removeLeaf, removeAct, occ_cons, occ_append])), rfl, r, rfl⟩
  | ref id =>
    obtain ⟨hc, hl, hk, hw, a⟩ := Rep_ref_inv r
    have MS := makeMut_spec (h := h) (id := id) (F := F) (i.congr (fun k => by simp [occ_cons, occ_append]))
    have i0 : Inv (makeMut h id).1 (.ref (makeMut h id).2 :: [] ++ F) := by simpa using MS.tr.inv
    obtain ⟨hz, _, hl0⟩ := unique_facts i0 MS.rc1
    cases t with
    | null => simp at hc
    | int n => simp at hc
    | list ts =>
      simp only [Tree.keysT_list, Tree.kids_list] at hk a
      have hlen : (payloadOf h id).length = ts.length := All2.length_eq a
      cases hp : pyIdx ts.length ix with
      | none =>
        have e : (removeLeaf ix).act h (.ref id) = ⟨h, .ref id, .null, false⟩ := by
          simp only [removeLeaf, removeAct, hk, hlen, pyIndex_eq_pyIdx, hp]
        rw [e]; simp only [removeφ, Store.removeAct, hp]
        exact ⟨Tr.refl (i.congr (fun k => by simp [occ_cons])), trivial, r, trivial⟩
      | some j =>
        have a0 : All2 (Rep (makeMut h id).1) (payloadOf (makeMut h id).1 (makeMut h id).2) ts := by
          rw [MS.pay]; exact All2.mono (fun _ _ _ r => r.ext MS.ext) a
        have hk0 : keysOf (makeMut h id).1 (makeMut h id).2 = none := by rw [MS.keys]; exact hk
        have hj : j < (payloadOf (makeMut h id).1 (makeMut h id).2).length := by
          rw [All2.length_eq a0]; exact pyIndex_lt (by rw [pyIndex_eq_pyIdx]; exact hp)
        have e : (removeLeaf ix).act h (.ref id) = ⟨setPayload (makeMut h id).1 (makeMut h id).2
            ((payloadOf (makeMut h id).1 (makeMut h id).2).eraseIdx j), .ref (makeMut h id).2,
            (payloadOf (makeMut h id).1 (makeMut h id).2).getD j .null, true⟩ := by
          simp only [removeLeaf, removeAct, hk, hlen, pyIndex_eq_pyIdx, hp]
        rw [e]; simp only [removeφ, Store.removeAct, hp]
        have R := replace_payload (ins := []) (outs := [(payloadOf (makeMut h id).1 (makeMut h id).2).getD j .null]) (F := F)
          ((payloadOf (makeMut h id).1 (makeMut h id).2).eraseIdx j) i0 MS.rc1
          (fun k => by have := occ_eraseIdx k _ j hj; simp at this ⊢; omega)
        refine ⟨?_, trivial, ?_, ?_⟩
        · refine ⟨R.inv.congr (fun k => by simp [occ_cons, occ_append]), MS.tr.stable.trans R.stable, fun k hp hle => ?_⟩
          have e1 := MS.tr.tight k hp hle
          have := R.tight k (by omega) (by omega)
          omega
        · apply Rep_ref_list (by simpa using MS.lt) (by rw [keysOf_setPayload]; exact hk0)
          rw [payloadOf_setPayload]; simp only [hl0, and_true, if_true]
          exact All2.mono (fun s _ hs r => slot_write_rep _ hz r (ne_ref_of_pocc_zero hz (mem_of_mem_eraseIdx hs)))
            (All2.eraseIdx j a0)
        · exact slot_write_rep _ hz (All2.getD j _ _ a0 hj) (ne_ref_of_pocc_zero hz (getD_mem _ hj))
    | dict ks vs =>
      simp only [Tree.keysT_dict, Tree.kids_dict] at hk a
      have a0 : All2 (Rep (makeMut h id).1) (payloadOf (makeMut h id).1 (makeMut h id).2) vs := by
        rw [MS.pay]; exact All2.mono (fun _ _ _ r => r.ext MS.ext) a
      have hk0 : keysOf (makeMut h id).1 (makeMut h id).2 = (Tree.dict ks vs).keysT := by
        rw [MS.keys]; exact hk
      have hlen0 : (payloadOf (makeMut h id).1 (makeMut h id).2).length = (Tree.dict ks vs).kids.length :=
        All2.length_eq a0
      have hslot := slotOf_eq_treeSlot hk0 hlen0 ix
      simp only [treeSlot, Tree.keysT_dict, Tree.kids_dict] at hslot
      cases hp : dictSlot ks vs.length ix with
      | none =>
        have e : (removeLeaf ix).act h (.ref id) = ⟨(makeMut h id).1, .ref (makeMut h id).2, .null, false⟩ := by
          simp only [removeLeaf, removeAct, hk, hslot, hp]
        rw [e]; simp only [removeφ, Store.removeAct, hp]
        exact ⟨MS.tr.outs_congr (fun k => by simp [occ_cons]), trivial,
          Rep_ref_dict MS.lt (by simpa using hk0) (by simpa [Tree.kids] using hw ks rfl) a0, trivial⟩
      | some j =>
        have hj : j < (payloadOf (makeMut h id).1 (makeMut h id).2).length :=
          slotOf_lt (by rw [hslot]; exact hp)
        have e : (removeLeaf ix).act h (.ref id) = ⟨setEntries (makeMut h id).1 (makeMut h id).2
            ((payloadOf (makeMut h id).1 (makeMut h id).2).eraseIdx j) (ks.eraseIdx j), .ref (makeMut h id).2,
            (payloadOf (makeMut h id).1 (makeMut h id).2).getD j .null, true⟩ := by
          simp only [removeLeaf, removeAct, hk, hslot, hp]
        rw [e]; simp only [removeφ, Store.removeAct, hp]
        have R := replace_entries (ins := []) (outs := [(payloadOf (makeMut h id).1 (makeMut h id).2).getD j .null]) (F := F)
          ((payloadOf (makeMut h id).1 (makeMut h id).2).eraseIdx j) (ks.eraseIdx j) i0 MS.rc1
          (fun k => by have := occ_eraseIdx k _ j hj; simp at this ⊢; omega)
        refine ⟨?_, trivial, ?_, ?_⟩
        · refine ⟨R.inv.congr (fun k => by simp [occ_cons, occ_append]), MS.tr.stable.trans R.stable, fun k hp hle => ?_⟩
          have e1 := MS.tr.tight k hp hle
          have := R.tight k (by omega) (by omega)
          omega
        · have hwl : ks.length = vs.length := by simpa [Tree.kids] using hw ks rfl
          apply Rep_ref_dict (h := setEntries _ _ _ _) (by simpa using MS.lt)
            (by rw [keysOf_setEntries]; simp [hl0]) (by simp [List.length_eraseIdx, hwl])
          rw [payloadOf_setEntries]; simp only [hl0, and_true, if_true]
          exact All2.mono (fun s _ hs r => frame_rep _ hz r (ne_ref_of_pocc_zero hz (mem_of_mem_eraseIdx hs)))
            (All2.eraseIdx j a0)
        · exact frame_rep _ hz (All2.getD j _ _ a0 hj) (ne_ref_of_pocc_zero hz (getD_mem _ hj))

end Noulith.RcHeap
