/-
Helper lemmas for C15 (parser termination): the weight `W` of a token list (a format-string token
carries twice its body length, every other token 1) and `W (lex cs) ≤ 2 * cs.length`.
-/
import NoulithModel.Impl.Lex
import NoulithModel.Spec.Literal
namespace Noulith.C15
open Noulith Noulith.Lex Noulith.LitSpec

/-- weight of a token for the parser's fuel: a format string carries its body (which is lexed and
parsed recursively), every other token counts 1 -/
def tw : Token → Nat
  | .formatString s => 2 * s.length + 2
  | _ => 1

/-- weight of a token list -/
def W : List Token → Nat
  | [] => 0
  | t :: ts => tw t + W ts

theorem tw_eq_one (t : Token) (h : ∀ s, t ≠ .formatString s) : tw t = 1 := by
  cases t <;> simp_all [tw]
theorem tw_pos (t : Token) : 1 ≤ tw t := by cases t <;> simp [tw]
@[simp] theorem W_nil : W [] = 0 := rfl
@[simp] theorem W_cons (t : Token) (ts : List Token) : W (t :: ts) = tw t + W ts := rfl
theorem W_append (a b : List Token) : W (a ++ b) = W a + W b := by
  induction a with
  | nil => simp
  | cons t a ih => simp [ih]; omega

/-- length bookkeeping of the string lexer: every decoded character and every character left comes
from a distinct input character -/
theorem lexStr_acc_rest_le (e : Char) (cs : List Char) :
    (lexStr e cs).acc.length + (lexStr e cs).rest.length ≤ cs.length := by
  fun_induction lexStr e cs <;> simp_all [strFail, StrRes.push] <;> (try omega)
  case case16 cs1 c2 cs3 hafter _ _ _ ih =>
    have h := uAfter_length cs1; rw [hafter] at h; simp at h; omega
  case case17 cs1 c2 cs3 hafter _ _ _ =>
    have h := uAfter_length cs1; rw [hafter] at h; simp at h; omega
  case case18 cs1 _ _ c2 cs3 hafter _ _ =>
    have h := uAfter_length cs1; rw [hafter] at h; simp at h; omega
  case case19 cs1 _ _ _ ih => have h := uAfter_length cs1; omega
  case case20 cs1 _ _ _ => have h := uAfter_length cs1; omega


/-- weight bookkeeping of one lexer step on input `c :: cs` (`k = cs.length`): the tokens emitted
weigh at most twice the characters consumed -/
def SW (s : Step) (k : Nat) : Prop := W s.toks + 2 * s.rest.length ≤ 2 * k + 2

theorem tw_emitFloat (a : List Char) : tw (emitFloat a) = 1 := by unfold emitFloat; split <;> rfl
theorem tw_emitImag (a : List Char) : tw (emitImag a) = 1 := by unfold emitImag; split <;> rfl
theorem tw_intLitTok (a : List Char) : tw (intLitTok a) = 1 := by unfold intLitTok; split <;> rfl
theorem tw_ratLitTok (a : List Char) : tw (ratLitTok a) = 1 := by unfold ratLitTok; split <;> rfl
theorem tw_keyword (s : String) (t : Token) (h : keyword s = some t) : tw t = 1 := by
  unfold keyword at h
  split at h <;> simp at h <;> subst h <;> rfl

theorem W_pre (e : Char) (cs : List Char) : W (lexStr e cs).pre ≤ 1 := by
  fun_induction lexStr e cs <;> simp_all [strFail, tw]

theorem SW_mono (s : Step) (k k' : Nat) (h : SW s k) (hk : k ≤ k') : SW s k' := by
  unfold SW at *; omega

theorem lexBaseTok_SW (r : Nat) (cs : List Char) : SW (lexBaseTok r cs) cs.length := by
  unfold lexBaseTok SW lexBase
  split
  · have := length_dropWhile_le (fun c => (toDigit c r).isSome) cs
    simp [tw_eq_one]; omega
  · simp [tw_eq_one]; omega

theorem lexExponent_SW (acc cs : List Char) : SW (lexExponent acc cs) cs.length := by
  unfold lexExponent SW
  split
  · rename_i r
    have := length_dropWhile_le isDigit10 r
    simp [tw_emitFloat]; omega
  · have := length_dropWhile_le isDigit10 cs
    simp [tw_emitFloat]; omega

theorem lexAfterFraction_SW (acc cs : List Char) : SW (lexAfterFraction acc cs) cs.length := by
  unfold lexAfterFraction
  split
  · simp [SW, tw_emitFloat]
  · rename_i d cs4
    repeat' split
    all_goals first
      | exact SW_mono _ _ _ (lexExponent_SW _ _) (by simp)
      | (simp [SW, tw_emitFloat, tw_emitImag]; try omega)

theorem lexAfterInt_SW (acc : List Char) (d : Char) (cs2 : List Char) :
    SW (lexAfterInt acc d cs2) (cs2.length + 1) := by
  unfold lexAfterInt
  repeat' split
  all_goals first
    | exact SW_mono _ _ _ (lexExponent_SW _ _) (by simp)
    | exact SW_mono _ _ _ (lexBaseTok_SW _ _) (by simp)
    | (have := length_dropWhile_le (fun c => (b64Digit c).isSome) cs2
       simp [SW, lexBase64, tw_eq_one, tw_emitFloat, tw_emitImag, tw_intLitTok, tw_ratLitTok]; try omega)

theorem lexNumber_SW (c : Char) (cs : List Char) : SW (lexNumber c cs) cs.length := by
  have hd := length_dropWhile_le isDigit10 cs
  unfold lexNumber
  split
  · rename_i cs2 h
    rw [h] at hd
    have h2 := length_dropWhile_le isDigit10 cs2
    simp at hd
    exact SW_mono _ _ _ (lexAfterFraction_SW _ _) (by omega)
  · simp [SW, tw_intLitTok]
  · rename_i d cs2 _ h
    rw [h] at hd
    simp at hd
    exact SW_mono _ _ _ (lexAfterInt_SW _ _ _) (by omega)


theorem lexRaw_length (d : Char) (cs s rest : List Char) (h : lexRaw d cs = some (s, rest)) :
    rest.length ≤ cs.length := (lexRaw_suffix d cs s rest h).length_le

theorem lexIdentTail_SW (acc cs1 : List Char) : SW (lexIdentTail acc cs1) cs1.length := by
  unfold lexIdentTail
  repeat' split
  all_goals first
    | (rename_i d cs2 _
       have h1 := W_pre d cs2
       have h2 := lexStr_acc_rest_le d cs2
       simp [SW, W_append, tw_eq_one, tw] at *
       omega)
    | (rename_i h
       have := lexRaw_length _ _ _ _ h
       simp [SW, tw_eq_one] at *
       omega)
    | (rename_i h
       simp [SW, tw_keyword _ _ h]; omega)
    | (simp [SW, tw_eq_one]; try omega)

theorem identSplit_length (c : Char) (cs : List Char) : (identSplit c cs).2.length ≤ cs.length :=
  (identSplit_suffix c cs).length_le

theorem lexIdent_SW (c : Char) (cs : List Char) : SW (lexIdent c cs) cs.length :=
  SW_mono _ _ _ (lexIdentTail_SW _ _) (identSplit_length c cs)

theorem lexOp_SW (c : Char) (cs : List Char) : SW (lexOp c cs) cs.length := by
  have := length_dropWhile_le isOpSym cs
  unfold lexOp
  simp only
  repeat' split
  all_goals (simp [SW, tw_eq_one]; omega)

theorem lexComment_SW (cs : List Char) : SW (lexComment cs) cs.length := by
  unfold lexComment
  split
  · simp [SW, tw_eq_one]
  · rename_i c cs1
    split
    · simp [SW, tw_eq_one]; omega
    · split
      · split
        · rename_i acc rest h
          have := (lexRangeComment_suffix _ _ _ _ h).length_le
          simp [SW, tw_eq_one]; omega
        · simp [SW, tw_eq_one]
      · have := length_dropWhile_le (· ≠ '\n') cs1
        simp [SW, tw_eq_one] at *; omega

theorem lexOther_SW (c : Char) (cs : List Char) : SW (lexOther c cs) cs.length := by
  unfold lexOther
  repeat' split
  all_goals first
    | exact lexNumber_SW _ _
    | exact lexIdent_SW _ _
    | exact lexOp_SW _ _
    | (simp [SW, tw_eq_one]; try omega)

theorem lexStep_SW (c : Char) (cs : List Char) : SW (lexStep c cs) cs.length := by
  unfold lexStep
  split
  all_goals (try split)
  all_goals first
    | exact lexComment_SW _
    | exact lexOther_SW _ _
    | (have h1 := W_pre '\'' cs
       have h2 := lexStr_acc_rest_le '\'' cs
       simp [SW, W_append, tw_eq_one] at *
       omega)
    | (have h1 := W_pre '"' cs
       have h2 := lexStr_acc_rest_le '"' cs
       simp [SW, W_append, tw_eq_one] at *
       omega)
    | (simp [SW, tw_eq_one]; try omega)

/-- **the token stream weighs at most twice the source length** (format-string bodies included) -/
theorem W_lex_le (cs : List Char) : W (lex cs) ≤ 2 * cs.length := by
  fun_induction lex cs with
  | case1 => simp
  | case2 c cs h => have := lexStep_SW c cs; simp [SW] at *; omega
  | case3 c cs h ih =>
    have h1 := lexStep_SW c cs
    simp [SW, W_append] at *
    omega

theorem W_filter_le (p : Token → Bool) (ts : List Token) : W (ts.filter p) ≤ W ts := by
  induction ts with
  | nil => simp
  | cons t ts ih => simp only [List.filter_cons]; split <;> simp <;> omega

theorem W_stripComments_le (ts : List Token) : W (stripComments ts).1 ≤ W ts := W_filter_le _ ts

end Noulith.C15
