/-
Shared by C11 and C13 — lexicographic enumeration of permutations and the factorial number system.
Core Lean only, no project imports.

* `picks` / `permsN`: the closed form "choose the first element (positions left to right), then
  permute the others" — textually the definitions of `SeqSpec.picks` / `SeqSpec.permsN`.
* `rk`: rank from the end in the factorial number system (`above x xs · |xs|! + rk xs`).
* `rk_inj`: on permutations of one set without repetition the rank determines the list.
* `permsN_map_rk`: for an ascending `l`, the ranks along `permsN l.length l` are `n!−1, …, 1, 0`.
* `eq_permsN_of_rk`: hence any list of permutations of `l` whose ranks are `n!−1, …, 0` *is*
  `permsN l.length l` — an iterator whose successor lowers the rank by one enumerates exactly the
  closed form, in that order.
-/
namespace Noulith.PermLex

variable {α β : Type}

/-- every way to pick one element out of a list: (the element, the others in order) -/
def picks : List α → List (α × List α)
  | [] => []
  | x :: xs => (x, xs) :: (picks xs).map fun p => (p.1, x :: p.2)

/-- all orderings in lexicographic index order (`n` = length, for structural recursion) -/
def permsN : Nat → List α → List (List α)
  | 0, _ => [[]]
  | n + 1, xs => (picks xs).flatMap fun p => (permsN n p.2).map (p.1 :: ·)

def fact : Nat → Nat
  | 0 => 1
  | n + 1 => (n + 1) * fact n

/-- number of entries of `l` larger than `x` -/
def above (x : Nat) (l : List Nat) : Nat := (l.filter fun y => decide (y > x)).length

/-- rank from the end in the factorial number system -/
def rk : List Nat → Nat
  | [] => 0
  | x :: xs => above x xs * fact xs.length + rk xs

theorem flatMap_congr' {γ δ : Type} {l : List γ} {f g : γ → List δ} (h : ∀ a ∈ l, f a = g a) :
    l.flatMap f = l.flatMap g := by
  induction l with
  | nil => rfl
  | cons a l ih =>
    rw [List.flatMap_cons, List.flatMap_cons, h a (by simp), ih (fun b hb => h b (by simp [hb]))]

/-! ### picks / permsN produce permutations -/

theorem picks_perm (l : List α) : ∀ p ∈ picks l, (p.1 :: p.2).Perm l := by
  induction l with
  | nil => intro p hp; simp [picks] at hp
  | cons x xs ih =>
    intro p hp
    simp only [picks, List.mem_cons, List.mem_map] at hp
    rcases hp with rfl | ⟨q, hq, rfl⟩
    · exact List.Perm.refl _
    · exact (List.Perm.swap x q.1 q.2).trans ((ih q hq).cons x)

theorem picks_length (l : List α) : ∀ p ∈ picks l, p.2.length + 1 = l.length := by
  intro p hp
  have := (picks_perm l p hp).length_eq
  simpa using this

theorem permsN_perm : ∀ (n : Nat) (l : List α), l.length = n → ∀ q ∈ permsN n l, q.Perm l := by
  intro n
  induction n with
  | zero =>
    intro l hl q hq
    have : l = [] := List.eq_nil_of_length_eq_zero hl
    subst this
    simp [permsN] at hq
    subst hq
    exact List.Perm.refl _
  | succ n ih =>
    intro l hl q hq
    simp only [permsN, List.mem_flatMap, List.mem_map] at hq
    obtain ⟨p, hp, r, hr, rfl⟩ := hq
    have hlen := picks_length l p hp
    exact ((ih p.2 (by omega) r hr).cons p.1).trans (picks_perm l p hp)

/-! ### the rank -/

theorem fact_pos (n : Nat) : 0 < fact n := by
  induction n with
  | zero => decide
  | succ n ih => simp only [fact]; exact Nat.mul_pos (by omega) ih

theorem above_le (x : Nat) (l : List Nat) : above x l ≤ l.length := List.length_filter_le _ _

theorem above_perm (x : Nat) {l1 l2 : List Nat} (h : l1.Perm l2) : above x l1 = above x l2 :=
  (h.filter _).length_eq

theorem above_cons (x a : Nat) (l : List Nat) :
    above x (a :: l) = (if a > x then 1 else 0) + above x l := by
  unfold above
  by_cases h : a > x <;> simp [h] <;> omega

theorem rk_lt_fact (l : List Nat) : rk l + 1 ≤ fact l.length := by
  induction l with
  | nil => decide
  | cons x xs ih =>
    simp only [rk, List.length_cons, fact]
    have h1 : above x xs * fact xs.length ≤ xs.length * fact xs.length :=
      Nat.mul_le_mul_right _ (above_le x xs)
    rw [Nat.add_mul, Nat.one_mul]
    omega

theorem above_mono {x y : Nat} (h : x ≤ y) (l : List Nat) : above y l ≤ above x l := by
  induction l with
  | nil => simp [above]
  | cons a l ih =>
    rw [above_cons, above_cons]
    by_cases h1 : a > y
    · have : a > x := by omega
      simp [h1, this]; omega
    · simp only [h1, if_false]
      split <;> omega

theorem above_strict {x y : Nat} (h : x < y) (l : List Nat) (hy : y ∈ l) : above y l < above x l := by
  induction l with
  | nil => simp at hy
  | cons a l ih =>
    rw [above_cons, above_cons]
    rcases List.mem_cons.mp hy with rfl | hy
    · have := above_mono (Nat.le_of_lt h) l
      simp [h]; omega
    · have := ih hy
      by_cases h1 : a > y
      · have : a > x := by omega
        simp [h1, this]; omega
      · simp only [h1, if_false]
        split <;> omega

/-- in one list, the number of larger entries identifies an entry -/
theorem above_inj {x y : Nat} (l : List Nat) (hx : x ∈ l) (hy : y ∈ l) (h : above x l = above y l) :
    x = y := by
  rcases Nat.lt_trichotomy x y with hlt | heq | hgt
  · have := above_strict hlt l hy; omega
  · exact heq
  · have := above_strict hgt l hx; omega

theorem divmod_unique {a a' r r' f : Nat} (hr : r < f) (hr' : r' < f)
    (h : a * f + r = a' * f + r') : a = a' ∧ r = r' := by
  rcases Nat.lt_trichotomy a a' with hlt | heq | hgt
  · have : (a + 1) * f ≤ a' * f := Nat.mul_le_mul_right _ hlt
    rw [Nat.add_mul, Nat.one_mul] at this
    omega
  · subst heq; exact ⟨rfl, by omega⟩
  · have : (a' + 1) * f ≤ a * f := Nat.mul_le_mul_right _ hgt
    rw [Nat.add_mul, Nat.one_mul] at this
    omega

/-- **the rank is injective on the permutations of a set** -/
theorem rk_inj : ∀ (n : Nat) (l1 l2 : List Nat), l1.length = n → l1.Perm l2 → l1.Nodup →
    rk l1 = rk l2 → l1 = l2 := by
  intro n
  induction n with
  | zero =>
    intro l1 l2 h1 hp _ _
    have e1 : l1 = [] := List.eq_nil_of_length_eq_zero h1
    subst e1
    exact (List.Perm.nil_eq hp)
  | succ n ih =>
    intro l1 l2 h1 hp hnd hrk
    cases l1 with
    | nil => simp at h1
    | cons x xs =>
      cases l2 with
      | nil => exact absurd hp.length_eq (by simp)
      | cons y ys =>
        have hlen : ys.length = xs.length := by
          have := hp.length_eq; simp at this; omega
        simp only [rk, hlen] at hrk
        have b1 := rk_lt_fact xs
        have b2 := rk_lt_fact ys
        rw [hlen] at b2
        obtain ⟨ha, hr⟩ := divmod_unique (by omega) (by omega) hrk
        -- the heads agree
        have hax : above x (x :: xs) = above x xs := by rw [above_cons]; simp
        have hay : above y (y :: ys) = above y ys := by rw [above_cons]; simp
        have hxy : x = y := by
          apply above_inj (y :: ys) (hp.subset (by simp)) (by simp)
          rw [← above_perm x hp, hax, hay, ha]
        subst hxy
        have hp' : xs.Perm ys := hp.cons_inv
        rw [List.nodup_cons] at hnd
        rw [ih xs ys (by simpa using h1) hp' hnd.2 hr]

/-! ### the ranks along the closed form -/

theorem range_reverse_flatMap (f : Nat) : ∀ m,
    ((List.range m).reverse.flatMap fun c => (List.range f).reverse.map (· + c * f)) =
      (List.range (m * f)).reverse := by
  intro m
  induction m with
  | zero => simp
  | succ m ih =>
    rw [List.range_succ, List.reverse_append, List.reverse_singleton, List.singleton_append,
      List.flatMap_cons, ih]
    have : (m + 1) * f = m * f + f := by rw [Nat.add_mul, Nat.one_mul]
    rw [this, List.range_add, List.reverse_append]
    congr 1
    rw [← List.map_reverse]
    apply List.map_congr_left
    intro a _
    omega

/-- along `picks` of an ascending list the numbers of larger remaining entries are `n−1, …, 0` -/
theorem picks_above (l : List Nat) (h : l.Pairwise (· < ·)) :
    (picks l).map (fun p => above p.1 p.2) = (List.range l.length).reverse := by
  induction l with
  | nil => rfl
  | cons x xs ih =>
    rw [List.pairwise_cons] at h
    have h0 : above x xs = xs.length := by
      unfold above
      rw [List.filter_eq_self.mpr]
      intro a ha
      simpa using h.1 a ha
    simp only [picks, List.map_cons, List.map_map, List.length_cons, List.range_succ,
      List.reverse_append, List.reverse_singleton, List.singleton_append, h0]
    congr 1
    rw [← ih h.2]
    apply List.map_congr_left
    intro p hp
    simp only [Function.comp]
    have hmem : p.1 ∈ xs := (picks_perm xs p hp).subset (by simp)
    have := h.1 p.1 hmem
    rw [above_cons]
    have : ¬ x > p.1 := by omega
    simp [this]

theorem picks_sorted (l : List Nat) (h : l.Pairwise (· < ·)) : ∀ p ∈ picks l, p.2.Pairwise (· < ·) := by
  induction l with
  | nil => intro p hp; simp [picks] at hp
  | cons x xs ih =>
    intro p hp
    rw [List.pairwise_cons] at h
    simp only [picks, List.mem_cons, List.mem_map] at hp
    rcases hp with rfl | ⟨q, hq, rfl⟩
    · exact h.2
    · rw [List.pairwise_cons]
      refine ⟨?_, ih h.2 q hq⟩
      intro a ha
      exact h.1 a ((picks_perm xs q hq).subset (List.mem_cons_of_mem _ ha))

/-- **ranks along the closed form**: for an ascending list, `n!−1, …, 1, 0` -/
theorem permsN_map_rk : ∀ (n : Nat) (l : List Nat), l.length = n → l.Pairwise (· < ·) →
    (permsN n l).map rk = (List.range (fact n)).reverse := by
  intro n
  induction n with
  | zero => intro l _ _; rfl
  | succ n ih =>
    intro l hl hs
    have key : (permsN (n + 1) l).map rk =
        ((picks l).map fun p => above p.1 p.2).flatMap
          fun c => (List.range (fact n)).reverse.map (· + c * fact n) := by
      simp only [permsN, List.map_flatMap, List.map_map, List.flatMap_map]
      apply flatMap_congr'
      intro p hp
      have hlen := picks_length l p hp
      have hps := picks_sorted l hs p hp
      rw [← ih p.2 (by omega) hps, List.map_map]
      apply List.map_congr_left
      intro q hq
      have hperm := permsN_perm n p.2 (by omega) q hq
      simp only [Function.comp, rk, above_perm p.1 hperm, hperm.length_eq]
      have : p.2.length = n := by omega
      rw [this]
      omega
    rw [key, picks_above l hs, hl, range_reverse_flatMap]
    rfl

/-- lists of permutations of one set with the same ranks are equal -/
theorem lists_eq_of_rk (S : List Nat) (hS : S.Nodup) : ∀ (M L : List (List Nat)),
    (∀ m ∈ M, m.Perm S) → (∀ l ∈ L, l.Perm S) → M.map rk = L.map rk → M = L := by
  intro M
  induction M with
  | nil => intro L _ _ h; cases L with
    | nil => rfl
    | cons _ _ => simp at h
  | cons m M ih =>
    intro L hM hL h
    cases L with
    | nil => simp at h
    | cons l L =>
      simp only [List.map_cons, List.cons.injEq] at h
      have pm := hM m (by simp)
      have pl := hL l (by simp)
      have e : m = l := rk_inj m.length m l rfl (pm.trans pl.symm) (pm.nodup_iff.mpr hS) h.1
      subst e
      rw [ih L (fun x hx => hM x (by simp [hx])) (fun x hx => hL x (by simp [hx])) h.2]

/-- **uniqueness of the enumeration**: a list of permutations of the ascending list `l` whose ranks
are `n!−1, …, 0` is the lexicographic closed form -/
theorem eq_permsN_of_rk (l : List Nat) (hl : l.Pairwise (· < ·)) (M : List (List Nat))
    (hM : ∀ m ∈ M, m.Perm l) (hrk : M.map rk = (List.range (fact l.length)).reverse) :
    M = permsN l.length l := by
  have hnd : l.Nodup := hl.imp (fun h => Nat.ne_of_lt h)
  apply lists_eq_of_rk l hnd M _ hM (permsN_perm l.length l rfl)
  rw [hrk, permsN_map_rk l.length l rfl hl]

/-! ### naturality: the closed form commutes with mapping the elements -/

theorem picks_map (f : α → β) (l : List α) :
    picks (l.map f) = (picks l).map fun p => (f p.1, p.2.map f) := by
  induction l with
  | nil => rfl
  | cons x xs ih => simp [picks, ih, List.map_map, Function.comp_def]

theorem permsN_map (f : α → β) : ∀ (n : Nat) (l : List α),
    permsN n (l.map f) = (permsN n l).map (List.map f) := by
  intro n
  induction n with
  | zero => intro l; rfl
  | succ n ih =>
    intro l
    simp only [permsN, picks_map, List.flatMap_map, List.map_flatMap, List.map_map]
    apply flatMap_congr'
    intro p _
    rw [ih]
    simp [List.map_map, Function.comp_def]

end Noulith.PermLex
