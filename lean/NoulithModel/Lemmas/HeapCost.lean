/-
C02 helper lemmas: what each heap operation does to the cost ledger (`copied`), and path uniqueness
(`PathUniq`: strong count 1 at every level of an index path).
-/
import NoulithModel.Lemmas.HeapRefine2

namespace Noulith.RcHeap
open Noulith.Store (Tree modPath pyIdx setφ takeφ popφ removeφ getPath setPath)

/-! ### the ledger under the primitive operations -/

theorem foldl_copied {f : Heap → Val → Heap} (hf : ∀ h v, (f h v).copied = h.copied) :
    ∀ (p : List Val) (h : Heap), (p.foldl f h).copied = h.copied := by
  intro p
  induction p with
  | nil => intro h; rfl
  | cons v vs ih => intro h; simp only [List.foldl_cons]; rw [ih, hf]

theorem dropVal_copied : ∀ (f : Nat) (h : Heap) (v : Val), (dropVal f h v).copied = h.copied := by
  intro f
  induction f with
  | zero => intro h v; rfl
  | succ f ih =>
    intro h v
    cases v with
    | null => rfl
    | int n => rfl
    | ref id =>
      simp only [dropVal]
      split
      · rw [foldl_copied ih]; rfl
      · rfl

/-- dropping never copies -/
theorem drop_copied (h : Heap) (v : Val) : (drop h v).copied = h.copied := dropVal_copied _ h v

/-- `make_mut` copies the payload iff the allocation is shared -/
theorem makeMut_copied (h : Heap) (id : Nat) :
    (makeMut h id).1.copied = h.copied + (if rcOf h id ≤ 1 then 0 else (payloadOf h id).length) := by
  unfold makeMut
  split
  · simp
  · simp [bumpAll_copied]

theorem makeMut_of_unique {h : Heap} {id : Nat} (h1 : rcOf h id = 1) : makeMut h id = (h, id) := by
  simp [makeMut, h1]

/-! ### path uniqueness -/

/-- strong count 1 at every level the index path walks through (the levels `set_index` calls
`make_mut` on) -/
def PathUniq (h : Heap) : Val → List Int → Prop
  | _, [] => True
  | .ref id, i :: rest =>
    rcOf h id = 1 ∧ ∀ j, slotOf h id i = some j → PathUniq h ((payloadOf h id).getD j .null) rest
  | _, _ :: _ => True

/-- the value at the end of the path, if it is a list, is uniquely owned too (needed when the leaf
action itself calls `make_mut`: pop, remove, append) -/
def EndUniq (h : Heap) : Val → List Int → Prop
  | .ref id, [] => rcOf h id = 1
  | _, [] => True
  | .ref id, i :: rest =>
    ∀ j, slotOf h id i = some j → EndUniq h ((payloadOf h id).getD j .null) rest
  | _, _ :: _ => True

theorem slotOf_setAlloc_ne (h : Heap) {id id1 : Nat} (a : Alloc) (hne : ¬ id = id1) (i : Int) :
    slotOf (setAlloc h id1 a) id i = slotOf h id i := by
  unfold slotOf
  rw [keysOf_setAlloc, payloadOf_setAlloc]
  simp [hne]

theorem walkMissing_copied (leaf : Leaf) (h : Heap) (id : Nat) (i : Int) (rest : List Int) :
    (walkMissing leaf h id i rest).h.copied = h.copied := by
  unfold walkMissing
  split <;> rfl

theorem PathUniq_frame {h : Heap} {id1 : Nat} (a : Alloc) (hz : pocc id1 h = 0) (hrc : a.rc = rcOf h id1) :
    ∀ (path : List Int) (v : Val), v ≠ .ref id1 → PathUniq h v path → PathUniq (setAlloc h id1 a) v path := by
  intro path
  induction path with
  | nil => intro v _ _; cases v <;> trivial
  | cons i rest ih =>
    intro v hne pu
    cases v with
    | null => trivial
    | int n => trivial
    | ref id =>
      have hid : ¬ id = id1 := fun e => hne (by rw [e])
      simp only [PathUniq] at pu ⊢
      rw [rcOf_setAlloc, payloadOf_setAlloc]
      simp only [hid, false_and, if_false, slotOf_setAlloc_ne h a hid]
      refine ⟨pu.1, fun j hj => ih _ ?_ (pu.2 j hj)⟩
      exact ne_ref_of_pocc_zero hz (getD_mem _ (slotOf_lt hj))

theorem EndUniq_frame {h : Heap} {id1 : Nat} (a : Alloc) (hz : pocc id1 h = 0) (hrc : a.rc = rcOf h id1) :
    ∀ (path : List Int) (v : Val), v ≠ .ref id1 → EndUniq h v path → EndUniq (setAlloc h id1 a) v path := by
  intro path
  induction path with
  | nil =>
    intro v hne eu
    cases v with
    | null => trivial
    | int n => trivial
    | ref id =>
      have hid : ¬ id = id1 := fun e => hne (by rw [e])
      simp only [EndUniq] at eu ⊢
      rw [rcOf_setAlloc]; simp [hid, eu]
  | cons i rest ih =>
    intro v hne eu
    cases v with
    | null => trivial
    | int n => trivial
    | ref id =>
      have hid : ¬ id = id1 := fun e => hne (by rw [e])
      simp only [EndUniq] at eu ⊢
      rw [payloadOf_setAlloc]
      simp only [hid, false_and, if_false, slotOf_setAlloc_ne h a hid]
      exact fun j hj => ih _ (ne_ref_of_pocc_zero hz (getD_mem _ (slotOf_lt hj))) (eu j hj)

/-- a leaf action that copies nothing when the slot value it is given is uniquely owned -/
def LeafNoCopy (leaf : Leaf) : Prop :=
  ∀ (h : Heap) (c : Val), EndUniq h c [] → (leaf.act h c).h.copied = h.copied

theorem setLeaf_nocopy (new : Val) : LeafNoCopy (setLeaf new) := fun h c _ => drop_copied h c
theorem takeLeaf_nocopy : LeafNoCopy takeLeaf := fun _ _ _ => rfl

theorem popLeaf_nocopy : LeafNoCopy popLeaf := by
  intro h c eu
  cases c with
  | null => rfl
  | int n => rfl
  | ref id =>
    simp only [EndUniq] at eu
    simp only [popLeaf, popAct, makeMut_of_unique eu]
    split
    · rfl
    · split <;> rfl

theorem removeLeaf_nocopy (i : Int) : LeafNoCopy (removeLeaf i) := by
  intro h c eu
  cases c with
  | null => rfl
  | int n => rfl
  | ref id =>
    simp only [EndUniq] at eu
    simp only [removeLeaf, removeAct, makeMut_of_unique eu]
    split
    · split <;> rfl
    · split <;> rfl

/-- **in-place walk**: if every level of the path has strong count 1 (and the leaf action copies
nothing on a unique slot value), `set_index` / `modify_existing_index` copy nothing. -/
theorem walk_nocopy {leaf : Leaf} (L : LeafNoCopy leaf) :
    ∀ (path : List Int) (h : Heap) (v : Val) (T : List Val), Inv h (v :: T) →
      PathUniq h v path → EndUniq h v path → (walk leaf h v path).h.copied = h.copied := by
  intro path
  induction path with
  | nil => intro h v T _ _ eu; rw [walk_nil]; exact L h v eu
  | cons ix rest ih =>
    intro h v T i pu eu
    cases v with
    | null => rfl
    | int n => rfl
    | ref id =>
      simp only [PathUniq] at pu
      simp only [EndUniq] at eu
      rw [walk_ref_cons, makeMut_of_unique pu.1]
      dsimp only
      cases hp : slotOf h id ix with
      | none => exact walkMissing_copied _ _ _ _ _
      | some j =>
        dsimp only [walkStep]
        rw [setPayload_copied]
        obtain ⟨hz, _, hl⟩ := unique_facts i pu.1
        have hj := slotOf_lt hp
        have hcm : (payloadOf h id).getD j .null ∈ payloadOf h id := getD_mem _ hj
        have hcne : (payloadOf h id).getD j .null ≠ .ref id := ne_ref_of_pocc_zero hz hcm
        have i1 : Inv (setPayload h id ((payloadOf h id).set j .null))
            ((payloadOf h id).getD j .null :: (.ref id :: T)) := by
          have := slot_write_inv (v := .null) (T := T) (j := j) (i.congr (fun k => by simp [occ_cons])) pu.1 hj
          exact this.congr (fun k => by simp only [occ_cons]; omega)
        rw [ih _ _ _ i1 (PathUniq_frame _ hz rfl _ _ hcne (pu.2 j hp)) (EndUniq_frame _ hz rfl _ _ hcne (eu j hp))]
        rfl

/-- variant for leaf actions that never copy (plain assignment, consume): only the levels of the path
matter -/
theorem walk_nocopy' {leaf : Leaf} (L : ∀ h c, (leaf.act h c).h.copied = h.copied) :
    ∀ (path : List Int) (h : Heap) (v : Val) (T : List Val), Inv h (v :: T) →
      PathUniq h v path → (walk leaf h v path).h.copied = h.copied := by
  intro path
  induction path with
  | nil => intro h v T _ _; rw [walk_nil]; exact L h v
  | cons ix rest ih =>
    intro h v T i pu
    cases v with
    | null => rfl
    | int n => rfl
    | ref id =>
      simp only [PathUniq] at pu
      rw [walk_ref_cons, makeMut_of_unique pu.1]
      dsimp only
      cases hp : slotOf h id ix with
      | none => exact walkMissing_copied _ _ _ _ _
      | some j =>
        dsimp only [walkStep]
        rw [setPayload_copied]
        obtain ⟨hz, _, hl⟩ := unique_facts i pu.1
        have hj := slotOf_lt hp
        have hcm : (payloadOf h id).getD j .null ∈ payloadOf h id := getD_mem _ hj
        have hcne : (payloadOf h id).getD j .null ≠ .ref id := ne_ref_of_pocc_zero hz hcm
        have i1 : Inv (setPayload h id ((payloadOf h id).set j .null))
            ((payloadOf h id).getD j .null :: (.ref id :: T)) := by
          have := slot_write_inv (v := .null) (T := T) (j := j) (i.congr (fun k => by simp [occ_cons])) pu.1 hj
          exact this.congr (fun k => by simp only [occ_cons]; omega)
        rw [ih _ _ _ i1 (PathUniq_frame _ hz rfl _ _ hcne (pu.2 j hp))]
        rfl

theorem setIndex_nocopy {h : Heap} {v new : Val} {T : List Val} (path : List Int) (i : Inv h (v :: T))
    (pu : PathUniq h v path) : (setIndex h v path new).h.copied = h.copied := by
  have := walk_nocopy' (leaf := setLeaf new) (fun h c => drop_copied h c) path h v T i pu
  unfold setIndex
  dsimp only
  split
  · exact this
  · simp only [drop_copied]; exact this

/-- an operation run next to a frame that holds the only handle of an allocation leaves that
allocation alone: same count, same payload -/
theorem Tr.keeps_unique {h h' : Heap} {o F : List Val} (t : Tr h h' o F) {id : Nat} (hm : Val.ref id ∈ F)
    (h1 : rcOf h id = 1) : rcOf h' id = 1 ∧ payloadOf h' id = payloadOf h id := by
  have hp := occ_pos_of_mem hm
  refine ⟨by rw [t.tight id (by omega) (by omega)]; exact h1, ?_⟩
  exact t.stable.pay id (lt_of_rcOf_pos (by omega)) (.root hm)

theorem Tr.keeps_keys {h h' : Heap} {o F : List Val} (t : Tr h h' o F) {id : Nat} (hm : Val.ref id ∈ F)
    (h1 : rcOf h id = 1) : keysOf h' id = keysOf h id :=
  t.stable.keys id (lt_of_rcOf_pos (by omega)) (.root hm)

/-! ### the push counter: only `appendOp` pushes -/

@[simp] theorem setPayload_pushes (h : Heap) (id : Nat) (p : List Val) : (setPayload h id p).pushes = h.pushes := rfl
@[simp] theorem setRc_pushes (h : Heap) (id n : Nat) : (setRc h id n).pushes = h.pushes := rfl

theorem dup_pushes (h : Heap) (v : Val) : (dup h v).pushes = h.pushes := by cases v <;> rfl

theorem foldl_pushes {f : Heap → Val → Heap} (hf : ∀ h v, (f h v).pushes = h.pushes) :
    ∀ (p : List Val) (h : Heap), (p.foldl f h).pushes = h.pushes := by
  intro p
  induction p with
  | nil => intro h; rfl
  | cons v vs ih => intro h; simp only [List.foldl_cons]; rw [ih, hf]

theorem bumpAll_pushes (h : Heap) (p : List Val) : (bumpAll h p).pushes = h.pushes :=
  foldl_pushes dup_pushes p h

theorem dropVal_pushes : ∀ (f : Nat) (h : Heap) (v : Val), (dropVal f h v).pushes = h.pushes := by
  intro f
  induction f with
  | zero => intro h v; rfl
  | succ f ih =>
    intro h v
    cases v with
    | null => rfl
    | int n => rfl
    | ref id =>
      simp only [dropVal]
      split
      · rw [foldl_pushes ih]; rfl
      · rfl

theorem drop_pushes (h : Heap) (v : Val) : (drop h v).pushes = h.pushes := dropVal_pushes _ h v

theorem makeMut_pushes (h : Heap) (id : Nat) : (makeMut h id).1.pushes = h.pushes := by
  unfold makeMut
  split
  · rfl
  · simp [bumpAll_pushes]

@[simp] theorem setEntries_pushes (h : Heap) (id : Nat) (p : List Val) (ks : List Int) :
    (setEntries h id p ks).pushes = h.pushes := rfl

theorem walkMissing_pushes (leaf : Leaf) (h : Heap) (id : Nat) (i : Int) (rest : List Int) :
    (walkMissing leaf h id i rest).h.pushes = h.pushes := by
  unfold walkMissing
  split <;> rfl

theorem walk_pushes {leaf : Leaf} (L : ∀ h c, (leaf.act h c).h.pushes = h.pushes) :
    ∀ (path : List Int) (h : Heap) (v : Val), (walk leaf h v path).h.pushes = h.pushes := by
  intro path
  induction path with
  | nil => intro h v; rw [walk_nil]; exact L h v
  | cons ix rest ih =>
    intro h v
    cases v with
    | null => rfl
    | int n => rfl
    | ref id =>
      rw [walk_ref_cons]
      cases slotOf (makeMut h id).1 (makeMut h id).2 ix with
      | none => dsimp only; rw [walkMissing_pushes, makeMut_pushes]
      | some j =>
        dsimp only [walkStep]
        rw [setPayload_pushes, ih, setPayload_pushes, makeMut_pushes]

theorem setLeaf_pushes (new : Val) (h : Heap) (c : Val) : ((setLeaf new).act h c).h.pushes = h.pushes := drop_pushes h c
theorem takeLeaf_pushes (h : Heap) (c : Val) : (takeLeaf.act h c).h.pushes = h.pushes := rfl
theorem popLeaf_pushes (h : Heap) (c : Val) : (popLeaf.act h c).h.pushes = h.pushes := by
  cases c with
  | null => rfl
  | int n => rfl
  | ref id =>
    simp only [popLeaf, popAct]
    split
    · rfl
    · split
      · simp [makeMut_pushes]
      · exact makeMut_pushes h id
theorem removeLeaf_pushes (i : Int) (h : Heap) (c : Val) : ((removeLeaf i).act h c).h.pushes = h.pushes := by
  cases c with
  | null => rfl
  | int n => rfl
  | ref id =>
    simp only [removeLeaf, removeAct]
    split
    · split
      · rfl
      · simp [makeMut_pushes]
    · split
      · exact makeMut_pushes h id
      · simp [makeMut_pushes]

theorem setIndex_pushes (h : Heap) (v : Val) (path : List Int) (new : Val) :
    (setIndex h v path new).h.pushes = h.pushes := by
  have := walk_pushes (leaf := setLeaf new) (setLeaf_pushes new) path h v
  unfold setIndex
  dsimp only
  split
  · exact this
  · simp only [drop_pushes]; exact this

theorem readPath_pushes : ∀ (path : List Int) (h : Heap) (v : Val), (readPath h v path).1.pushes = h.pushes := by
  intro path
  induction path with
  | nil => intro h v; rw [readPath_nil]
  | cons ix rest ih =>
    intro h v
    cases v with
    | null => rfl
    | int n => rfl
    | ref id =>
      simp only [readPath]
      split
      · exact drop_pushes _ _
      · rw [ih, drop_pushes, dup_pushes]

theorem evalAtom_pushes (s : State) (h : Heap) (a : Atom) : (evalAtom s h a).1.pushes = h.pushes := by
  cases a with
  | null => rfl
  | int n => rfl
  | var x => exact dup_pushes _ _

theorem evalAtoms_pushes (s : State) : ∀ (as : List Atom) (h : Heap), (evalAtoms s h as).1.pushes = h.pushes := by
  intro as
  induction as with
  | nil => intro h; rfl
  | cons a as ih => intro h; simp only [evalAtoms]; rw [ih, evalAtom_pushes]

theorem evalRhs_pushes (s : State) (r : Rhs) : (evalRhs s r).1.pushes = s.h.pushes := by
  cases r with
  | atom a => exact evalAtom_pushes s s.h a
  | list as => simp only [evalRhs, alloc]; exact evalAtoms_pushes s as s.h
  | rep a n => simp only [evalRhs, alloc, drop_pushes, bumpAll_pushes]; exact evalAtom_pushes s s.h a
  | dict kvs => simp only [evalRhs, allocDict]; exact evalAtoms_pushes s _ s.h

theorem appendOp_pushes_le (h : Heap) (a b : Val) : (appendOp h a b).1.pushes ≤ h.pushes + 1 := by
  cases a with
  | null => simp [appendOp, drop_pushes]
  | int n => simp [appendOp, drop_pushes]
  | ref id =>
    cases hk : keysOf h id with
    | none => rw [appendOp_ref h id b hk]; simp [appendHeap, makeMut_pushes]
    | some ks => rw [appendOp_dict h id b hk]; simp [drop_pushes]

theorem appendFinish_pushes_le (s : State) (h : Heap) (x : Nat) (path : List Int) (l ev : Val) :
    (appendFinish s h x path l ev).1.h.pushes ≤ h.pushes + 1 := by
  simp only [appendFinish]
  split
  · split
    · simp only [withCell, setIndex_pushes]
      refine Nat.le_trans (appendOp_pushes_le _ _ _) ?_
      simp [setIndex_pushes]
    · refine Nat.le_trans (appendOp_pushes_le _ _ _) ?_
      simp [withCell, setIndex_pushes]
  · simp [withCell, drop_pushes, setIndex_pushes]

/-- a statement pushes at most one element -/
theorem step_pushes_le (s : State) (st : Stmt) : (step s st).1.h.pushes ≤ s.h.pushes + 1 := by
  cases st with
  | assign x r =>
    simp only [step]; split <;> simp [writeCell, drop_pushes, evalRhs_pushes]
  | setIdx x path r =>
    simp only [step]; split <;> simp [withCell, setIndex_pushes, drop_pushes, evalRhs_pushes]
  | append x path r =>
    simp only [step]
    split
    · split
      · simp [readPath_pushes, readVar, dup_pushes]
      · refine Nat.le_trans (appendFinish_pushes_le _ _ _ _ _ _) ?_
        simp [evalRhs_pushes, readPath_pushes, readVar, dup_pushes]
    · simp
  | appendPop x path y ypath =>
    simp only [step]
    split
    · split
      · simp [readPath_pushes, readVar, dup_pushes]
      · split
        · refine Nat.le_trans (appendFinish_pushes_le _ _ _ _ _ _) ?_
          simp [withCell, walk_pushes popLeaf_pushes, readPath_pushes, readVar, dup_pushes]
        · simp [withCell, drop_pushes, walk_pushes popLeaf_pushes, readPath_pushes, readVar, dup_pushes]
    · simp
  | pop y x path =>
    simp only [step]
    split
    · split <;> simp [withCell, writeCell, drop_pushes, walk_pushes popLeaf_pushes]
    · simp
  | remove y x path i =>
    simp only [step]
    split
    · split <;> simp [withCell, writeCell, drop_pushes, walk_pushes (removeLeaf_pushes i)]
    · simp
  | consume y x path =>
    simp only [step]
    split
    · split <;> simp [withCell, writeCell, drop_pushes, walk_pushes takeLeaf_pushes]
    · simp
  | swap x px y py =>
    simp only [step]
    split
    · split
      · simp [readPath_pushes, readVar, dup_pushes]
      · split
        · simp [drop_pushes, readPath_pushes, readVar, dup_pushes]
        · split <;> simp [withCell, drop_pushes, setIndex_pushes, readPath_pushes, readVar, dup_pushes]
    · simp
  | update y x i a =>
    simp only [step]
    split
    · split <;> simp [writeCell, drop_pushes, setIndex_pushes, evalAtom_pushes, readVar, dup_pushes]
    · simp
  | callAppend y x a =>
    simp only [step]
    split
    · split
      · simp only [writeCell, drop_pushes]
        refine Nat.le_trans (appendOp_pushes_le _ _ _) ?_
        simp [evalAtom_pushes, readVar, dup_pushes]
      · refine Nat.le_trans (appendOp_pushes_le _ _ _) ?_
        simp [evalAtom_pushes, readVar, dup_pushes]
    · simp

end Noulith.RcHeap
