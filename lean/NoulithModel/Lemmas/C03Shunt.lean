/-
C03 helper lemmas, part 1: the evaluator replayed on trees (`shunt`), its stack invariant
(`shunt` builds a `Valid` tree with the chain as yield) and the uniqueness of valid trees.

`shunt` is a proof device, not the Impl model and not the Spec: it is `ChainEvaluator` run on the
free interpretation where an entry remembers the partially built application node
(`Frame = node so far, arriving operator, merged?`).  Part 2 (C03Sim) proves that the Impl model
of `ChainEvaluator`, under ANY interpretation of the operators, computes the bottom-up value of the
tree `shunt` builds.
-/
import NoulithModel.Spec.ChainTree

namespace Noulith.Chain
open Tree

variable {F L : Type}

/-- a pending entry, on trees: the application node built so far is `plug · r` once the right
operand `r` is known -/
structure Frame (F L : Type) where
  l : Tree F L
  g : Op F
  isExt : Bool

namespace Frame
def plug (t : Frame F L) (r : Tree F L) : Tree F L :=
  if t.isExt then ext t.l t.g r else bin t.l t.g r
/-- precedence the entry keeps: that of the node's first operator -/
def prec (t : Frame F L) : Precedence := if t.isExt then headPrec t.l else t.g.prec
/-- first operators on the left spine of `plug t r` (independent of `r`) -/
def lsp (t : Frame F L) : List (Op F) := if t.isExt then lspine t.l else t.g :: lspine t.l
/-- function of `plug t r` (independent of `r`) -/
def merged (tc : F → F → Option F) (t : Frame F L) : Option F :=
  if t.isExt then (Tree.merged tc t.l).bind (fun f => tc f t.g.fn) else some t.g.fn
end Frame

section ghost
variable (tc : F → F → Option F)

/-- `giveLoop` on trees -/
def sgiveLoop (g : Op F) (x : L) : List (Frame F L) → Tree F L → List (Frame F L) × Tree F L
  | [], rm => ([⟨rm, g, false⟩], leaf x)
  | t :: rest, rm =>
    if tighter t.prec g.prec then
      if chains tc (t.plug rm) g then (⟨t.plug rm, g, true⟩ :: rest, leaf x)
      else sgiveLoop g x rest (t.plug rm)
    else (⟨rm, g, false⟩ :: t :: rest, leaf x)

def sfinish : List (Frame F L) → Tree F L → Tree F L
  | [], rm => rm
  | t :: rest, rm => sfinish rest (t.plug rm)

def sfeed : List (Op F × L) → List (Frame F L) × Tree F L → List (Frame F L) × Tree F L
  | [], s => s
  | (g, x) :: more, s => sfeed more (sgiveLoop tc g x s.1 s.2)

/-- the tree the evaluator builds for a chain -/
def shunt (c : ChainOf F L) : Tree F L :=
  let s := sfeed tc c.rest ([], leaf c.first)
  sfinish s.1 s.2

end ghost

/-- the chain as a symbol sequence -/
def ChainOf.syms (c : ChainOf F L) : List (Sym F L) :=
  .opd c.first :: c.rest.flatMap (fun p => [.opr p.1, .opd p.2])

/-! ### basic facts about `plug` -/

@[simp] theorem headPrec_plug (t : Frame F L) (r : Tree F L) : headPrec (t.plug r) = t.prec := by
  unfold Frame.plug Frame.prec; cases t.isExt <;> simp [headPrec]

@[simp] theorem lspine_plug (t : Frame F L) (r : Tree F L) : lspine (t.plug r) = t.lsp := by
  unfold Frame.plug Frame.lsp; cases t.isExt <;> simp [lspine]

@[simp] theorem merged_plug (tc : F → F → Option F) (t : Frame F L) (r : Tree F L) :
    Tree.merged tc (t.plug r) = t.merged tc := by
  unfold Frame.plug Frame.merged; cases t.isExt <;> simp [Tree.merged]

@[simp] theorem rspine_plug (t : Frame F L) (r : Tree F L) :
    rspine (t.plug r) = t.plug r :: rspine r := by
  unfold Frame.plug; cases t.isExt <;> simp [rspine]

@[simp] theorem lastKid_plug (t : Frame F L) (r : Tree F L) : lastKid (t.plug r) = r := by
  unfold Frame.plug; cases t.isExt <;> simp [lastKid]

@[simp] theorem isNode_plug (t : Frame F L) (r : Tree F L) : isNode (t.plug r) = true := by
  unfold Frame.plug; cases t.isExt <;> simp [isNode]

theorem yield_plug (t : Frame F L) (r : Tree F L) :
    yield (t.plug r) = yield t.l ++ .opr t.g :: yield r := by
  unfold Frame.plug; cases t.isExt <;> simp [yield]

theorem chains_plug (tc : F → F → Option F) (t : Frame F L) (r r' : Tree F L) (g : Op F) :
    chains tc (t.plug r) g = chains tc (t.plug r') g := by
  simp [chains]

/-! ### the stack invariant -/

section inv
variable (tc : F → F → Option F)

/-- everything `Valid (plug t r)` asks that does not mention `r` -/
def FrameOK (t : Frame F L) : Prop :=
  Valid tc t.l ∧
  (if t.isExt then
    isNode t.l = true ∧ (tighter (headPrec t.l) t.g.prec = true ∧ chains tc t.l t.g = true) ∧
      AppliedBefore tc (lastKid t.l) t.g
   else AppliedBefore tc t.l t.g)

theorem valid_plug (t : Frame F L) (r : Tree F L) :
    Valid tc (t.plug r) ↔ FrameOK tc t ∧ Valid tc r ∧ Waited t.prec r := by
  unfold Frame.plug FrameOK Frame.prec
  cases h : t.isExt <;> simp [Valid] <;> constructor <;> intro h' <;> simp_all

/-- `above` = first operators on the left spine of whatever sits on top of the stack -/
def StackOK : List (Frame F L) → List (Op F) → Prop
  | [], _ => True
  | t :: rest, above =>
    FrameOK tc t ∧ (∀ h ∈ above, tighter t.prec h.prec = false) ∧ StackOK rest t.lsp

def Inv (fr : List (Frame F L)) (rm : Tree F L) : Prop :=
  Valid tc rm ∧ StackOK tc fr (lspine rm)

theorem give_inv (g : Op F) (x : L) :
    ∀ (fr : List (Frame F L)) (rm : Tree F L), Inv tc fr rm → AppliedBefore tc rm g →
      Inv tc (sgiveLoop tc g x fr rm).1 (sgiveLoop tc g x fr rm).2 := by
  intro fr
  induction fr with
  | nil =>
    intro rm hinv hab
    simp only [sgiveLoop, Inv, StackOK, FrameOK, Valid, lspine, Frame.prec]
    simp
    exact ⟨hinv.1, hab⟩
  | cons t rest ih =>
    intro rm hinv hab
    obtain ⟨hvrm, hft, habove, hrest⟩ := hinv
    have hvplug : Valid tc (t.plug rm) := (valid_plug tc t rm).2 ⟨hft, hvrm, habove⟩
    unfold sgiveLoop
    by_cases ht : tighter t.prec g.prec = true
    · simp only [ht, if_true]
      by_cases hc : chains tc (t.plug rm) g = true
      · simp only [hc, if_true]
        refine ⟨trivial, ?_, ?_, ?_⟩
        · refine ⟨hvplug, ?_⟩
          simp only [if_true, isNode_plug, headPrec_plug, lastKid_plug]
          exact ⟨trivial, ⟨ht, hc⟩, hab⟩
        · intro h hh; simp [lspine] at hh
        · simpa [Frame.lsp] using hrest
      · simp only [hc]
        apply ih
        · exact ⟨hvplug, by simpa using hrest⟩
        · intro u hu
          rw [rspine_plug] at hu
          cases hu with
          | head => simp only [headPrec_plug]; exact ⟨ht, by simpa using hc⟩
          | tail _ hu' => exact hab u hu'
    · simp only [ht]
      refine ⟨trivial, ⟨hvrm, by simpa using hab⟩, ?_, ?_⟩
      · intro h hh; simp [lspine] at hh
      · refine ⟨hft, ?_, hrest⟩
        intro h hh
        simp only [Frame.lsp] at hh
        cases hh with
        | head => simpa using ht
        | tail _ hh' => exact habove h hh'

theorem sgiveLoop_snd (g : Op F) (x : L) :
    ∀ (fr : List (Frame F L)) (rm : Tree F L), (sgiveLoop tc g x fr rm).2 = leaf x := by
  intro fr
  induction fr with
  | nil => intro rm; rfl
  | cons t rest ih =>
    intro rm
    unfold sgiveLoop
    split
    · split
      · rfl
      · exact ih _
    · rfl

theorem finish_valid :
    ∀ (fr : List (Frame F L)) (rm : Tree F L), Inv tc fr rm → Valid tc (sfinish fr rm) := by
  intro fr
  induction fr with
  | nil => intro rm h; exact h.1
  | cons t rest ih =>
    intro rm h
    obtain ⟨hvrm, hft, habove, hrest⟩ := h
    apply ih
    exact ⟨(valid_plug tc t rm).2 ⟨hft, hvrm, habove⟩, by simpa using hrest⟩

theorem feed_inv :
    ∀ (more : List (Op F × L)) (s : List (Frame F L) × Tree F L),
      Inv tc s.1 s.2 → (∃ x, s.2 = leaf x) →
      Inv tc (sfeed tc more s).1 (sfeed tc more s).2 := by
  intro more
  induction more with
  | nil => intro s h _; exact h
  | cons p more ih =>
    intro s h hl
    obtain ⟨g, x⟩ := p
    simp only [sfeed]
    apply ih
    · apply give_inv tc g x _ _ h
      obtain ⟨y, hy⟩ := hl
      intro u hu
      rw [hy] at hu
      simp [rspine] at hu
    · exact ⟨x, sgiveLoop_snd tc g x _ _⟩

/-- the tree the evaluator builds is `Valid` -/
theorem shunt_is_valid (c : ChainOf F L) : Valid tc (shunt tc c) := by
  unfold shunt
  apply finish_valid
  apply feed_inv
  · exact ⟨trivial, trivial⟩
  · exact ⟨c.first, rfl⟩

end inv

/-! ### the yield of the built tree is the chain -/

section yield
variable (tc : F → F → Option F)

/-- symbols to the left of the hole of a stack -/
def pre : List (Frame F L) → List (Sym F L)
  | [] => []
  | t :: rest => pre rest ++ (yield t.l ++ [.opr t.g])

theorem yield_sfinish :
    ∀ (fr : List (Frame F L)) (rm : Tree F L), yield (sfinish fr rm) = pre fr ++ yield rm := by
  intro fr
  induction fr with
  | nil => intro rm; simp [sfinish, pre]
  | cons t rest ih =>
    intro rm
    simp only [sfinish, pre, ih, yield_plug]
    simp [List.append_assoc]

theorem pre_give (g : Op F) (x : L) :
    ∀ (fr : List (Frame F L)) (rm : Tree F L),
      pre (sgiveLoop tc g x fr rm).1 = pre fr ++ yield rm ++ [.opr g] := by
  intro fr
  induction fr with
  | nil => intro rm; simp [sgiveLoop, pre]
  | cons t rest ih =>
    intro rm
    unfold sgiveLoop
    split
    · split
      · simp [pre, yield_plug, List.append_assoc]
      · rw [ih]; simp [pre, yield_plug, List.append_assoc]
    · simp [pre, List.append_assoc]

theorem yield_feed :
    ∀ (more : List (Op F × L)) (s : List (Frame F L) × Tree F L),
      pre (sfeed tc more s).1 ++ yield (sfeed tc more s).2 =
        pre s.1 ++ yield s.2 ++ more.flatMap (fun p => [.opr p.1, .opd p.2]) := by
  intro more
  induction more with
  | nil => intro s; simp [sfeed]
  | cons p more ih =>
    intro s
    obtain ⟨g, x⟩ := p
    simp only [sfeed]
    rw [ih, pre_give, sgiveLoop_snd]
    simp [yield, List.append_assoc]

theorem shunt_yield (c : ChainOf F L) : yield (shunt tc c) = c.syms := by
  unfold shunt
  simp only [yield_sfinish]
  have := yield_feed tc c.rest ([], leaf c.first)
  rw [this]
  simp [pre, yield, ChainOf.syms]

end yield

/-! ### uniqueness: a `Valid` tree is what the evaluator rebuilds from its own yield -/

section unique
variable (tc : F → F → Option F)

/-- the stack the evaluator holds after reading all of `t` (top first): one frame per
application on the right spine -/
def spineFrames : Tree F L → List (Frame F L)
  | leaf _ => []
  | bin l g r => spineFrames r ++ [⟨l, g, false⟩]
  | ext l g r => spineFrames r ++ [⟨l, g, true⟩]

def lastLeaf : Tree F L → L
  | leaf v => v
  | bin _ _ r => lastLeaf r
  | ext _ _ r => lastLeaf r

/-- an arriving `g` that everything on the right spine of `c` is applied before pops exactly the
frames of `c` -/
theorem pop_spine (g : Op F) (x : L) :
    ∀ (c : Tree F L) (st : List (Frame F L)), AppliedBefore tc c g →
      sgiveLoop tc g x (spineFrames c ++ st) (leaf (lastLeaf c)) = sgiveLoop tc g x st c := by
  intro c
  induction c with
  | leaf v => intro st _; simp [spineFrames, lastLeaf]
  | bin l g' r _ ihr =>
    intro st hab
    have hr : AppliedBefore tc r g := fun u hu => hab u (by simp [rspine, hu])
    have hroot := hab (bin l g' r) (by simp [rspine])
    simp only [spineFrames, lastLeaf, List.append_assoc, List.singleton_append]
    rw [ihr _ hr]
    conv => lhs; unfold sgiveLoop
    simp only [Frame.prec, Frame.plug] at *
    simp only [headPrec] at hroot
    simp [hroot.1, hroot.2]
  | ext l g' r _ ihr =>
    intro st hab
    have hr : AppliedBefore tc r g := fun u hu => hab u (by simp [rspine, hu])
    have hroot := hab (ext l g' r) (by simp [rspine])
    simp only [spineFrames, lastLeaf, List.append_assoc, List.singleton_append]
    rw [ihr _ hr]
    conv => lhs; unfold sgiveLoop
    simp only [Frame.prec, Frame.plug] at *
    simp only [headPrec] at hroot
    simp [hroot.1, hroot.2]

/-- `Waited` against whatever is on top of the stack (nothing, if it is empty) -/
def HeadWaits (st : List (Frame F L)) (t : Tree F L) : Prop :=
  ∀ u, st.head? = some u → Waited u.prec t

theorem sfeed_append (a b : List (Op F × L)) (s : List (Frame F L) × Tree F L) :
    sfeed tc (a ++ b) s = sfeed tc b (sfeed tc a s) := by
  induction a generalizing s with
  | nil => rfl
  | cons p a ih => obtain ⟨g, x⟩ := p; simp [sfeed, ih]

/-- push step: the top of the stack (if any) is not tighter than `g` -/
theorem give_push (g : Op F) (x : L) (st : List (Frame F L)) (c : Tree F L)
    (h : ∀ u, st.head? = some u → tighter u.prec g.prec = false) :
    sgiveLoop tc g x st c = (⟨c, g, false⟩ :: st, leaf x) := by
  cases st with
  | nil => rfl
  | cons u st' =>
    have := h u rfl
    unfold sgiveLoop
    simp [this]

/-- merge step -/
theorem give_merge (g : Op F) (x : L) (u : Frame F L) (st : List (Frame F L)) (c : Tree F L)
    (ht : tighter u.prec g.prec = true) (hc : chains tc (u.plug c) g = true) :
    sgiveLoop tc g x (u :: st) c = (⟨u.plug c, g, true⟩ :: st, leaf x) := by
  unfold sgiveLoop
  simp [ht, hc]

/-- key lemma: feeding the yield of a valid tree on top of any stack that waits for it leaves
exactly the right-spine frames of the tree on top -/
theorem feed_valid :
    ∀ (t : Tree F L) (st : List (Frame F L)), Valid tc t → HeadWaits st t →
      sfeed tc (rest t) (st, leaf (first t)) = (spineFrames t ++ st, leaf (lastLeaf t)) := by
  intro t
  induction t with
  | leaf v => intro st _ _; simp [rest, first, sfeed, spineFrames, lastLeaf]
  | bin l g r ihl ihr =>
    intro st hv hw
    obtain ⟨hvl, hvr, hab, hwr⟩ := hv
    have hwl : HeadWaits st l := fun u hu h hh => hw u hu h (by simp [lspine, hh])
    simp only [rest, first, sfeed_append, sfeed]
    rw [ihl st hvl hwl]
    simp only
    rw [pop_spine tc g (first r) l st hab]
    rw [give_push tc g (first r) st l (fun u hu => hw u hu g (by simp [lspine]))]
    have hw' : HeadWaits (⟨l, g, false⟩ :: st) r := by
      intro u hu; simp at hu; subst hu; simpa [Frame.prec] using hwr
    rw [ihr _ hvr hw']
    simp [spineFrames, lastLeaf]
  | ext l g r ihl ihr =>
    intro st hv hw
    obtain ⟨hnode, hvl, hvr, ⟨hti, hch⟩, hab, hwr⟩ := hv
    have hwl : HeadWaits st l := fun u hu h hh => hw u hu h (by simp [lspine, hh])
    simp only [rest, first, sfeed_append, sfeed]
    rw [ihl st hvl hwl]
    simp only
    -- `l` is an application node: its top frame merges with `g`
    cases l with
    | leaf v => simp [isNode] at hnode
    | bin l' g' r' =>
      simp only [lastKid] at hab
      simp only [spineFrames, List.append_assoc, List.singleton_append, lastLeaf]
      rw [pop_spine tc g (first r) r' _ hab]
      rw [give_merge tc g (first r) ⟨l', g', false⟩ st r' (by simpa [Frame.prec, headPrec] using hti)
        (by simpa [Frame.plug] using hch)]
      simp only [Frame.plug, Bool.false_eq_true, if_false]
      have hw' : HeadWaits (⟨bin l' g' r', g, true⟩ :: st) r := by
        intro u hu; simp at hu; subst hu; simpa [Frame.prec] using hwr
      rw [ihr _ hvr hw']
    | ext l' g' r' =>
      simp only [lastKid] at hab
      simp only [spineFrames, List.append_assoc, List.singleton_append, lastLeaf]
      rw [pop_spine tc g (first r) r' _ hab]
      rw [give_merge tc g (first r) ⟨l', g', true⟩ st r' (by simpa [Frame.prec, headPrec] using hti)
        (by simpa [Frame.plug] using hch)]
      simp only [Frame.plug, if_true]
      have hw' : HeadWaits (⟨ext l' g' r', g, true⟩ :: st) r := by
        intro u hu; simp at hu; subst hu; simpa [Frame.prec] using hwr
      rw [ihr _ hvr hw']

theorem finish_spine :
    ∀ (t : Tree F L) (st : List (Frame F L)),
      sfinish (spineFrames t ++ st) (leaf (lastLeaf t)) = sfinish st t := by
  intro t
  induction t with
  | leaf v => intro st; simp [spineFrames, lastLeaf]
  | bin l g r _ ihr =>
    intro st
    simp only [spineFrames, lastLeaf, List.append_assoc, List.singleton_append]
    rw [ihr]; simp [sfinish, Frame.plug]
  | ext l g r _ ihr =>
    intro st
    simp only [spineFrames, lastLeaf, List.append_assoc, List.singleton_append]
    rw [ihr]; simp [sfinish, Frame.plug]

/-- a valid tree is what the evaluator builds from its yield -/
theorem shunt_of_valid (t : Tree F L) (hv : Valid tc t) : shunt tc (chain t) = t := by
  unfold shunt chain
  simp only
  rw [feed_valid tc t [] hv (by intro u hu; simp at hu)]
  simpa [sfinish] using finish_spine t []

theorem yield_eq_syms (t : Tree F L) : yield t = (chain t).syms := by
  induction t with
  | leaf v => simp [yield, chain, ChainOf.syms, first, rest]
  | bin l g r ihl ihr =>
    simp only [yield, ihl, ihr, chain, ChainOf.syms, first, rest]
    simp
  | ext l g r ihl ihr =>
    simp only [yield, ihl, ihr, chain, ChainOf.syms, first, rest]
    simp

theorem syms_rest_inj :
    ∀ (a b : List (Op F × L)),
      a.flatMap (fun p => [Sym.opr p.1, Sym.opd p.2]) = b.flatMap (fun p => [Sym.opr p.1, Sym.opd p.2]) →
      a = b := by
  intro a
  induction a with
  | nil =>
    intro b h
    cases b with
    | nil => rfl
    | cons q b => simp at h
  | cons p a ih =>
    intro b h
    cases b with
    | nil => simp at h
    | cons q b =>
      obtain ⟨g, x⟩ := p
      obtain ⟨g', x'⟩ := q
      simp only [List.flatMap_cons, List.cons_append, List.nil_append, List.cons.injEq,
        Sym.opr.injEq, Sym.opd.injEq] at h
      obtain ⟨h1, h2, h3⟩ := h
      rw [h1, h2, ih b h3]

theorem syms_inj (c d : ChainOf F L) (h : c.syms = d.syms) : c = d := by
  obtain ⟨cf, cr⟩ := c
  obtain ⟨df, dr⟩ := d
  simp only [ChainOf.syms, List.cons.injEq, Sym.opd.injEq] at h
  obtain ⟨h1, h2⟩ := h
  rw [h1, syms_rest_inj cr dr h2]

end unique

end Noulith.Chain
