/-
Helper lemmas for C15 (Theorems/C15.lean): the lexer model never emits the panic pseudo-token,
positional notation (`digits` / `ofDigits`), digit characters, `takeWhile`/`dropWhile` on digit runs,
the number arm on a digit run, the escape arms of the string lexer, the saturating `\u` accumulator.
-/
import NoulithModel.Impl.Lex
import NoulithModel.Spec.Literal
namespace Noulith.C15
open Noulith Noulith.Lex Noulith.LitSpec

/-! ## 1. no panic -/


theorem lex_nil : lex [] = [] := by rw [lex]

theorem lex_cons (c : Char) (cs : List Char) :
    lex (c :: cs) = if (lexStep c cs).stop then (lexStep c cs).toks
      else (lexStep c cs).toks ++ lex (lexStep c cs).rest := by
  rw [lex]

theorem toDigit_lt (c : Char) (r d : Nat) (h : toDigit c r = some d) : d < r := by
  unfold toDigit at h
  simp only at h
  repeat' split at h
  all_goals first | (simp at h; omega) | simp at h

theorem validScalar_of_lt (x : Nat) (h : x < 0xD800) : validScalar x = true := by
  simp [validScalar, h]

/-- no panic pseudo-token comes out of the string lexer -/
theorem lexStr_no_panic (e : Char) (cs : List Char) : ∀ t ∈ (lexStr e cs).pre, t.isPanic = false := by
  fun_induction lexStr e cs <;> simp_all [strFail, Token.isPanic]
  rename_i c1 d1 hd1 c2 _ d2 hd2 hv _
  have := toDigit_lt _ _ _ hd1
  have := toDigit_lt _ _ _ hd2
  rw [validScalar_of_lt _ (by omega)] at hv
  cases hv


theorem all_takeWhile (p : Char → Bool) (l : List Char) : (l.takeWhile p).all p = true := by
  induction l with
  | nil => simp
  | cons a l ih => simp only [List.takeWhile_cons]; split <;> simp_all

theorem intLitTok_ok (c : Char) (cs : List Char) (hc : isDigit10 c = true) :
    intLitTok (c :: cs.takeWhile isDigit10) = .intLit (foldDigits 10 0 (c :: cs.takeWhile isDigit10)) := by
  have := all_takeWhile isDigit10 cs
  simp [intLitTok, parseBigInt, hc, this]

theorem ratLitTok_ok (c : Char) (cs : List Char) (hc : isDigit10 c = true) :
    ratLitTok (c :: cs.takeWhile isDigit10) = .ratLit (foldDigits 10 0 (c :: cs.takeWhile isDigit10)) := by
  have := all_takeWhile isDigit10 cs
  simp [ratLitTok, parseBigInt, hc, this]

def NoPanic (s : Step) : Prop := ∀ t ∈ s.toks, t.isPanic = false

theorem emitFloat_np (a : List Char) : (emitFloat a).isPanic = false := by
  unfold emitFloat; split <;> rfl
theorem emitImag_np (a : List Char) : (emitImag a).isPanic = false := by
  unfold emitImag; split <;> rfl

theorem lexBaseTok_np (r : Nat) (cs : List Char) (h : 2 ≤ r ∧ r ≤ 36) : NoPanic (lexBaseTok r cs) := by
  simp [NoPanic, lexBaseTok, h, Token.isPanic]

theorem lexExponent_np (acc cs : List Char) : NoPanic (lexExponent acc cs) := by
  unfold lexExponent NoPanic; split <;> simp [emitFloat_np]

theorem lexAfterFraction_np (acc cs : List Char) : NoPanic (lexAfterFraction acc cs) := by
  unfold lexAfterFraction
  repeat' split
  all_goals first
    | exact lexExponent_np _ _
    | simp [NoPanic, emitFloat_np, emitImag_np]

theorem lexAfterInt_np (c : Char) (cs : List Char) (hc : isDigit10 c = true) (d : Char) (cs2 : List Char) :
    NoPanic (lexAfterInt (c :: cs.takeWhile isDigit10) d cs2) := by
  unfold lexAfterInt
  repeat' split
  all_goals first
    | exact lexExponent_np _ _
    | (apply lexBaseTok_np; omega)
    | (simp only [NoPanic, List.mem_singleton, forall_eq]
       first
         | exact emitFloat_np _
         | exact emitImag_np _
         | rfl
         | (rw [intLitTok_ok _ _ hc]; rfl)
         | (rw [ratLitTok_ok _ _ hc]; rfl))

theorem lexNumber_np (c : Char) (cs : List Char) (hc : isDigit10 c = true) : NoPanic (lexNumber c cs) := by
  unfold lexNumber
  split
  · exact lexAfterFraction_np _ _
  · simp [NoPanic, intLitTok_ok _ _ hc, Token.isPanic]
  · exact lexAfterInt_np c cs hc _ _

theorem keyword_np (s : String) (t : Token) (h : keyword s = some t) : t.isPanic = false := by
  unfold keyword at h
  split at h <;> simp at h <;> subst h <;> rfl

theorem lexIdentTail_np (acc cs1 : List Char) : NoPanic (lexIdentTail acc cs1) := by
  unfold lexIdentTail
  repeat' split
  all_goals first
    | (simp only [NoPanic, List.mem_append, List.mem_singleton]
       intro t ht
       rcases ht with ht | ht
       · exact lexStr_no_panic _ _ t ht
       · subst ht; rfl)
    | (rename_i h; simp [NoPanic]; exact keyword_np _ _ h)
    | simp [NoPanic, Token.isPanic]

theorem lexOp_np (c : Char) (cs : List Char) : NoPanic (lexOp c cs) := by
  unfold lexOp
  simp only
  repeat' split
  all_goals simp [NoPanic, Token.isPanic]

theorem lexComment_np (cs : List Char) : NoPanic (lexComment cs) := by
  unfold lexComment
  repeat' split
  all_goals simp [NoPanic, Token.isPanic]

theorem lexOther_np (c : Char) (cs : List Char) : NoPanic (lexOther c cs) := by
  unfold lexOther
  repeat' split
  all_goals first
    | (rename_i h; exact lexNumber_np _ _ h)
    | exact lexIdentTail_np _ _
    | exact lexOp_np _ _
    | simp [NoPanic, Token.isPanic]

theorem lexStep_np (c : Char) (cs : List Char) : NoPanic (lexStep c cs) := by
  unfold lexStep
  split
  all_goals (try split)
  all_goals first
    | exact lexComment_np _
    | exact lexOther_np _ _
    | (simp only [NoPanic, List.mem_append, List.mem_singleton]
       intro t ht
       rcases ht with ht | ht
       · exact lexStr_no_panic _ _ t ht
       · subst ht; rfl)
    | simp [NoPanic, Token.isPanic]

/-- **`lex_no_panic`**: the lexer never reaches a place where the Rust would panic -/
theorem lex_no_panic (cs : List Char) : ∀ t ∈ lex cs, t.isPanic = false := by
  fun_induction lex cs with
  | case1 => simp
  | case2 c cs h => exact lexStep_np c cs
  | case3 c cs h ih =>
    intro t ht
    rcases List.mem_append.mp ht with ht | ht
    · exact lexStep_np c cs t ht
    · exact ih t ht


/-! ## 2. positional notation and the number arm -/


/-! positional notation -/
def horner (b : Nat) (x : Nat) (ds : List Nat) : Nat := ds.foldl (fun x d => b * x + d) x

theorem ofDigits_eq_horner (b : Nat) (ds : List Nat) : ofDigits b ds = horner b 0 ds := rfl

theorem horner_append (b x : Nat) (l1 l2 : List Nat) : horner b x (l1 ++ l2) = horner b (horner b x l1) l2 := by
  simp [horner, List.foldl_append]

theorem digitsAux_acc (b fuel n : Nat) (acc : List Nat) :
    digitsAux b fuel n acc = digitsAux b fuel n [] ++ acc := by
  induction fuel generalizing n acc with
  | zero => simp [digitsAux]
  | succ fuel ih =>
    unfold digitsAux
    split
    · simp
    · rw [ih (n / b) (n % b :: acc), ih (n / b) [n % b]]; simp

theorem horner_digitsAux (b : Nat) (hb : 2 ≤ b) (fuel n : Nat) (h : n < fuel) :
    horner b 0 (digitsAux b fuel n []) = n := by
  induction fuel generalizing n with
  | zero => omega
  | succ fuel ih =>
    unfold digitsAux
    split
    · simp [horner]
    · rename_i hge
      have hdiv : n / b < fuel := by
        have : n / b < n := Nat.div_lt_self (by omega) (by omega)
        omega
      rw [digitsAux_acc, horner_append, ih _ hdiv]
      simp [horner, Nat.div_add_mod]

/-- positional notation round trip: the digits of `n` denote `n` -/
theorem ofDigits_digits (b n : Nat) (hb : 2 ≤ b) : ofDigits b (digits b n) = n :=
  horner_digitsAux b hb (n + 1) n (by omega)

theorem digitsAux_lt (b : Nat) (hb : 2 ≤ b) (fuel n : Nat) (h : n < fuel) :
    ∀ d ∈ digitsAux b fuel n [], d < b := by
  induction fuel generalizing n with
  | zero => omega
  | succ fuel ih =>
    unfold digitsAux
    split
    · rename_i hlt; intro d hd; simp at hd; omega
    · have hdiv : n / b < fuel := by
        have : n / b < n := Nat.div_lt_self (by omega) (by omega)
        omega
      rw [digitsAux_acc]
      intro d hd
      rcases List.mem_append.mp hd with hd | hd
      · exact ih _ hdiv d hd
      · simp at hd; rw [hd]; exact Nat.mod_lt _ (by omega)

theorem digits_lt (b n : Nat) (hb : 2 ≤ b) : ∀ d ∈ digits b n, d < b :=
  digitsAux_lt b hb (n + 1) n (by omega)

theorem digits_ne_nil (b n : Nat) : digits b n ≠ [] := by
  unfold digits digitsAux
  split
  · simp
  · rw [digitsAux_acc]; simp

/-! digit characters -/
theorem toNat_ofNat (n : Nat) (h : n.isValidChar) : (Char.ofNat n).toNat = n := by
  unfold Char.ofNat
  rw [dif_pos h]
  simp [Char.ofNatAux, Char.toNat]

theorem toDigit_digitChar (u : Bool) (d r : Nat) (hd : d < r) (hr : r ≤ 36) :
    toDigit (digitChar u d) r = some d := by
  unfold digitChar
  split
  · have h : (Char.ofNat (48 + d)).toNat = 48 + d := toNat_ofNat _ (Or.inl (by omega))
    simp only [toDigit, h]
    rw [if_pos (by omega), if_pos (by omega)]
    congr 1; omega
  · cases u
    · have h : (Char.ofNat (87 + d)).toNat = 87 + d := toNat_ofNat _ (Or.inl (by omega))
      simp only [toDigit, h, Bool.false_eq_true, if_false]
      rw [if_neg (by omega), if_pos (by omega), if_pos (by omega), if_pos (by omega)]
      congr 1; omega
    · have h : (Char.ofNat (55 + d)).toNat = 55 + d := toNat_ofNat _ (Or.inl (by omega))
      simp only [toDigit, h, if_true]
      rw [if_neg (by omega), if_pos (by omega), if_neg (by omega), if_pos (by omega), if_pos (by omega)]
      congr 1; omega

theorem b64Digit_b64Char (alt : Bool) (d : Nat) (hd : d < 64) : b64Digit (b64Char alt d) = some d := by
  unfold b64Char
  split
  · have h : (Char.ofNat (65 + d)).toNat = 65 + d := toNat_ofNat _ (Or.inl (by omega))
    simp only [b64Digit, h]
    rw [if_pos (by omega)]; congr 1; omega
  · split
    · have h : (Char.ofNat (97 + (d - 26))).toNat = 97 + (d - 26) := toNat_ofNat _ (Or.inl (by omega))
      simp only [b64Digit, h]
      rw [if_neg (by omega), if_pos (by omega)]; congr 1; omega
    · split
      · have h : (Char.ofNat (48 + (d - 52))).toNat = 48 + (d - 52) := toNat_ofNat _ (Or.inl (by omega))
        simp only [b64Digit, h]
        rw [if_neg (by omega), if_neg (by omega), if_pos (by omega)]; congr 1; omega
      · split
        · rename_i h62; subst h62; cases alt <;> decide
        · have : d = 63 := by omega
          subst this; cases alt <;> decide

/-- the lexer's digit loop computes positional notation -/
theorem foldDigits_map (r : Nat) (hr : r ≤ 36) (u : Bool) (ds : List Nat) (x : Nat) (h : ∀ d ∈ ds, d < r) :
    foldDigits r x (ds.map (digitChar u)) = horner r x ds := by
  induction ds generalizing x with
  | nil => rfl
  | cons d ds ih =>
    have hd : d < r := h d (by simp)
    simp only [List.map_cons, foldDigits, toDigit_digitChar u d r hd hr, Option.getD_some]
    rw [ih _ (fun d' hd' => h d' (by simp [hd']))]
    rfl

theorem foldB64_map (alt : Bool) (ds : List Nat) (x : Nat) (h : ∀ d ∈ ds, d < 64) :
    foldB64 x (ds.map (b64Char alt)) = horner 64 x ds := by
  induction ds generalizing x with
  | nil => rfl
  | cons d ds ih =>
    have hd : d < 64 := h d (by simp)
    simp only [List.map_cons, foldB64, b64Digit_b64Char alt d hd, Option.getD_some]
    rw [ih _ (fun d' hd' => h d' (by simp [hd']))]
    rfl

/-! `takeWhile` / `dropWhile` on a run followed by a stopper -/
def Stops (p : Char → Bool) (rest : List Char) : Prop := ∀ c ∈ rest.head?, p c = false

theorem takeWhile_run (p : Char → Bool) (run rest : List Char) (hrun : ∀ c ∈ run, p c = true)
    (hstop : Stops p rest) : (run ++ rest).takeWhile p = run := by
  induction run with
  | nil =>
    cases rest with
    | nil => rfl
    | cons c cs => simp [Stops] at hstop; simp [List.takeWhile_cons, hstop]
  | cons a run ih =>
    have ha : p a = true := hrun a (by simp)
    simp only [List.cons_append, List.takeWhile_cons, ha, if_true]
    rw [ih (fun c hc => hrun c (by simp [hc]))]

theorem dropWhile_run (p : Char → Bool) (run rest : List Char) (hrun : ∀ c ∈ run, p c = true)
    (hstop : Stops p rest) : (run ++ rest).dropWhile p = rest := by
  induction run with
  | nil =>
    cases rest with
    | nil => rfl
    | cons c cs => simp [Stops] at hstop; simp [List.dropWhile_cons, hstop]
  | cons a run ih =>
    have ha : p a = true := hrun a (by simp)
    simp only [List.cons_append, List.dropWhile_cons, ha, if_true]
    rw [ih (fun c hc => hrun c (by simp [hc]))]

/-- `lex_base_and_emit(r)` on the digits of `n` in base `r` reads exactly `n` -/
theorem lexBase_digits (r : Nat) (hr2 : 2 ≤ r) (hr : r ≤ 36) (u : Bool) (n : Nat) (rest : List Char)
    (hstop : Stops (fun c => (toDigit c r).isSome) rest) :
    lexBase r ((digits r n).map (digitChar u) ++ rest) = (n, rest) := by
  have hrun : ∀ c ∈ (digits r n).map (digitChar u), (fun c => (toDigit c r).isSome) c = true := by
    intro c hc
    rcases List.mem_map.mp hc with ⟨d, hd, rfl⟩
    simp [toDigit_digitChar u d r (digits_lt r n hr2 d hd) hr]
  unfold lexBase
  rw [takeWhile_run _ _ _ hrun hstop, dropWhile_run _ _ _ hrun hstop,
    foldDigits_map r hr u _ 0 (digits_lt r n hr2)]
  have := ofDigits_digits r n hr2
  rw [ofDigits_eq_horner] at this
  rw [this]

theorem lexBase64_digits (alt : Bool) (n : Nat) (rest : List Char)
    (hstop : Stops (fun c => (b64Digit c).isSome) rest) :
    lexBase64 ((digits 64 n).map (b64Char alt) ++ rest) = (n, rest) := by
  have hrun : ∀ c ∈ (digits 64 n).map (b64Char alt), (fun c => (b64Digit c).isSome) c = true := by
    intro c hc
    rcases List.mem_map.mp hc with ⟨d, hd, rfl⟩
    simp [b64Digit_b64Char alt d (digits_lt 64 n (by omega) d hd)]
  unfold lexBase64
  rw [takeWhile_run _ _ _ hrun hstop, dropWhile_run _ _ _ hrun hstop,
    foldB64_map alt _ 0 (digits_lt 64 n (by omega))]
  have := ofDigits_digits 64 n (by omega)
  rw [ofDigits_eq_horner] at this
  rw [this]


/-! decimal digit strings -/
theorem isDigit10_iff (c : Char) : isDigit10 c = true ↔ 48 ≤ c.toNat ∧ c.toNat ≤ 57 := by
  unfold isDigit10 toDigit
  simp only
  constructor
  · intro h
    split at h
    · assumption
    · simp at h
  · intro h
    rw [if_pos h, if_pos (by omega)]
    rfl

theorem isDigit10_digitChar (d : Nat) (hd : d < 10) : isDigit10 (digitChar false d) = true := by
  simp [isDigit10, toDigit_digitChar false d 10 hd (by omega)]

theorem decDigits_all (ds : List Nat) (h : ∀ d ∈ ds, d < 10) : ∀ c ∈ decDigits ds, isDigit10 c = true := by
  intro c hc
  rcases List.mem_map.mp hc with ⟨d, hd, rfl⟩
  exact isDigit10_digitChar d (h d hd)

theorem decimal_all (n : Nat) : ∀ c ∈ decimal n, isDigit10 c = true :=
  decDigits_all _ (digits_lt 10 n (by omega))

theorem decimal_ne_nil (n : Nat) : decimal n ≠ [] := by
  simp [decimal, digits_ne_nil]

theorem foldDigits_decimal (n : Nat) : foldDigits 10 0 (decimal n) = n := by
  unfold decimal
  rw [foldDigits_map 10 (by omega) false _ 0 (digits_lt 10 n (by omega))]
  have := ofDigits_digits 10 n (by omega)
  rwa [ofDigits_eq_horner] at this

theorem parseBigInt_decimal (n : Nat) : parseBigInt (decimal n) = some n := by
  unfold parseBigInt
  have hall : (decimal n).all isDigit10 = true := by
    rw [List.all_eq_true]; exact decimal_all n
  rw [if_pos ⟨decimal_ne_nil n, hall⟩, foldDigits_decimal]

theorem parseU32_decimal (n : Nat) (h : n ≤ 4294967295) : parseU32 (decimal n) = some n := by
  simp [parseU32, parseBigInt_decimal, h]

/-! the number arm of the lexer on a digit run -/
theorem stops_nil (p : Char → Bool) : Stops p [] := by simp [Stops]
theorem stops_cons (p : Char → Bool) (c : Char) (cs : List Char) (h : p c = false) : Stops p (c :: cs) := by
  simp [Stops, h]

theorem lexNumber_run_nil (c : Char) (ds : List Char) (hds : ∀ d ∈ ds, isDigit10 d = true) :
    lexNumber c ds = ⟨[intLitTok (c :: ds)], [], false⟩ := by
  have h1 := takeWhile_run isDigit10 ds [] hds (stops_nil _)
  have h2 := dropWhile_run isDigit10 ds [] hds (stops_nil _)
  simp only [List.append_nil] at h1 h2
  unfold lexNumber
  rw [h1, h2]

theorem lexNumber_run_dot (c : Char) (ds cs2 : List Char) (hds : ∀ d ∈ ds, isDigit10 d = true) :
    lexNumber c (ds ++ '.' :: cs2) =
      lexAfterFraction (c :: ds ++ '.' :: cs2.takeWhile isDigit10) (cs2.dropWhile isDigit10) := by
  have hs : Stops isDigit10 ('.' :: cs2) := stops_cons _ _ _ (by decide)
  unfold lexNumber
  rw [takeWhile_run _ _ _ hds hs, dropWhile_run _ _ _ hds hs]
  split
  · rename_i heq; simp at heq; rw [heq]
  · rename_i heq; simp at heq
  · rename_i h heq; simp at heq; exact (h heq.1.symm).elim

theorem lexNumber_run_other (c : Char) (ds : List Char) (d : Char) (cs2 : List Char)
    (hds : ∀ d ∈ ds, isDigit10 d = true) (hd : isDigit10 d = false) (hdot : d ≠ '.') :
    lexNumber c (ds ++ d :: cs2) = lexAfterInt (c :: ds) d cs2 := by
  have hs : Stops isDigit10 (d :: cs2) := stops_cons _ _ _ hd
  unfold lexNumber
  rw [takeWhile_run _ _ _ hds hs, dropWhile_run _ _ _ hds hs]
  split
  · rename_i heq; simp at heq; exact absurd heq.1 hdot
  · rename_i heq; simp at heq
  · rename_i heq; simp at heq; rw [heq.1, heq.2]

theorem not_ws_of_digit (c : Char) (h : isDigit10 c = true) : Unicode.isWhitespace c = false := by
  rw [isDigit10_iff] at h
  unfold Unicode.isWhitespace
  simp only
  rw [if_pos (by omega)]
  have h1 : ¬ (c.toNat ≤ 13) := by omega
  have h2 : ¬ (c.toNat = 32) := by omega
  simp [h1, h2]

theorem lexOther_digit (c : Char) (cs : List Char) (h : isDigit10 c = true) :
    lexOther c cs = lexNumber c cs := by
  unfold lexOther
  rw [if_neg (by simp [not_ws_of_digit c h]), if_pos h]

theorem lexStep_digit (c : Char) (cs : List Char) (h : isDigit10 c = true) :
    lexStep c cs = lexNumber c cs := by
  unfold lexStep
  split
  all_goals first
    | exact lexOther_digit c cs h
    | (exfalso; revert h; decide)


/-! ### integer literals -/

/-- the letters that continue a decimal digit run into something else -/
def numSuffixLetters : List Char :=
  ['x', 'X', 'b', 'B', 'o', 'O', 'r', 'R', 'i', 'I', 'j', 'J', 'q', 'Q', 'f', 'F', 'e', 'E']

/-- what may follow an integer literal of form `f` for the literal to end there -/
def IntStop (f : IntForm) (rest : List Char) : Prop :=
  match f with
  | .dec => ∀ c ∈ rest.head?, isDigit10 c = false ∧ c ≠ '.' ∧ c ∉ numSuffixLetters
  | .hex _ _ => Stops (fun c => (toDigit c 16).isSome) rest
  | .bin _ => Stops (fun c => (toDigit c 2).isSome) rest
  | .oct _ => Stops (fun c => (toDigit c 8).isSome) rest
  | .radix r _ _ => Stops (fun c => (toDigit c r).isSome) rest
  | .b64 _ _ => Stops (fun c => (b64Digit c).isSome) rest

theorem intStop_nil (f : IntForm) : IntStop f [] := by
  cases f <;> simp [IntStop, Stops]

theorem intLitTok_decimal (n : Nat) : intLitTok (decimal n) = .intLit n := by
  simp [intLitTok, parseBigInt_decimal]

theorem lexAfterInt_plain (acc : List Char) (d : Char) (cs2 : List Char) (hd : d ∉ numSuffixLetters) :
    lexAfterInt acc d cs2 = ⟨[intLitTok acc], d :: cs2, false⟩ := by
  simp [numSuffixLetters] at hd
  unfold lexAfterInt
  simp [hd]

theorem lexBaseTok_digits (r : Nat) (hr2 : 2 ≤ r) (hr : r ≤ 36) (u : Bool) (n : Nat) (rest : List Char)
    (hstop : Stops (fun c => (toDigit c r).isSome) rest) :
    lexBaseTok r ((digits r n).map (digitChar u) ++ rest) = ⟨[.intLit n], rest, false⟩ := by
  unfold lexBaseTok
  rw [if_pos ⟨hr2, hr⟩, lexBase_digits r hr2 hr u n rest hstop]

theorem zero_digit : isDigit10 '0' = true := by decide

/-- one step of the lexer on an integer literal in any syntax: exactly the token `IntLit n`, and
the input after the literal is left -/
theorem lexStep_int (f : IntForm) (hf : f.valid = true) (n : Nat) (rest : List Char) (hs : IntStop f rest) :
    ∃ c cs, renderInt f n ++ rest = c :: cs ∧ lexStep c cs = ⟨[.intLit n], rest, false⟩ := by
  cases f with
  | dec =>
    obtain ⟨c, ds, hcd⟩ := List.exists_cons_of_ne_nil (decimal_ne_nil n)
    have hall := decimal_all n
    rw [hcd] at hall
    have hc : isDigit10 c = true := hall c (by simp)
    have hds : ∀ d ∈ ds, isDigit10 d = true := fun d hd => hall d (by simp [hd])
    refine ⟨c, ds ++ rest, by simp [renderInt, hcd], ?_⟩
    rw [lexStep_digit c _ hc]
    cases rest with
    | nil => rw [List.append_nil, lexNumber_run_nil c ds hds, ← hcd, intLitTok_decimal]
    | cons d cs2 =>
      have h := hs d (by simp)
      rw [lexNumber_run_other c ds d cs2 hds h.1 h.2.1, lexAfterInt_plain _ _ _ h.2.2, ← hcd, intLitTok_decimal]
  | hex ux ud =>
    refine ⟨'0', (if ux then 'X' else 'x') :: ((digits 16 n).map (digitChar ud) ++ rest), by simp [renderInt], ?_⟩
    rw [lexStep_digit _ _ zero_digit]
    have this : lexNumber '0' ((if ux then 'X' else 'x') :: ((digits 16 n).map (digitChar ud) ++ rest)) = _ :=
      lexNumber_run_other '0' [] (if ux then 'X' else 'x') ((digits 16 n).map (digitChar ud) ++ rest)
        (by simp) (by cases ux <;> decide) (by cases ux <;> decide)
    rw [this]
    unfold lexAfterInt
    rw [if_pos ⟨rfl, by cases ux <;> simp⟩]
    exact lexBaseTok_digits 16 (by omega) (by omega) ud n rest hs
  | bin ub =>
    refine ⟨'0', (if ub then 'B' else 'b') :: ((digits 2 n).map (digitChar false) ++ rest), by simp [renderInt], ?_⟩
    rw [lexStep_digit _ _ zero_digit]
    have this : lexNumber '0' ((if ub then 'B' else 'b') :: ((digits 2 n).map (digitChar false) ++ rest)) = _ :=
      lexNumber_run_other '0' [] (if ub then 'B' else 'b') ((digits 2 n).map (digitChar false) ++ rest)
        (by simp) (by cases ub <;> decide) (by cases ub <;> decide)
    rw [this]
    unfold lexAfterInt
    rw [if_neg (by cases ub <;> simp), if_pos ⟨rfl, by cases ub <;> simp⟩]
    exact lexBaseTok_digits 2 (by omega) (by omega) false n rest hs
  | oct uo =>
    refine ⟨'0', (if uo then 'O' else 'o') :: ((digits 8 n).map (digitChar false) ++ rest), by simp [renderInt], ?_⟩
    rw [lexStep_digit _ _ zero_digit]
    have this : lexNumber '0' ((if uo then 'O' else 'o') :: ((digits 8 n).map (digitChar false) ++ rest)) = _ :=
      lexNumber_run_other '0' [] (if uo then 'O' else 'o') ((digits 8 n).map (digitChar false) ++ rest)
        (by simp) (by cases uo <;> decide) (by cases uo <;> decide)
    rw [this]
    unfold lexAfterInt
    rw [if_neg (by cases uo <;> simp), if_neg (by cases uo <;> simp), if_pos ⟨rfl, by cases uo <;> simp⟩]
    exact lexBaseTok_digits 8 (by omega) (by omega) false n rest hs
  | radix r ur ud =>
    simp [IntForm.valid] at hf
    obtain ⟨c, ds, hcd⟩ := List.exists_cons_of_ne_nil (decimal_ne_nil r)
    have hall := decimal_all r
    rw [hcd] at hall
    have hc : isDigit10 c = true := hall c (by simp)
    have hds : ∀ d ∈ ds, isDigit10 d = true := fun d hd => hall d (by simp [hd])
    refine ⟨c, ds ++ (if ur then 'R' else 'r') :: ((digits r n).map (digitChar ud) ++ rest),
      by simp [renderInt, hcd], ?_⟩
    rw [lexStep_digit c _ hc,
      lexNumber_run_other c ds _ _ hds (by cases ur <;> decide) (by cases ur <;> decide), ← hcd]
    unfold lexAfterInt
    rw [if_neg (by cases ur <;> simp), if_neg (by cases ur <;> simp), if_neg (by cases ur <;> simp),
      if_pos (by cases ur <;> simp), parseU32_decimal r (by omega)]
    simp only
    rw [if_pos ⟨hf.1, hf.2⟩]
    exact lexBaseTok_digits r hf.1 hf.2 ud n rest hs
  | b64 ur alt =>
    refine ⟨'6', '4' :: (if ur then 'R' else 'r') :: ((digits 64 n).map (b64Char alt) ++ rest), by simp [renderInt], ?_⟩
    rw [lexStep_digit _ _ (by decide)]
    have this : lexNumber '6' ('4' :: (if ur then 'R' else 'r') :: ((digits 64 n).map (b64Char alt) ++ rest)) = _ :=
      lexNumber_run_other '6' ['4'] (if ur then 'R' else 'r') ((digits 64 n).map (b64Char alt) ++ rest)
        (by decide) (by cases ur <;> decide) (by cases ur <;> decide)
    rw [this]
    unfold lexAfterInt
    rw [if_neg (by cases ur <;> simp), if_neg (by cases ur <;> simp), if_neg (by cases ur <;> simp),
      if_pos (by cases ur <;> simp)]
    have h64 : parseU32 ['6', '4'] = some 64 := by decide
    rw [h64]
    simp only
    rw [if_neg (by omega), if_pos trivial, lexBase64_digits alt n rest hs]


/-! ## 3. string escapes -/


theorem lexStr_delim (e : Char) (cs : List Char) : lexStr e (e :: cs) = ⟨[], [], cs⟩ := by
  (conv => lhs; rw [lexStr.eq_def]); simp

theorem lexStr_plain (e c : Char) (cs : List Char) (h1 : c ≠ e) (h2 : c ≠ '\\') :
    lexStr e (c :: cs) = (lexStr e cs).push c := by
  (conv => lhs; rw [lexStr.eq_def]); simp [h1, h2]

theorem lexStr_esc_n (e : Char) (he : e ≠ '\\') (cs : List Char) :
    lexStr e ('\\' :: 'n' :: cs) = (lexStr e cs).push '\n' := by
  have he' : ¬ ('\\' = e) := fun h => he h.symm
  (conv => lhs; rw [lexStr.eq_def]); simp [he']
theorem lexStr_esc_r (e : Char) (he : e ≠ '\\') (cs : List Char) :
    lexStr e ('\\' :: 'r' :: cs) = (lexStr e cs).push '\r' := by
  have he' : ¬ ('\\' = e) := fun h => he h.symm
  (conv => lhs; rw [lexStr.eq_def]); simp [he']
theorem lexStr_esc_t (e : Char) (he : e ≠ '\\') (cs : List Char) :
    lexStr e ('\\' :: 't' :: cs) = (lexStr e cs).push '\t' := by
  have he' : ¬ ('\\' = e) := fun h => he h.symm
  (conv => lhs; rw [lexStr.eq_def]); simp [he']
theorem lexStr_esc_0 (e : Char) (he : e ≠ '\\') (cs : List Char) :
    lexStr e ('\\' :: '0' :: cs) = (lexStr e cs).push (Char.ofNat 0) := by
  have he' : ¬ ('\\' = e) := fun h => he h.symm
  (conv => lhs; rw [lexStr.eq_def]); simp [he']
theorem lexStr_esc_bs (e : Char) (he : e ≠ '\\') (cs : List Char) :
    lexStr e ('\\' :: '\\' :: cs) = (lexStr e cs).push '\\' := by
  have he' : ¬ ('\\' = e) := fun h => he h.symm
  (conv => lhs; rw [lexStr.eq_def]); simp [he']
theorem lexStr_esc_sq (e : Char) (he : e ≠ '\\') (cs : List Char) :
    lexStr e ('\\' :: '\'' :: cs) = (lexStr e cs).push '\'' := by
  have he' : ¬ ('\\' = e) := fun h => he h.symm
  (conv => lhs; rw [lexStr.eq_def]); simp [he']
theorem lexStr_esc_dq (e : Char) (he : e ≠ '\\') (cs : List Char) :
    lexStr e ('\\' :: '"' :: cs) = (lexStr e cs).push '"' := by
  have he' : ¬ ('\\' = e) := fun h => he h.symm
  (conv => lhs; rw [lexStr.eq_def]); simp [he']

theorem validScalar_lt (x : Nat) (h : x < 0xD800) : validScalar x = true := by
  simp [validScalar, h]

theorem lexStr_esc_x (e : Char) (he : e ≠ '\\') (h1 h2 : Char) (d1 d2 : Nat)
    (hd1 : toDigit h1 16 = some d1) (hd2 : toDigit h2 16 = some d2) (hl1 : d1 < 16) (hl2 : d2 < 16)
    (cs : List Char) :
    lexStr e ('\\' :: 'x' :: h1 :: h2 :: cs) = (lexStr e cs).push (Char.ofNat (d1 * 16 + d2)) := by
  have he' : ¬ ('\\' = e) := fun h => he h.symm
  (conv => lhs; rw [lexStr.eq_def])
  simp [he', hd1, hd2, validScalar_lt (d1 * 16 + d2) (by omega)]

/-! the `\u` accumulator -/
theorem satStep_min (X d : Nat) (hd : d < 16) : satStep (min X U32_MAX) d = min (X * 16 + d) U32_MAX := by
  unfold satStep U32_MAX
  omega

theorem hexAccSat_min (X : Nat) (cs : List Char) :
    hexAccSat (min X U32_MAX) cs = min (foldDigits 16 X cs) U32_MAX := by
  induction cs generalizing X with
  | nil => rfl
  | cons c cs ih =>
    simp only [hexAccSat, foldDigits]
    have hd : (toDigit c 16).getD 0 < 16 := by
      cases h : toDigit c 16 with
      | none => simp
      | some d =>
        simp
        unfold toDigit at h
        simp only at h
        repeat' split at h
        all_goals first | (simp at h; omega) | simp at h
    rw [satStep_min _ _ hd, ih, Nat.mul_comm]

theorem hexAccSat_zero (cs : List Char) : hexAccSat 0 cs = min (foldDigits 16 0 cs) U32_MAX := by
  have := hexAccSat_min 0 cs
  simpa [U32_MAX] using this

theorem validScalar_min (v : Nat) : validScalar (min v U32_MAX) = validScalar v := by
  unfold validScalar U32_MAX
  by_cases h : v ≤ 4294967295
  · rw [Nat.min_eq_left h]
  · have h1 : min v 4294967295 = 4294967295 := by omega
    rw [h1]
    have : ¬ v < 55296 := by omega
    have : ¬ v ≤ 1114111 := by omega
    simp [*]

theorem min_eq_of_valid (v : Nat) (h : validScalar v = true) : min v U32_MAX = v := by
  unfold validScalar at h
  unfold U32_MAX
  simp at h
  omega




theorem isHexDigit_char (d : HexDigit) (h : d.val < 16) : isHexDigit d.char = true := by
  simp [isHexDigit, HexDigit.char, toDigit_digitChar d.upper d.val 16 h (by omega)]

theorem toDigit_hexChar (d : HexDigit) (h : d.val < 16) : toDigit d.char 16 = some d.val := by
  simp [HexDigit.char, toDigit_digitChar d.upper d.val 16 h (by omega)]

theorem foldDigits_hex (ds : List HexDigit) (x : Nat) (h : ∀ d ∈ ds, d.val < 16) :
    foldDigits 16 x (ds.map HexDigit.char) = horner 16 x (ds.map HexDigit.val) := by
  induction ds generalizing x with
  | nil => rfl
  | cons d ds ih =>
    have hd : d.val < 16 := h d (by simp)
    simp only [List.map_cons, foldDigits, toDigit_hexChar d hd, Option.getD_some]
    rw [ih _ (fun d' hd' => h d' (by simp [hd']))]
    rfl

theorem hexChars_all (ds : List HexDigit) (h : ∀ d ∈ ds, d.val < 16) :
    ∀ c ∈ ds.map HexDigit.char, isHexDigit c = true := by
  intro c hc
  rcases List.mem_map.mp hc with ⟨d, hd, rfl⟩
  exact isHexDigit_char d (h d hd)

/-- the three quantities the `\u` arm computes, on a hex digit run followed by a stopper -/
theorem u_parts_nobracket (ds : List HexDigit) (h : ∀ d ∈ ds, d.val < 16) (hne : ds ≠ [])
    (next : List Char) (hstop : Stops isHexDigit next) :
    uExpected (ds.map HexDigit.char ++ next) = none ∧
    uValue (ds.map HexDigit.char ++ next) = min (ofDigits 16 (ds.map HexDigit.val)) U32_MAX ∧
    uAfter (ds.map HexDigit.char ++ next) = next := by
  obtain ⟨d, ds', rfl⟩ := List.exists_cons_of_ne_nil hne
  have hd : isHexDigit d.char = true := isHexDigit_char d (h d (by simp))
  have hub : uBracket ((d :: ds').map HexDigit.char ++ next) = (none, (d :: ds').map HexDigit.char ++ next) := by
    simp only [List.map_cons, List.cons_append]
    unfold uBracket
    split
    all_goals first
      | rfl
      | (exfalso; rename_i heq; simp at heq; rw [heq.1] at hd; revert hd; decide)
  have hall := hexChars_all (d :: ds') h
  refine ⟨by rw [uExpected, hub], ?_, ?_⟩
  · simp only [uValue, hub]
    rw [takeWhile_run _ _ _ hall hstop, hexAccSat_zero, foldDigits_hex _ _ h, ofDigits_eq_horner]
  · simp only [uAfter, hub]
    rw [dropWhile_run _ _ _ hall hstop]

theorem u_parts_bracket (o c : Char) (hub : ∀ r, uBracket (o :: r) = (some c, r)) (hc : isHexDigit c = false)
    (ds : List HexDigit) (h : ∀ d ∈ ds, d.val < 16) (rest : List Char) :
    uExpected (o :: (ds.map HexDigit.char ++ c :: rest)) = some c ∧
    uValue (o :: (ds.map HexDigit.char ++ c :: rest)) = min (ofDigits 16 (ds.map HexDigit.val)) U32_MAX ∧
    uAfter (o :: (ds.map HexDigit.char ++ c :: rest)) = c :: rest := by
  have hall := hexChars_all ds h
  have hstop : Stops isHexDigit (c :: rest) := stops_cons _ _ _ hc
  refine ⟨by simp [uExpected, hub], ?_, ?_⟩
  · simp only [uValue, hub]
    rw [takeWhile_run _ _ _ hall hstop, hexAccSat_zero, foldDigits_hex _ _ h, ofDigits_eq_horner]
  · simp only [uAfter, hub]
    rw [dropWhile_run _ _ _ hall hstop]

theorem isScalar_eq_validScalar (v : Nat) : isScalar v = validScalar v := rfl

theorem lexStr_u_none (e : Char) (he : e ≠ '\\') (cs1 : List Char) (hx : uExpected cs1 = none) :
    lexStr e ('\\' :: 'u' :: cs1) =
      if validScalar (uValue cs1) then (lexStr e (uAfter cs1)).push (Char.ofNat (uValue cs1))
      else strFail .uTooBig (uAfter cs1) := by
  have he' : ¬ ('\\' = e) := fun h => he h.symm
  (conv => lhs; rw [lexStr.eq_def])
  simp only [he', if_false, if_true]
  simp
  split
  · rename_i heq; rw [hx] at heq; cases heq
  · rfl

theorem lexStr_u_some (e : Char) (he : e ≠ '\\') (cs1 : List Char) (close : Char) (cs3 : List Char)
    (hx : uExpected cs1 = some close) (ha : uAfter cs1 = close :: cs3) :
    lexStr e ('\\' :: 'u' :: cs1) =
      if validScalar (uValue cs1) then (lexStr e cs3).push (Char.ofNat (uValue cs1))
      else strFail .uTooBig cs3 := by
  have he' : ¬ ('\\' = e) := fun h => he h.symm
  (conv => lhs; rw [lexStr.eq_def])
  simp only [he', if_false, if_true]
  simp
  split
  · rename_i cl heq
    rw [hx] at heq
    cases heq
    split
    · rename_i h0; rw [ha] at h0; cases h0
    · rename_i c2 cs3' h0
      rw [ha] at h0
      cases h0
      simp
  · rename_i heq; rw [hx] at heq; cases heq



end Noulith.C15
