/-
C01 helper lemmas, part 3: what each primitive heap operation does to counts, payloads and the
invariant; the transition bundle `Tr`; `dup`, `bumpAll`, `alloc`, `dropVal`, `makeMut`.
-/
import NoulithModel.Lemmas.HeapRep

namespace Noulith.RcHeap
open Noulith.Store (Tree)

/-! ### setRc / setPayload -/

@[simp] theorem setRc_length (h : Heap) (id n : Nat) : (setRc h id n).allocs.length = h.allocs.length := by
  simp [setRc]
@[simp] theorem setPayload_length (h : Heap) (id : Nat) (p : List Val) :
    (setPayload h id p).allocs.length = h.allocs.length := by simp [setPayload]
@[simp] theorem setRc_copied (h : Heap) (id n : Nat) : (setRc h id n).copied = h.copied := rfl
@[simp] theorem setPayload_copied (h : Heap) (id : Nat) (p : List Val) : (setPayload h id p).copied = h.copied := rfl

theorem rcOf_setRc (h : Heap) (id i n : Nat) :
    rcOf (setRc h id n) i = if i = id ∧ id < h.allocs.length then n else rcOf h i := by
  simp [setRc, rcOf_setAlloc]

theorem payloadOf_setRc (h : Heap) (id i n : Nat) : payloadOf (setRc h id n) i = payloadOf h i := by
  simp only [setRc, payloadOf_setAlloc]
  split
  · rename_i hc; rw [hc.1]
  · rfl

theorem pocc_setRc (h : Heap) (id i n : Nat) : pocc i (setRc h id n) = pocc i h := by
  rcases Nat.lt_or_ge id h.allocs.length with hl | hl
  · have := pocc_setAlloc h id i ⟨payloadOf h id, n, keysOf h id⟩ hl
    simp only [setRc]; simp at this; omega
  · exact pocc_setAlloc_ge h id i _ hl

theorem rcOf_setPayload (h : Heap) (id i : Nat) (p : List Val) : rcOf (setPayload h id p) i = rcOf h i := by
  simp only [setPayload, rcOf_setAlloc]
  split
  · rename_i hc; rw [hc.1]
  · rfl

theorem payloadOf_setPayload (h : Heap) (id i : Nat) (p : List Val) :
    payloadOf (setPayload h id p) i = if i = id ∧ id < h.allocs.length then p else payloadOf h i := by
  simp [setPayload, payloadOf_setAlloc]

theorem pocc_setPayload (h : Heap) (id i : Nat) (p : List Val) (hl : id < h.allocs.length) :
    pocc i (setPayload h id p) + occ i (payloadOf h id) = pocc i h + occ i p := by
  simpa [setPayload] using pocc_setAlloc h id i ⟨p, rcOf h id, keysOf h id⟩ hl

theorem keysOf_setRc (h : Heap) (id i n : Nat) : keysOf (setRc h id n) i = keysOf h i := by
  simp only [setRc, keysOf_setAlloc]
  split
  · rename_i hc; rw [hc.1]
  · rfl

theorem keysOf_setPayload (h : Heap) (id i : Nat) (p : List Val) : keysOf (setPayload h id p) i = keysOf h i := by
  simp only [setPayload, keysOf_setAlloc]
  split
  · rename_i hc; rw [hc.1]
  · rfl

@[simp] theorem setEntries_length (h : Heap) (id : Nat) (p : List Val) (ks : List Int) :
    (setEntries h id p ks).allocs.length = h.allocs.length := by simp [setEntries]
@[simp] theorem setEntries_copied (h : Heap) (id : Nat) (p : List Val) (ks : List Int) :
    (setEntries h id p ks).copied = h.copied := rfl
theorem rcOf_setEntries (h : Heap) (id i : Nat) (p : List Val) (ks : List Int) :
    rcOf (setEntries h id p ks) i = rcOf h i := by
  simp only [setEntries, rcOf_setAlloc]
  split
  · rename_i hc; rw [hc.1]
  · rfl
theorem payloadOf_setEntries (h : Heap) (id i : Nat) (p : List Val) (ks : List Int) :
    payloadOf (setEntries h id p ks) i = if i = id ∧ id < h.allocs.length then p else payloadOf h i := by
  simp [setEntries, payloadOf_setAlloc]
theorem keysOf_setEntries (h : Heap) (id i : Nat) (p : List Val) (ks : List Int) :
    keysOf (setEntries h id p ks) i = if i = id ∧ id < h.allocs.length then some ks else keysOf h i := by
  simp [setEntries, keysOf_setAlloc]
theorem pocc_setEntries (h : Heap) (id i : Nat) (p : List Val) (ks : List Int) (hl : id < h.allocs.length) :
    pocc i (setEntries h id p ks) + occ i (payloadOf h id) = pocc i h + occ i p := by
  simpa [setEntries] using pocc_setAlloc h id i ⟨p, rcOf h id, some ks⟩ hl

theorem PayloadExt.setRc (h : Heap) (id n : Nat) : PayloadExt h (setRc h id n) :=
  ⟨by simp, fun i _ => payloadOf_setRc h id i n, fun i _ => keysOf_setRc h id i n⟩

/-! ### dup / bumpAll -/

theorem dup_length (h : Heap) (v : Val) : (dup h v).allocs.length = h.allocs.length := by
  cases v <;> simp [dup]

theorem payloadOf_dup (h : Heap) (v : Val) (i : Nat) : payloadOf (dup h v) i = payloadOf h i := by
  cases v <;> simp [dup, payloadOf_setRc]

theorem keysOf_dup (h : Heap) (v : Val) (i : Nat) : keysOf (dup h v) i = keysOf h i := by
  cases v <;> simp [dup, keysOf_setRc]

theorem pocc_dup (h : Heap) (v : Val) (i : Nat) : pocc i (dup h v) = pocc i h := by
  cases v <;> simp [dup, pocc_setRc]

theorem dup_copied (h : Heap) (v : Val) : (dup h v).copied = h.copied := by
  cases v <;> simp [dup]

/-- a value whose handle (if any) points to an existing allocation -/
def Live (h : Heap) (v : Val) : Prop := ∀ id, v = .ref id → id < h.allocs.length

theorem rcOf_dup (h : Heap) (v : Val) (i : Nat) (hv : Live h v) :
    rcOf (dup h v) i = rcOf h i + occ i [v] := by
  cases v with
  | null => simp [dup]
  | int n => simp [dup]
  | ref id =>
    have hl := hv id rfl
    simp only [dup, rcOf_setRc, occ_cons_ref, occ_nil]
    by_cases hi : i = id
    · subst hi; simp [hl]
    · have : ¬ id = i := fun e => hi e.symm
      simp [hi, this]

theorem PayloadExt.dup (h : Heap) (v : Val) : PayloadExt h (dup h v) :=
  ⟨by simp [dup_length], fun i _ => payloadOf_dup h v i, fun i _ => keysOf_dup h v i⟩

theorem Live.ext {h h' : Heap} {v : Val} (hv : Live h v) (hl : h.allocs.length ≤ h'.allocs.length) : Live h' v :=
  fun id e => Nat.lt_of_lt_of_le (hv id e) hl

theorem bumpAll_length (h : Heap) (p : List Val) : (bumpAll h p).allocs.length = h.allocs.length := by
  induction p generalizing h with
  | nil => rfl
  | cons v vs ih => simp [bumpAll, List.foldl_cons] at ih ⊢; rw [ih, dup_length]

theorem payloadOf_bumpAll (h : Heap) (p : List Val) (i : Nat) : payloadOf (bumpAll h p) i = payloadOf h i := by
  induction p generalizing h with
  | nil => rfl
  | cons v vs ih => simp [bumpAll, List.foldl_cons] at ih ⊢; rw [ih, payloadOf_dup]

theorem keysOf_bumpAll (h : Heap) (p : List Val) (i : Nat) : keysOf (bumpAll h p) i = keysOf h i := by
  induction p generalizing h with
  | nil => rfl
  | cons v vs ih => simp [bumpAll, List.foldl_cons] at ih ⊢; rw [ih, keysOf_dup]

theorem pocc_bumpAll (h : Heap) (p : List Val) (i : Nat) : pocc i (bumpAll h p) = pocc i h := by
  induction p generalizing h with
  | nil => rfl
  | cons v vs ih => simp [bumpAll, List.foldl_cons] at ih ⊢; rw [ih, pocc_dup]

theorem bumpAll_copied (h : Heap) (p : List Val) : (bumpAll h p).copied = h.copied := by
  induction p generalizing h with
  | nil => rfl
  | cons v vs ih => simp [bumpAll, List.foldl_cons] at ih ⊢; rw [ih, dup_copied]

theorem rcOf_bumpAll (h : Heap) (p : List Val) (i : Nat) (hp : ∀ v ∈ p, Live h v) :
    rcOf (bumpAll h p) i = rcOf h i + occ i p := by
  induction p generalizing h with
  | nil => simp [bumpAll]
  | cons v vs ih =>
    have hv : Live h v := hp v (by simp)
    have := ih (dup h v) (fun w hw => (hp w (by simp [hw])).ext (by simp [dup_length]))
    simp only [bumpAll, List.foldl_cons] at this ⊢
    rw [this, rcOf_dup h v i hv]
    simp [occ_cons]; omega

theorem PayloadExt.bumpAll (h : Heap) (p : List Val) : PayloadExt h (bumpAll h p) :=
  ⟨by simp [bumpAll_length], fun i _ => payloadOf_bumpAll h p i, fun i _ => keysOf_bumpAll h p i⟩

/-! ### consequences of the invariant -/

theorem Inv.congr {h : Heap} {T T' : List Val} (e : ∀ id, occ id T = occ id T') (i : Inv h T) : Inv h T' :=
  fun id => by rw [← e id]; exact i id

theorem Inv.weaken {h : Heap} {T T' : List Val} (e : ∀ id, occ id T' ≤ occ id T) (i : Inv h T) : Inv h T' :=
  fun id => Nat.le_trans (Nat.add_le_add_left (e id) _) (i id)

/-- a counted handle points to a live allocation -/
theorem Inv.live_of_mem {h : Heap} {T : List Val} (i : Inv h T) {v : Val} (hv : v ∈ T) : Live h v := by
  intro id e; subst e
  have := i id
  have := occ_pos_of_mem hv
  exact lt_of_rcOf_pos (by omega)

theorem Inv.rc_pos_of_mem {h : Heap} {T : List Val} (i : Inv h T) {id : Nat} (hv : Val.ref id ∈ T) :
    0 < rcOf h id := by
  have := i id
  have := occ_pos_of_mem hv
  omega

theorem Inv.live_of_payload {h : Heap} {T : List Val} (i : Inv h T) {j : Nat} {v : Val}
    (hv : v ∈ payloadOf h j) : Live h v := by
  intro id e; subst e
  have h1 := i id
  have h2 : 0 < occ id (payloadOf h j) := occ_pos_of_mem hv
  have h3 := occ_payload_le_pocc h j id
  exact lt_of_rcOf_pos (by omega)

/-! ### the transition bundle -/

/-- `Tr h h' outs F`: a heap operation that consumed its owned inputs and now owns `outs`, run
next to a frame `F` of values owned by others, (1) re-establishes the count invariant, (2) leaves
every payload reachable from the frame alone, (3) leaves alone the count of every allocation all of
whose handles are in the frame. -/
structure Tr (h h' : Heap) (outs F : List Val) : Prop where
  inv : Inv h' (outs ++ F)
  stable : Stable h h' F
  tight : ∀ id, 0 < rcOf h id → rcOf h id ≤ occ id F → rcOf h' id = rcOf h id

theorem Tr.refl {h : Heap} {T F : List Val} (i : Inv h (T ++ F)) : Tr h h T F :=
  ⟨i, Stable.refl _ _, fun _ _ _ => rfl⟩

/-- sequential composition; the second step may run with a larger frame (values the first step
produced and the second does not touch) -/
theorem Tr.seq {h1 h2 h3 : Heap} {o1 o2 o3 F F2 : List Val} (a : Tr h1 h2 o1 F) (b : Tr h2 h3 o2 F2)
    (hsub : ∀ v, v ∈ F → v ∈ F2) (hocc : ∀ id, occ id F ≤ occ id F2)
    (hinv : Inv h3 (o3 ++ F)) : Tr h1 h3 o3 F := by
  refine ⟨hinv, a.stable.trans (b.stable.mono hsub), fun id hp hle => ?_⟩
  have e1 := a.tight id hp hle
  have := b.tight id (by omega) (by have := hocc id; omega)
  omega

theorem Tr.outs_congr {h h' : Heap} {o o' F : List Val} (a : Tr h h' o F)
    (e : ∀ id, occ id o' ≤ occ id o) : Tr h h' o' F :=
  ⟨a.inv.weaken (fun id => by simp only [occ_append]; have := e id; omega), a.stable, a.tight⟩

/-! ### dropping an owned value -/

theorem dropList_tr {f : Nat}
    (ih : ∀ (h : Heap) (v : Val) (F : List Val), Inv h (v :: F) → Tr h (dropVal f h v) [] F) :
    ∀ (p : List Val) (h : Heap) (F : List Val), Inv h (p ++ F) → Tr h (p.foldl (dropVal f) h) [] F := by
  intro p
  induction p with
  | nil => intro h F i; exact Tr.refl (by simpa using i)
  | cons v vs ihp =>
    intro h F i
    have t1 := ih h v (vs ++ F) (by simpa using i)
    have t2 := ihp (dropVal f h v) F (by simpa using t1.inv)
    simp only [List.foldl_cons]
    refine ⟨t2.inv, (t1.stable.mono (by intro w hw; simp [hw])).trans t2.stable, fun id hp hle => ?_⟩
    have e1 := t1.tight id hp (by simp only [occ_append]; omega)
    have := t2.tight id (by omega) (by omega)
    omega

theorem dropVal_tr : ∀ (f : Nat) (h : Heap) (v : Val) (F : List Val),
    Inv h (v :: F) → Tr h (dropVal f h v) [] F := by
  intro f
  induction f with
  | zero =>
    intro h v F i
    exact Tr.refl (i.weaken (fun id => by simp [occ_cons]))
  | succ f ih =>
    intro h v F i
    cases v with
    | null => exact Tr.refl (i.weaken (fun id => by simp))
    | int n => exact Tr.refl (i.weaken (fun id => by simp))
    | ref id =>
      have hid := i id
      simp only [occ_cons_ref, if_true] at hid
      simp only [dropVal]
      by_cases hrc : rcOf h id ≤ 1
      · -- last handle: free the allocation, drop its elements
        simp only [hrc, if_true]
        have hl : id < h.allocs.length := lt_of_rcOf_pos (by omega)
        have hpz : pocc id h = 0 := by omega
        have hfz : occ id F = 0 := by omega
        have i1 : Inv (setAlloc h id ⟨[], 0, none⟩) (payloadOf h id ++ F) := by
          intro j
          have hj := i j
          have hp := pocc_setAlloc h id j ⟨[], 0, none⟩ hl
          simp only [occ_nil, Nat.add_zero] at hp
          simp only [occ_append, rcOf_setAlloc, hl, and_true]
          simp only [occ_cons_ref] at hj
          by_cases e : j = id
          · subst e; simp; omega
          · have : ¬ id = j := fun x => e x.symm
            simp [e, this] at hj ⊢; omega
        have t := dropList_tr ih (payloadOf h id) _ F i1
        have s0 : Stable h (setAlloc h id ⟨[], 0, none⟩) F := Stable.setAlloc _ (not_reach_of_zero hpz hfz)
        refine ⟨t.inv, s0.trans t.stable, fun j hp hle => ?_⟩
        have hne : ¬ j = id := by intro e; subst e; omega
        have e0 : rcOf (setAlloc h id ⟨[], 0, none⟩) j = rcOf h j := by simp [rcOf_setAlloc, hne]
        have := t.tight j (by omega) (by omega)
        omega
      · simp only [hrc, if_false]
        have hl : id < h.allocs.length := lt_of_rcOf_pos (by omega)
        refine ⟨?_, (PayloadExt.setRc h id _).stable F, fun j hp hle => ?_⟩
        · intro j
          have hj := i j
          simp only [List.nil_append, pocc_setRc, rcOf_setRc, hl, and_true]
          simp only [occ_cons_ref] at hj
          by_cases e : j = id
          · subst e; simp at hj ⊢; omega
          · have : ¬ id = j := fun x => e x.symm
            simp [e, this] at hj ⊢; omega
        · have hne : ¬ j = id := by intro e; subst e; omega
          simp [rcOf_setRc, hne]

theorem drop_tr {h : Heap} {v : Val} {F : List Val} (i : Inv h (v :: F)) : Tr h (drop h v) [] F :=
  dropVal_tr _ h v F i

/-! ### make_mut -/

theorem rcOf_push (h : Heap) (a : Alloc) (c p i : Nat) :
    rcOf ⟨h.allocs ++ [a], c, p⟩ i = if i = h.allocs.length then a.rc else rcOf h i := by
  unfold rcOf
  simp only [List.getElem?_append]
  by_cases hl : i < h.allocs.length
  · have : ¬ i = h.allocs.length := by omega
    simp [hl, this]
  · by_cases he : i = h.allocs.length
    · subst he; simp
    · have h2 : ¬ i - h.allocs.length = 0 := by omega
      have h3 : h.allocs.length ≤ i := by omega
      simp [hl, he]
      cases hh : i - h.allocs.length with
      | zero => omega
      | succ n => simp

theorem payloadOf_push (h : Heap) (a : Alloc) (c p i : Nat) :
    payloadOf ⟨h.allocs ++ [a], c, p⟩ i = if i = h.allocs.length then a.payload else payloadOf h i := by
  unfold payloadOf
  simp only [List.getElem?_append]
  by_cases hl : i < h.allocs.length
  · have : ¬ i = h.allocs.length := by omega
    simp [hl, this]
  · by_cases he : i = h.allocs.length
    · subst he; simp
    · have h3 : h.allocs.length ≤ i := by omega
      simp [hl, he]
      cases hh : i - h.allocs.length with
      | zero => omega
      | succ n => simp

theorem keysOf_push (h : Heap) (a : Alloc) (c p i : Nat) :
    keysOf ⟨h.allocs ++ [a], c, p⟩ i = if i = h.allocs.length then a.keys else keysOf h i := by
  unfold keysOf
  simp only [List.getElem?_append]
  by_cases hl : i < h.allocs.length
  · have : ¬ i = h.allocs.length := by omega
    simp [hl, this]
  · by_cases he : i = h.allocs.length
    · subst he; simp
    · have h3 : h.allocs.length ≤ i := by omega
      simp [hl, he]
      cases hh : i - h.allocs.length with
      | zero => omega
      | succ n => simp

theorem PayloadExt.push (h : Heap) (a : Alloc) (c p : Nat) : PayloadExt h ⟨h.allocs ++ [a], c, p⟩ :=
  ⟨by simp, fun i hl => by rw [payloadOf_push]; simp [Nat.ne_of_lt hl],
   fun i hl => by rw [keysOf_push]; simp [Nat.ne_of_lt hl]⟩

/-- facts about `Rc::make_mut` on an owned handle -/
structure MakeMutSpec (h : Heap) (id : Nat) (F : List Val) : Prop where
  tr : Tr h (makeMut h id).1 [.ref (makeMut h id).2] F
  ext : PayloadExt h (makeMut h id).1
  rc1 : rcOf (makeMut h id).1 (makeMut h id).2 = 1
  pay : payloadOf (makeMut h id).1 (makeMut h id).2 = payloadOf h id
  keys : keysOf (makeMut h id).1 (makeMut h id).2 = keysOf h id
  lt : (makeMut h id).2 < (makeMut h id).1.allocs.length
  /-- C02: nothing is copied when the count is 1 -/
  nocopy : rcOf h id = 1 → makeMut h id = (h, id)

theorem makeMut_spec {h : Heap} {id : Nat} {F : List Val} (i : Inv h (.ref id :: F)) : MakeMutSpec h id F := by
  have hid := i id
  simp only [occ_cons_ref, if_true] at hid
  have hl : id < h.allocs.length := lt_of_rcOf_pos (by omega)
  by_cases hrc : rcOf h id ≤ 1
  · have e : makeMut h id = (h, id) := by simp [makeMut, hrc]
    refine ⟨?_, ?_, ?_, ?_, ?_, ?_, fun _ => e⟩ <;> rw [e]
    · exact Tr.refl (by simpa using i)
    · exact PayloadExt.refl h
    · simp; omega
    · exact hl
  · -- shared: copy
    have hp : ∀ v ∈ payloadOf h id, Live (setRc h id (rcOf h id - 1)) v := fun v hv =>
      (i.live_of_payload hv).ext (by simp)
    have e : makeMut h id =
        (⟨(bumpAll (setRc h id (rcOf h id - 1)) (payloadOf h id)).allocs ++ [⟨payloadOf h id, 1, keysOf h id⟩],
          (bumpAll (setRc h id (rcOf h id - 1)) (payloadOf h id)).copied + (payloadOf h id).length,
          (bumpAll (setRc h id (rcOf h id - 1)) (payloadOf h id)).pushes⟩, h.allocs.length) := by
      simp [makeMut, hrc]
    have hlen : (bumpAll (setRc h id (rcOf h id - 1)) (payloadOf h id)).allocs.length = h.allocs.length := by
      simp [bumpAll_length]
    have ext : PayloadExt h (makeMut h id).1 := by
      rw [e]
      exact ((PayloadExt.setRc h id _).trans (PayloadExt.bumpAll _ _)).trans (PayloadExt.push _ _ _ _)
    have hrcs : ∀ j, rcOf (makeMut h id).1 j =
        if j = h.allocs.length then 1
        else (if j = id then rcOf h id - 1 else rcOf h j) + occ j (payloadOf h id) := by
      intro j
      rw [e]
      simp only [rcOf_push, hlen]
      by_cases hj : j = h.allocs.length
      · simp [hj]
      · simp only [hj, if_false]
        rw [rcOf_bumpAll _ _ _ hp, rcOf_setRc]
        simp [hl]
    have hpocc : ∀ j, pocc j (makeMut h id).1 = pocc j h + occ j (payloadOf h id) := by
      intro j
      rw [e]
      simp only [pocc_push, pocc_bumpAll, pocc_setRc]
    have hfresh : ∀ T, Inv h T → pocc h.allocs.length h = 0 ∧ occ h.allocs.length T = 0 := by
      intro T iT
      have := iT h.allocs.length
      rw [rcOf_eq_zero_of_ge (Nat.le_refl _)] at this
      omega
    have hf := hfresh _ i
    refine ⟨⟨?_, ext.stable F, fun j hpj hle => ?_⟩, ext, ?_, ?_, ?_, ?_, fun h1 => by omega⟩
    · intro j
      have hj := i j
      have hpl := occ_payload_le_pocc h id j
      rw [hpocc, hrcs]
      simp only [e, occ_append, occ_cons_ref, occ_nil] at hj ⊢
      by_cases e1 : j = h.allocs.length
      · subst e1
        simp only [if_true]
        have := hf.1; have := hf.2
        simp only [occ_cons_ref] at this
        omega
      · have e1' : ¬ h.allocs.length = j := fun x => e1 x.symm
        simp only [e1, e1', if_false]
        by_cases e2 : j = id
        · subst e2; simp at hj ⊢; omega
        · have : ¬ id = j := fun x => e2 x.symm
          simp [e2, this] at hj ⊢; omega
    · have hj := i j
      have hpl := occ_payload_le_pocc h id j
      simp only [occ_cons_ref] at hj
      rw [hrcs]
      have hjl : j < h.allocs.length := lt_of_rcOf_pos hpj
      have e1 : ¬ j = h.allocs.length := by omega
      have e2 : ¬ j = id := by intro x; subst x; simp at hj; omega
      have : ¬ id = j := fun x => e2 x.symm
      simp [e1, e2, this] at hj ⊢; omega
    · rw [hrcs]; simp [e]
    · rw [e]; simp only [payloadOf_push, hlen]; simp
    · rw [e]; simp only [keysOf_push, hlen]; simp
    · rw [e]; simp [hlen]

end Noulith.RcHeap
