/- Line-protocol handler for C12.

Requests (space separated tokens, no spaces inside a token):
  fresh  <K> <env> <val> <pat>            `assign` in a fresh child frame declaring with `anything`
                                          (catch clause / `for` binding);   ok <dump> | throw
  assign <K> <env> <val> <pat>            `assign(env, pat, None, val)` in the base frame (`pat = v`, and
                                          `pat := v` once the parser wrapped the items in annotations)
  switch <K> <env> <val> <pat> <pat> …    first arm that accepts;            ok <i>;<dump> | throw
  bind   <K> <env> <vals> <pat> …         lambda parameters against the argument list `[v,…]`
  hist   <K> <env> <stmt> …               statement history (see `NoulithModel.Impl.PatternStmt`)
  switchb <K> <env> <val> <body> <pat> <body> <pat> …   `switch` with arm bodies: body = letters `l` (append the
                                          arm's index to variable 7) and `t` (then `throw "boom"`) or `o` (then the value
                                          `[i, <dump>]`);   ok [[i,<dump>],<log>] | ok ["B",<log>] (the body's error) |
                                          ok ["N",<log>] (no case matched)
  for    <K> <env> <clause> … <bstmt> …   a `for` loop over `<-` / `<<-` clauses whose patterns hold
                                          unevaluated annotation / callee expressions (see
                                          `NoulithModel.Impl.PatternFor`); a raise is recorded by
                                          appending "raise" to variable 0;   ok <dump>
      clause = `Cn(<upat>;<iter>)` (`<-`) | `Ci(<upat>;<iter>)` (`<<-`);  iter = `c<val>` | `v<n>`
      upat   = `U` | `I<n>` | `A(<upat>,<pexpr>)` | `S(…)` | `L(…)` | `P(<upat>)` | `K(<pexpr>;<upat>,…)`
      pexpr  = `c<val>` | `v<n>` | `x<n>.<m>` (`xs[i]`) | `n<n>(<pexpr>)` (a call that increments variable n)
      bstmt  = a statement of `hist` | `Gl(<r>,<x>)` (`r append= x`) | `Gi(<r>,<x>,<pexpr>)` (`r append= (x is <pexpr>)`)
  istype <ty> <val>                       `v is T`                           ok 0|1 | throw
  conv   <ty> <val>                       `T(v)`: kind of the result and `T(v) is T`   ok <kind>;0|1 | throw
  typeof <val>                            name of `type(v)`

<dump> = `[v0,…]`: the values of the pool names 0..K-1 visible afterwards (`U` = unbound).
Values use the canonical text of `vharness::canon` plus `T:<type>` for type objects and `F<n>` for
function tokens (both are printed back as `<func>`).
Patterns: `U` | `I<n>` | `X<n>[ix,…]` (ix = value | `@lo:hi`) | `A(p)` | `A(p,v)` | `D(p,v)` | `S(p,…)` | `L(p,…)` | `P(p)` |
`O(a,b)` | `N(a,b)` | `V(v)` | `B<builtin>(p,…)` | `C<sid>(p,…)` | `H(p0;<builtin>,p1;…)` (an
unparenthesised operator chain, resolved by `LvalueChainEvaluator` on the Impl side and by the
expression grammar on the Spec side).
Response: `<impl>\t<spec>\t<diagnostics>`. -/
import NoulithModel.Spec.Match
import NoulithModel.Spec.TypedStore
import NoulithModel.Impl.PatternChain
import NoulithModel.Impl.PatternConv
import NoulithModel.Spec.MatchFor
import NoulithModel.Spec.MatchSwitch

namespace Noulith.DriverC12
open Noulith Noulith.C12

/-! ### rendering -/

def hex16 (n : Nat) : String :=
  String.ofList ((List.range 16).reverse.map fun i => hexDigitChar (n / 16 ^ i % 16))

def utf8Enc (c : Nat) : List Nat :=
  if c < 128 then [c]
  else if c < 2048 then [192 + c / 64, 128 + c % 64]
  else if c < 65536 then [224 + c / 4096, 128 + c / 64 % 64, 128 + c % 64]
  else [240 + c / 262144, 128 + c / 4096 % 64, 128 + c / 64 % 64, 128 + c % 64]

def renderF (b : Nat) : String :=
  match floatReal b with
  | .nan => "f:nan"
  | _ => "f:" ++ hex16 b

def renderFc (b : Nat) : String :=
  match floatReal b with
  | .nan => "nan"
  | _ => hex16 b

partial def renderVal : Val → String
  | .null => "null"
  | .int n => toString n
  | .rat q => s!"{q.num}/{q.den}"
  | .float b => renderF b
  | .complex r i => s!"c:{renderFc r}:{renderFc i}"
  | .str cs => "s:" ++ hexOfBytes (cs.flatMap utf8Enc)
  | .list xs => "[" ++ joinWith "," (xs.map renderVal) ++ "]"
  | .dict ks vs =>
    let items := (ks.zip vs).map fun (k, v) => (renderVal k, renderVal v)
    let sorted := items.toArray.qsort (fun a b => a.1 < b.1 || (a.1 == b.1 && a.2 < b.2)) |>.toList
    "{" ++ joinWith "," (sorted.map fun (k, v) => k ++ ":" ++ v) ++ "}"
  | .vector xs => "v[" ++ joinWith "," (xs.map renderVal) ++ "]"
  | .bytes bs => "b:" ++ hexOfBytes bs
  | .stream xs => "stream[" ++ joinWith "," (xs.map renderVal) ++ "]"
  | .streamInf => "stream-inf"
  | .func _ => "<func>"
  | .type _ => "<func>"
  | .inst sid fs => s!"inst:S{sid}(" ++ joinWith "," (fs.map renderVal) ++ ")"

def tyName : Ty → String
  | .null => "nulltype" | .int => "int" | .rational => "rational" | .float => "float"
  | .complex => "complex" | .number => "number" | .string => "str" | .list => "list"
  | .dict => "dict" | .vector => "vector" | .bytes => "bytes" | .stream => "stream"
  | .func => "func" | .type => "type" | .any => "anything" | .structInstance => "struct_instance"
  | .struct s => s!"S{s}" | .satisfying p => s!"sat{p}"

/-! ### parsing -/

abbrev P (α : Type) := List Char → Option (α × List Char)

def pNat : P Nat := fun cs =>
  let ds := cs.takeWhile Char.isDigit
  if ds.isEmpty then none else some ((String.ofList ds).toNat!, cs.drop ds.length)

def pLit (s : String) : P Unit := fun cs =>
  let l := s.toList
  if cs.take l.length == l then some ((), cs.drop l.length) else none

def pHexRun : P (List Nat) := fun cs =>
  let ds := cs.takeWhile fun c => (hexDigitVal c).isSome
  match unhexChars ds with
  | some bs => some (bs, cs.drop ds.length)
  | none => none

def utf8Dec : List Nat → List Nat
  | [] => []
  | b :: rest =>
    if b < 128 then b :: utf8Dec rest
    else if b < 224 then
      match rest with
      | b1 :: r => ((b - 192) * 64 + (b1 - 128)) :: utf8Dec r
      | _ => []
    else if b < 240 then
      match rest with
      | b1 :: b2 :: r => ((b - 224) * 4096 + (b1 - 128) * 64 + (b2 - 128)) :: utf8Dec r
      | _ => []
    else
      match rest with
      | b1 :: b2 :: b3 :: r => ((b - 240) * 262144 + (b1 - 128) * 4096 + (b2 - 128) * 64 + (b3 - 128)) :: utf8Dec r
      | _ => []

def parseTyName (s : String) : Option Ty :=
  match s with
  | "nulltype" => some .null | "int" => some .int | "rational" => some .rational
  | "float" => some .float | "complex" => some .complex | "number" => some .number
  | "str" => some .string | "list" => some .list | "dict" => some .dict | "vector" => some .vector
  | "bytes" => some .bytes | "stream" => some .stream | "func" => some .func | "type" => some .type
  | "anything" => some .any | "struct_instance" => some .structInstance
  | _ =>
    if s.startsWith "sat" then (s.drop 3).toString.toNat?.map Ty.satisfying
    else if s.startsWith "S" then (s.drop 1).toString.toNat?.map Ty.struct
    else none

def pTy : P Ty := fun cs =>
  let ds := cs.takeWhile fun c => c.isAlphanum || c == '_'
  match parseTyName (String.ofList ds) with
  | some t => some (t, cs.drop ds.length)
  | none => none

def hexNat (bs : List Nat) : Nat := bs.foldl (fun a b => a * 256 + b) 0

def pFloatBits : P Nat := fun cs =>
  if cs.take 3 == "nan".toList then some (0x7ff8000000000000, cs.drop 3)
  else match pHexRun cs with
    | some (bs, r) => if bs.length == 8 then some (hexNat bs, r) else none
    | none => none

mutual
partial def pVal : P Val := fun cs =>
  match cs with
  | 'n' :: 'u' :: 'l' :: 'l' :: r => some (.null, r)
  | 'f' :: ':' :: r => (pFloatBits r).map fun (b, r) => (.float b, r)
  | 'c' :: ':' :: r =>
    match pFloatBits r with
    | some (re, ':' :: r2) => (pFloatBits r2).map fun (im, r3) => (.complex re im, r3)
    | _ => none
  | 's' :: 't' :: 'r' :: 'e' :: 'a' :: 'm' :: '-' :: 'i' :: 'n' :: 'f' :: r => some (.streamInf, r)
  | 's' :: 't' :: 'r' :: 'e' :: 'a' :: 'm' :: '[' :: r => (pVals ']' r).map fun (xs, r) => (.stream xs, r)
  | 's' :: ':' :: r => (pHexRun r).map fun (bs, r) => (.str (utf8Dec bs), r)
  | 'b' :: ':' :: r => (pHexRun r).map fun (bs, r) => (.bytes bs, r)
  | '[' :: r => (pVals ']' r).map fun (xs, r) => (.list xs, r)
  | 'v' :: '[' :: r => (pVals ']' r).map fun (xs, r) => (.vector xs, r)
  | '{' :: r => (pPairs r).map fun ((ks, vs), r) => (.dict ks vs, r)
  | 'T' :: ':' :: r => (pTy r).map fun (t, r) => (.type t, r)
  | 'F' :: r => (pNat r).map fun (n, r) => (.func n, r)
  | '<' :: 'f' :: 'u' :: 'n' :: 'c' :: '>' :: r => some (.func 0, r)
  | 'i' :: 'n' :: 's' :: 't' :: ':' :: 'S' :: r =>
    match pNat r with
    | some (sid, '(' :: r2) => (pVals ')' r2).map fun (xs, r) => (.inst sid xs, r)
    | _ => none
  | _ =>
    -- integer or rational
    let (neg, r) := match cs with
      | '-' :: r => (true, r)
      | _ => (false, cs)
    match pNat r with
    | some (n, '/' :: r2) =>
      (match pNat r2 with
       | some (d, r3) => some (.rat (mkRat (if neg then -(n : Int) else n) d), r3)
       | none => none)
    | some (n, r2) => some (.int (if neg then -(n : Int) else n), r2)
    | none => none
partial def pVals (close : Char) : P (List Val) := fun cs =>
  match cs with
  | c :: r => if c == close then some ([], r) else
    match pVal cs with
    | some (v, ',' :: r2) => (pVals close r2).map fun (vs, r3) => (v :: vs, r3)
    | some (v, c2 :: r2) => if c2 == close then some ([v], r2) else none
    | _ => none
  | [] => none
partial def pPairs : P (List Val × List Val) := fun cs =>
  match cs with
  | '}' :: r => some (([], []), r)
  | _ =>
    match pVal cs with
    | some (k, ':' :: r) =>
      (match pVal r with
       | some (v, ',' :: r2) => (pPairs r2).map fun ((ks, vs), r3) => ((k :: ks, v :: vs), r3)
       | some (v, '}' :: r2) => some (([k], [v]), r2)
       | _ => none)
    | _ => none
end

def parseCmp (s : String) : Option CmpOp :=
  match s with
  | "lt" => some .lt | "le" => some .le | "gt" => some .gt | "ge" => some .ge
  | "eq" => some .eq | "ne" => some .ne | _ => none

def parseBi (s : String) : Option Bi :=
  match s with
  | "plus" => some .plus | "minus" => some .minus | "times" => some .times
  | "divide" => some .divide | "append" => some .append | "prepend" => some .prepend
  | _ =>
    if s.startsWith "cmp" then
      ((s.drop 3).toString.splitOn ":" |>.filter (· ≠ "")).mapM parseCmp |>.map Bi.cmp
    else if s.startsWith "other" then some (.other ((s.drop 5).toString.toNat?.getD 0))
    else none

/-- an index-path entry: a value, or a slice `@<lo>:<hi>` (either bound may be empty) -/
def pIx : P Ix := fun cs =>
  match cs with
  | '@' :: r =>
    let (lo, r1) : Option Val × List Char := match r with
      | ':' :: _ => (none, r)
      | _ => match pVal r with
        | some (v, r') => (some v, r')
        | none => (none, r)
    match r1 with
    | ':' :: r2 =>
      (match r2 with
       | ',' :: _ => some (.slice lo none, r2)
       | ']' :: _ => some (.slice lo none, r2)
       | _ => (pVal r2).map fun (v, r3) => (.slice lo (some v), r3))
    | _ => none
  | _ => (pVal cs).map fun (v, r) => (.idx v, r)

partial def pIxs : P (List Ix) := fun cs =>
  match cs with
  | ']' :: r => some ([], r)
  | _ =>
    match pIx cs with
    | some (i, ',' :: r) => (pIxs r).map fun (is, r2) => (i :: is, r2)
    | some (i, ']' :: r) => some ([i], r)
    | _ => none

mutual
partial def pPat (sp : Bool) : P Pat := fun cs =>
  match cs with
  | 'U' :: r => some (.underscore, r)
  | 'I' :: r => (pNat r).map fun (n, r) => (.ident n [], r)
  | 'X' :: r =>
    match pNat r with
    | some (n, '[' :: r2) => (pIxs r2).map fun (ixs, r3) => (.ident n ixs, r3)
    | _ => none
  | 'A' :: '(' :: r =>
    match pPat sp r with
    | some (p, ')' :: r2) => some (.anno p none, r2)
    | some (p, ',' :: r2) =>
      (match pVal r2 with
       | some (v, ')' :: r3) => some (.anno p (some v), r3)
       | _ => none)
    | _ => none
  | 'D' :: '(' :: r =>
    match pPat sp r with
    | some (p, ',' :: r2) =>
      (match pVal r2 with
       | some (v, ')' :: r3) => some (.withDefault p v, r3)
       | _ => none)
    | _ => none
  | 'S' :: '(' :: r => (pPats sp r).map fun (ps, r) => (.seq ps false, r)
  | 'L' :: '(' :: r => (pPats sp r).map fun (ps, r) => (.seq ps true, r)
  | 'P' :: '(' :: r =>
    match pPat sp r with
    | some (p, ')' :: r2) => some (.splat p, r2)
    | _ => none
  | 'O' :: '(' :: r =>
    match pPat sp r with
    | some (a, ',' :: r2) =>
      (match pPat sp r2 with
       | some (b, ')' :: r3) => some (.or a b, r3)
       | _ => none)
    | _ => none
  | 'N' :: '(' :: r =>
    match pPat sp r with
    | some (a, ',' :: r2) =>
      (match pPat sp r2 with
       | some (b, ')' :: r3) => some (.and a b, r3)
       | _ => none)
    | _ => none
  | 'V' :: '(' :: r =>
    match pVal r with
    | some (v, ')' :: r2) => some (.lit v, r2)
    | _ => none
  | 'B' :: r =>
    let name := r.takeWhile (· != '(')
    match parseBi (String.ofList name), r.drop name.length with
    | some b, '(' :: r2 => (pPats sp r2).map fun (ps, r3) => (.destr b ps, r3)
    | _, _ => none
  | 'H' :: '(' :: r =>
    -- an unparenthesised operator chain `p0 f1 p1 f2 p2 …`: the Impl side resolves it with the
    -- transcription of `LvalueChainEvaluator`, the Spec side with the expression grammar
    match pPat sp r with
    | some (first, r1) =>
      (match pChainOps sp r1 with
       | some (ops, r2) =>
         (match (if sp then specResolveChain first ops else resolveChain first ops) with
          | .ok p => some (p, r2)
          | _ => none)
       | none => none)
    | none => none
  | 'C' :: r =>
    match pNat r with
    | some (sid, '(' :: r2) => (pPats sp r2).map fun (ps, r3) => (.destrStruct sid ps, r3)
    | _ => none
  | _ => none
partial def pChainOps (sp : Bool) : P (List (Bi × Pat)) := fun cs =>
  match cs with
  | ')' :: r => some ([], r)
  | ';' :: r =>
    let name := r.takeWhile (· != ',')
    match parseBi (String.ofList name), r.drop name.length with
    | some b, ',' :: r2 =>
      (match pPat sp r2 with
       | some (p, r3) => (pChainOps sp r3).map fun (ops, r4) => ((b, p) :: ops, r4)
       | none => none)
    | _, _ => none
  | _ => none
partial def pPats (sp : Bool) : P (List Pat) := fun cs =>
  match cs with
  | ')' :: r => some ([], r)
  | _ =>
    match pPat sp cs with
    | some (p, ',' :: r) => (pPats sp r).map fun (ps, r2) => (p :: ps, r2)
    | some (p, ')' :: r) => some ([p], r)
    | _ => none
end

def parseOp (s : String) : Option Op :=
  match s with
  | "plus" => some .plus | "minus" => some .minus | "times" => some .times
  | "floordiv" => some .floorDiv | "append" => some .append | "prepend" => some .prepend
  | "concat" => some .concat | _ => none

/-- `Sa(pat,val)` | `Se(pat,val)` | `So<op>(pat,val)` | `Sm<op>(pat,val)` | `Sw(pat,pat)` -/
def pStmt (sp : Bool) : P Stmt := fun cs =>
  match cs with
  | 'S' :: 'w' :: '(' :: r =>
    match pPat sp r with
    | some (a, ',' :: r2) =>
      (match pPat sp r2 with
       | some (b, ')' :: r3) => some (.swap a b, r3)
       | _ => none)
    | _ => none
  | 'S' :: k :: r =>
    let name := r.takeWhile (· != '(')
    match r.drop name.length with
    | '(' :: r1 =>
      match pPat sp r1 with
      | some (p, ',' :: r2) =>
        (match pVal r2 with
         | some (v, ')' :: r3) =>
           (match k, parseOp (String.ofList name) with
            | 'a', _ => some (.assign p v, r3)
            | 'e', _ => some (.assignEvery p v, r3)
            | 'o', some op => some (.opAssign p op v, r3)
            | 'm', some op => some (.opAssignEvery p op v, r3)
            | _, _ => none)
         | _ => none)
      | _ => none
    | _ => none
  | _ => none

def full {α} (p : P α) (s : String) : Option α :=
  match p s.toList with
  | some (a, []) => some a
  | _ => none

/-- `E(n,ty,val;n,ty,val;…)` -/
partial def pCells : P (List Cell) := fun cs =>
  match cs with
  | ')' :: r => some ([], r)
  | _ =>
    match pNat cs with
    | some (n, ',' :: r) =>
      (match pTy r with
       | some (t, ',' :: r2) =>
         (match pVal r2 with
          | some (v, ';' :: r3) => (pCells r3).map fun (cells, r4) => ({ name := n, ty := t, val := v } :: cells, r4)
          | some (v, ')' :: r3) => some ([{ name := n, ty := t, val := v }], r3)
          | _ => none)
       | _ => none)
    | _ => none

def parseEnv (s : String) : Option Env :=
  match s.toList with
  | 'E' :: '(' :: r =>
    match pCells r with
    | some (cells, []) => some [cells]
    | _ => none
  | _ => none

def tab : String := "\t"

/-! ### what the model does not cover

The arithmetic patterns `+` and `*` are modelled on exact numbers (ints, rationals).  A request
whose pattern has such a node while a float or complex number occurs in the value or in a literal /
default of the pattern is answered with the diagnostic `unmodelled`; the harness skips it. -/

mutual
partial def valHasFloat : Val → Bool
  | .float _ | .complex _ _ => true
  | .list xs | .vector xs | .stream xs | .inst _ xs => xs.any valHasFloat
  | .dict ks vs => ks.any valHasFloat || vs.any valHasFloat
  | _ => false
end

partial def patHasArith : Pat → Bool
  | .destr .plus _ | .destr .times _ => true
  | .destr _ args | .destrStruct _ args | .seq args _ => args.any patHasArith
  | .anno p _ | .withDefault p _ | .splat p => patHasArith p
  | .or a b | .and a b => patHasArith a || patHasArith b
  | _ => false

partial def patHasFloat : Pat → Bool
  | .lit v => valHasFloat v
  | .withDefault p d => patHasFloat p || valHasFloat d
  | .destr _ args | .destrStruct _ args | .seq args _ => args.any patHasFloat
  | .anno p _ | .splat p => patHasFloat p
  | .or a b | .and a b => patHasFloat a || patHasFloat b
  | _ => false

def unmodelled (_e : Env) (vs : List Val) (ps : List Pat) : String :=
  if ps.any patHasArith && (vs.any valHasFloat || ps.any patHasFloat)
  then tab ++ "unmodelled" else ""

/-! ### observations -/

def dump (k : Nat) (e : Env) : String :=
  "[" ++ joinWith "," ((List.range k).map fun x =>
    match e.get? x with
    | some c => renderVal c.val
    | none => "U") ++ "]"

def implRes (k : Nat) (r : Env × Out Unit) : String :=
  match r with
  | (e, .ok ()) => "ok " ++ dump k e
  | (_, .throw) => "throw"
  | (_, .panic) => "panic"

def specRes (k : Nat) (r : Option Env) : String :=
  match r with
  | some e => "ok " ++ dump k e
  | none => "throw"

/-- `[[x0 is T0, …], [x0, …]]` for the pool names -/
def observe (k : Nat) (e : Env) : String :=
  "[[" ++ joinWith "," ((List.range k).map fun x =>
    match e.get? x with
    | some c => (match isType c.ty c.val with
        | .ok true => "1" | .ok false => "0" | _ => "s:45")
    | none => "s:45") ++ "]," ++ dump k e ++ "]"

def raiseMark : String := "s:7261697365"

def implHist (k : Nat) (rs : List (Env × Out Unit)) : String :=
  if rs.any (fun r => r.2.isPanic) then "panic"
  else "ok [" ++ joinWith "," (rs.map fun
    | (e, .ok ()) => observe k e
    | _ => raiseMark) ++ "]"

def specHist (k : Nat) (rs : List (Option Env)) : String :=
  "ok [" ++ joinWith "," (rs.map fun
    | some e => observe k e
    | none => raiseMark) ++ "]"


/-! ### conversions: the driver's stand-ins for the external functions

`parseInt` is decided here (optional sign, decimal digits); the other parsers are answered for the
simple decimal shapes the harness sends; values that depend on rounding or printing are not compared
(only the kind of the result and `w is T` are). -/

def asciiDigits (cs : List Nat) : Bool := !cs.isEmpty && cs.all fun c => 48 ≤ c && c ≤ 57

def parseIntAscii (cs : List Nat) : Option Int :=
  let (neg, ds) := match cs with
    | 45 :: r => (true, r)
    | 43 :: r => (false, r)
    | r => (false, r)
  if asciiDigits ds then
    let n : Nat := ds.foldl (fun a c => a * 10 + (c - 48)) 0
    some (if neg then -(n : Int) else n)
  else none

/-- `[sign] digits [. digits]` -/
def simpleDecimal (cs : List Nat) : Bool :=
  let ds := match cs with
    | 45 :: r => r
    | 43 :: r => r
    | r => r
  let ip := ds.takeWhile (· != 46)
  let rest := ds.drop ip.length
  match rest with
  | [] => asciiDigits ip
  | _ :: fp => asciiDigits ip && asciiDigits fp

def driverOracle : ConvOracle where
  parseInt := parseIntAscii
  parseRat := fun cs => if simpleDecimal cs then some 0 else none
  parseFloat := fun cs => if simpleDecimal cs then some 0 else none
  roundToFloat := fun _ => 0
  display := fun _ => []

def driverStructs (sid : Nat) : StructDef :=
  if sid == 2 then { nfields := 3, defaults := [none, none, some (.int 9)] }
  else { nfields := sid + 1, defaults := List.replicate (sid + 1) none }

def convRes (t : Ty) (r : Out Val) : String :=
  match r with
  | .ok w => "ok " ++ tyName (typeOf w) ++ ";" ++ (match isType t w with | .ok true => "1" | .ok false => "0" | _ => "E")
  | .throw => "throw"
  | .panic => "panic"


/-! ### `for` loops -/

partial def pPE : P PExpr := fun cs =>
  match cs with
  | 'c' :: r => (pVal r).map fun (v, r) => (.const v, r)
  | 'v' :: r => (pNat r).map fun (n, r) => (.var n, r)
  | 'x' :: r =>
    match pNat r with
    | some (a, '.' :: r2) => (pNat r2).map fun (b, r3) => (.index a b, r3)
    | _ => none
  | 'n' :: r =>
    match pNat r with
    | some (c, '(' :: r2) =>
      (match pPE r2 with
       | some (e, ')' :: r3) => some (.counted c e, r3)
       | _ => none)
    | _ => none
  | _ => none

mutual
partial def pUPat : P UPat := fun cs =>
  match cs with
  | 'U' :: r => some (.underscore, r)
  | 'I' :: r => (pNat r).map fun (n, r) => (.ident n, r)
  | 'A' :: '(' :: r =>
    match pUPat r with
    | some (p, ',' :: r2) =>
      (match pPE r2 with
       | some (t, ')' :: r3) => some (.anno p t, r3)
       | _ => none)
    | _ => none
  | 'S' :: '(' :: r => (pUPats r).map fun (ps, r) => (.seq ps false, r)
  | 'L' :: '(' :: r => (pUPats r).map fun (ps, r) => (.seq ps true, r)
  | 'P' :: '(' :: r =>
    match pUPat r with
    | some (p, ')' :: r2) => some (.splat p, r2)
    | _ => none
  | 'K' :: '(' :: r =>
    match pPE r with
    | some (f, ';' :: r2) => (pUPats r2).map fun (ps, r3) => (.call f ps, r3)
    | _ => none
  | _ => none
partial def pUPats : P (List UPat) := fun cs =>
  match cs with
  | ')' :: r => some ([], r)
  | _ =>
    match pUPat cs with
    | some (p, ',' :: r) => (pUPats r).map fun (ps, r2) => (p :: ps, r2)
    | some (p, ')' :: r) => some ([p], r)
    | _ => none
end

def pIter : P IterE := fun cs =>
  match cs with
  | 'c' :: r => (pVal r).map fun (v, r) => (.const v, r)
  | 'v' :: r => (pNat r).map fun (n, r) => (.var n, r)
  | _ => none

def pClause : P Clause := fun cs =>
  match cs with
  | 'C' :: k :: '(' :: r =>
    match pUPat r with
    | some (p, ';' :: r2) =>
      (match pIter r2 with
       | some (it, ')' :: r3) => some ({ pat := p, item := k == 'i', iter := it }, r3)
       | _ => none)
    | _ => none
  | _ => none

def pBStmt : P BStmt := fun cs =>
  match cs with
  | 'G' :: 'l' :: '(' :: r =>
    match pNat r with
    | some (a, ',' :: r2) =>
      (match pNat r2 with
       | some (b, ')' :: r3) => some (.log a b, r3)
       | _ => none)
    | _ => none
  | 'G' :: 'i' :: '(' :: r =>
    match pNat r with
    | some (a, ',' :: r2) =>
      (match pNat r2 with
       | some (b, ',' :: r3) =>
         (match pPE r3 with
          | some (t, ')' :: r4) => some (.logIs a b t, r4)
          | _ => none)
       | _ => none)
    | _ => none
  | _ => (pStmt false cs).map fun (s, r) => (.stmt s, r)

def raiseVal : Val := .str [114, 97, 105, 115, 101]

/-- `try (for …) catch e -> (r append= "raise")`, then the dump -/
def forRes (k : Nat) (e : Env) (completed : Bool) : String :=
  if completed then "ok " ++ dump k e
  else match appendTo e 0 raiseVal with
    | (e1, .ok ()) => "ok " ++ dump k e1
    | _ => "throw"


/-! ### `switch` with arm bodies -/

def parseBody (i : Nat) (code : String) : ArmBody :=
  { stmts := if code.contains 'l' then [.stmt (.opAssign (.ident 7 []) .append (.int i))] else [],
    raises := code.contains 't' }

def pairArms (sp : Bool) : Nat → List String → Option (List (Pat × ArmBody))
  | _, [] => some []
  | i, code :: pat :: rest =>
    match full (pPat sp) pat, pairArms sp (i + 1) rest with
    | some p, some arms => some ((p, parseBody i code) :: arms)
    | _, _ => none
  | _, _ => none

def swRes (k : Nat) (r : Env × SwOut) : String :=
  let log := match r.1.get? 7 with
    | some c => renderVal c.val
    | none => "U"
  match r.2 with
  | .value i => s!"ok [[{i}," ++ dump k r.1 ++ "]," ++ log ++ "]"
  | .bodyRaise => "ok [s:42," ++ log ++ "]"
  | .noMatch => "ok [s:4e," ++ log ++ "]"
  | .panic => "panic"

def handle (args : List String) : String :=
  match args with
  | ["fresh", k, env, val, pat] =>
    match k.toNat?, parseEnv env, full pVal val, full (pPat false) pat, full (pPat true) pat with
    | some k, some e, some v, some p, some q =>
      implRes k (assign ([] :: e) p (some .any) v) ++ tab ++ specRes k (specAssign ([] :: e) q (some .any) v)
        ++ unmodelled e [v] [p, q]
    | _, _, _, _, _ => "bad-op"
  | ["assign", k, env, val, pat] =>
    match k.toNat?, parseEnv env, full pVal val, full (pPat false) pat, full (pPat true) pat with
    | some k, some e, some v, some p, some q =>
      implRes k (assign e p none v) ++ tab ++ specRes k (specAssign e q none v) ++ unmodelled e [v] [p, q]
    | _, _, _, _, _ => "bad-op"
  | "switch" :: k :: env :: val :: pats =>
    match k.toNat?, parseEnv env, full pVal val, pats.mapM (full (pPat false)), pats.mapM (full (pPat true)) with
    | some k, some e, some v, some ps, some qs =>
      let i := match switchArm e v ps 0 with
        | .ok (i, ee) => s!"ok {i};" ++ dump k ee
        | .throw => "throw"
        | .panic => "panic"
      let s := match specSwitch e v qs 0 with
        | some (i, ee) => s!"ok {i};" ++ dump k ee
        | none => "throw"
      i ++ tab ++ s ++ unmodelled e [v] (ps ++ qs)
    | _, _, _, _, _ => "bad-op"
  | "bind" :: k :: env :: vals :: pats =>
    match k.toNat?, parseEnv env, full pVal vals, pats.mapM (full (pPat false)), pats.mapM (full (pPat true)) with
    | some k, some e, some (.list vs), some ps, some qs =>
      implRes k (bindParams e ps vs) ++ tab ++ specRes k (specBindParams e qs vs) ++ unmodelled e vs (ps ++ qs)
    | _, _, _, _, _ => "bad-op"
  | "hist" :: k :: env :: stmts =>
    match k.toNat?, parseEnv env, stmts.mapM (full (pStmt false)), stmts.mapM (full (pStmt true)) with
    | some k, some e, some ss, some ts => implHist k (execHistory e ss) ++ tab ++ specHist k (specHistory e ts)
    | _, _, _, _ => "bad-op"
  | "switchb" :: k :: env :: val :: rest =>
    match k.toNat?, parseEnv env, full pVal val, pairArms false 0 rest, pairArms true 0 rest with
    | some k, some e, some v, some arms, some sarms =>
      swRes k (switchRun e v arms 0) ++ tab ++ swRes k (specSwitchRun e v sarms)
        ++ unmodelled e [v] (arms.map Prod.fst ++ sarms.map Prod.fst)
    | _, _, _, _, _ => "bad-op"
  | "for" :: k :: env :: rest =>
    let cls := rest.takeWhile (·.startsWith "C")
    let bss := rest.drop cls.length
    match k.toNat?, parseEnv env, cls.mapM (full pClause), bss.mapM (full pBStmt) with
    | some k, some e, some cs, some body =>
      let i := forClauses body cs e
      let s := specClauses body cs e
      (match i.2 with
       | .panic => "panic"
       | .ok _ => forRes k i.1 true
       | .throw => forRes k i.1 false) ++ tab ++ forRes k s.1 s.2
    | _, _, _, _ => "bad-op"
  | ["istype", ty, val] =>
    match full pTy ty, full pVal val with
    | some t, some v =>
      (isType t v).render (fun b => if b then "1" else "0") ++ tab ++
        (specIs v t).render (fun b => if b then "1" else "0")
    | _, _ => "bad-op"
  | ["conv", ty, val] =>
    -- `T(v)`: kind of the result and `T(v) is T`; the Spec column is the property itself:
    -- whatever is returned is of type T
    match full pTy ty, full pVal val with
    | some t, some v =>
      let r := callType1 driverOracle driverStructs t v
      convRes t r ++ tab ++ (match r with
        | .ok w => "ok " ++ tyName (typeOf w) ++ ";1"
        | .throw => "throw"
        | .panic => "panic")
    | _, _ => "bad-op"
  | ["typeof", val] =>
    match full pVal val with
    | some v => "ok " ++ tyName (typeOf v) ++ tab ++ "ok " ++ tyName (typeOf v)
    | none => "bad-op"
  | _ => "bad-op"

end Noulith.DriverC12
