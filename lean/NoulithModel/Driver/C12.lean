/- Line-protocol handler for C12 (stub until the model exists). -/
import NoulithModel.Common
namespace Noulith.DriverC12
def handle (_args : List String) : String := "bad-op"
end Noulith.DriverC12
