/- Line-protocol handler for C10 (stub until the model exists). -/
import NoulithModel.Common
namespace Noulith.DriverC10
def handle (_args : List String) : String := "bad-op"
end Noulith.DriverC10
