/- Line-protocol handler for C10.

Values are written in the canonical text of `vharness::canon` (ints, `f:<bits>`, `n/d`, `s:<hex>`,
`b:<hex>`, `[a,b]`, `v[a,b]`, `stream[a,b]`, `null`) plus `rep(<v>)` and `cyc(<pos>,[a,b])` for the two
infinite streams (both render as `stream-inf`, as the canonicaliser prints them).

Requests (`-` = absent bound; an lvalue step is `i=<v>` or `r=<lo>;<hi>`):
  idx <s> <i>            s[i]
  idx2 <s> <i> <j>       s[i][j]
  slice <s> <lo> <hi>    s[lo:hi]
  a1 <name> <s>          first second third last tail butlast uncons unsnoc only
  a2 <name> <s> <a>      !! index !? !% take drop
  set <s> <v> <step>…    x := s; x<steps> = v; x
  every <s> <v> <step>…  x := s; every x<steps> = v; x
  addat <s> <i> <d>      x := s; x[i] += d; x
  pop <s>                x := s; r := pop x; [r, x]
  rmi <s> <i>            x := s; r := remove x[i]; [r, x]
  rms <s> <lo> <hi>      x := s; r := remove x[lo:hi]; [r, x]
  upd <s> <k> <v>        s |.. [k, v]
  popp <s> <step>…       x := s; r := pop x<steps>; [r, x]
  rmip <s> <i> <step>…   x := s; r := remove x<steps>[i]; [r, x]
State-observing forms (the write runs under try/catch, `y` is an alias taken before it; response
`[r,x,y]` with r = 1 / `[1,result]` on success, 0 when it raised; the Impl prints `corrupted` for x
when the string arm reports "string corrupted"):
  tset / tevery <s> <v> <step>…     x = s; y = x; r = try (x<steps> = v; 1) catch _ -> 0; [r, x, y]
  taddat <s> <i> <d>                … x[i] += d …
  tpopp <s> <step>…                 … r = try [1, pop x<steps>] catch _ -> 0 …
  trmip <s> <i> <step>…             … r = try [1, remove x<steps>[i]] catch _ -> 0 …
  taddatp <s> <d> <step>…           … x<steps> += d …
  tswapp <s> <yv> <step>…           x = s; y = yv; r = try (swap x<steps>, y; 1) …
  tswap / tswap2 <s> <i> <yv>       x = s; y = yv; r = try (swap x[i], y; 1) …  /  swap y, x[i]
Response: `<impl>\t<spec>`. -/
import NoulithModel.Spec.PyIndex

namespace Noulith.DriverC10
open Noulith Noulith.Index

/-! rendering -/
mutual
def render : Val → String
  | .null => "null"
  | .int v => toString v
  | .num t => t
  | .str bs => "s:" ++ hexOfBytes bs
  | .bytes bs => "b:" ++ hexOfBytes bs
  | .list xs => "[" ++ renderList xs ++ "]"
  | .vec xs => "v[" ++ renderList xs ++ "]"
  | .stream xs => "stream[" ++ renderList xs ++ "]"
  | .rep _ => "stream-inf"
  | .cyc _ _ => "stream-inf"
  | .other t => t
def renderList : List Val → String
  | [] => ""
  | [x] => render x
  | x :: y :: rest => render x ++ "," ++ renderList (y :: rest)
end

def renderPair (p : Val × Val) : String := "[" ++ render p.1 ++ "," ++ render p.2 ++ "]"

/-! parsing -/
def isAtomChar (c : Char) : Bool := !(c == ',' || c == '[' || c == ']' || c == '(' || c == ')')

def atomOf (s : String) : Val :=
  if s == "null" then .null
  else if s.startsWith "s:" then
    match unhex (s.drop 2).toString with
    | some bs => .str bs
    | none => .other s
  else if s.startsWith "b:" then
    match unhex (s.drop 2).toString with
    | some bs => .bytes bs
    | none => .other s
  else if s.startsWith "f:" || s.startsWith "c:" then .num s
  else match s.toInt? with
    | some v => .int v
    | none => if s.contains '/' then .num s else .other s

mutual
partial def parseVal (cs : List Char) : Option (Val × List Char) :=
  match cs with
  | '[' :: rest => (parseItems rest).map fun (xs, r) => (.list xs, r)
  | 'v' :: '[' :: rest => (parseItems rest).map fun (xs, r) => (.vec xs, r)
  | 's' :: 't' :: 'r' :: 'e' :: 'a' :: 'm' :: '[' :: rest =>
    (parseItems rest).map fun (xs, r) => (.stream xs, r)
  | 'r' :: 'e' :: 'p' :: '(' :: rest =>
    match parseVal rest with
    | some (x, ')' :: r) => some (.rep x, r)
    | _ => none
  | 'c' :: 'y' :: 'c' :: '(' :: rest =>
    let digits := rest.takeWhile Char.isDigit
    match rest.dropWhile Char.isDigit with
    | ',' :: '[' :: r1 =>
      match parseItems r1 with
      | some (xs, ')' :: r) => some (.cyc xs (String.ofList digits).toNat!, r)
      | _ => none
    | _ => none
  | _ =>
    let a := cs.takeWhile isAtomChar
    if a.isEmpty then none else some (atomOf (String.ofList a), cs.dropWhile isAtomChar)
/-- items after an opening bracket, up to and including the closing one -/
partial def parseItems (cs : List Char) : Option (List Val × List Char) :=
  match cs with
  | ']' :: rest => some ([], rest)
  | _ =>
    match parseVal cs with
    | some (x, ',' :: rest) => (parseItems rest).map fun (xs, r) => (x :: xs, r)
    | some (x, ']' :: rest) => some ([x], rest)
    | _ => none
end

def val? (s : String) : Option Val :=
  match parseVal s.toList with
  | some (v, []) => some v
  | _ => none

/-- `-` is an absent bound -/
def bound? (s : String) : Option (Option Val) :=
  if s == "-" then some none else (val? s).map some

def step? (s : String) : Option Ix :=
  if s.startsWith "i=" then (val? (s.drop 2).toString).map Ix.index
  else if s.startsWith "r=" then
    match (s.drop 2).toString.splitOn ";" with
    | [a, b] =>
      match bound? a, bound? b with
      | some lo, some hi => some (.slice lo hi)
      | _, _ => none
    | _ => none
  else none

def steps? : List String → Option (List Ix)
  | [] => some []
  | s :: rest =>
    match step? s, steps? rest with
    | some i, some is => some (i :: is)
    | _, _ => none

def both (i s : Out Val) : String := i.render render ++ "\t" ++ s.render render
def bothP (i s : Out (Val × Val)) : String := i.render renderPair ++ "\t" ++ s.render renderPair

def triple (r x y : String) : String := "ok [" ++ r ++ "," ++ x ++ "," ++ y ++ "]"

def implW (w : Val × WEnd) (y : Val) : String :=
  triple (if w.2.isDone then "1" else "0") (if w.2 = .corrupted then "corrupted" else render w.1) (render y)
def specW (w : Val × Bool) (y : Val) : String :=
  triple (if w.2 then "1" else "0") (render w.1) (render y)
def resM (w : Val × Option Val) (y : Val) : String :=
  triple (match w.2 with
    | some r => "[1," ++ render r ++ "]"
    | none => "0") (render w.1) (render y)

def implSwap (x i yv : Val) (yFirst : Bool) : String :=
  match Index.index x i with
  | .ok a =>
    let w := Index.setIndexS x [.index i] (some yv) false
    triple (if w.2.isDone then "1" else "0") (if w.2 = .corrupted then "corrupted" else render w.1)
      (render (if w.2.isDone || yFirst then a else yv))
  | _ => triple "0" (render x) (render yv)
def specSwap (x i yv : Val) (yFirst : Bool) : String :=
  match PyIndex.index x i with
  | .ok a =>
    let w := PyIndex.setPathS x [.index i] (some yv) false
    triple (if w.2 then "1" else "0") (render w.1) (render (if w.2 || yFirst then a else yv))
  | _ => triple "0" (render x) (render yv)

/-- read `x<steps>` (index steps only), as `eval_lvalue_as_obj` does: no forcing of streams -/
def readPath (idx : Val → Val → Out Val) (x : Val) : List Ix → Out Val
  | [] => .ok x
  | .index i :: rest => (idx x i).bind fun e => readPath idx e rest
  | .slice _ _ :: _ => .throw

/-- `x<steps> += d` as [r, x, alias] -/
def implAddP (x : Val) (ixs : List Ix) (d : Int) : Val × WEnd :=
  match readPath Index.index x ixs with
  | .ok old =>
    let r1 := Index.setIndexS x ixs none false
    if r1.2.isDone then
      match old with
      | .int o => Index.setIndexS r1.1 ixs (some (.int (o + d))) false
      | _ => (r1.1, .failed)
    else r1
  | _ => (x, .failed)
def specAddP (x : Val) (ixs : List Ix) (d : Int) : Val × Bool :=
  match readPath PyIndex.index x ixs with
  | .ok old =>
    let r1 := PyIndex.setPathS x ixs none false
    if r1.2 then
      match old with
      | .int o => PyIndex.setPathS r1.1 ixs (some (.int (o + d))) false
      | _ => (r1.1, false)
    else r1
  | _ => (x, false)

def implSwapP (x : Val) (ixs : List Ix) (yv : Val) : String :=
  match readPath Index.index x ixs with
  | .ok a =>
    let w := Index.setIndexS x ixs (some yv) false
    triple (if w.2.isDone then "1" else "0") (if w.2 = .corrupted then "corrupted" else render w.1)
      (render (if w.2.isDone then a else yv))
  | _ => triple "0" (render x) (render yv)
def specSwapP (x : Val) (ixs : List Ix) (yv : Val) : String :=
  match readPath PyIndex.index x ixs with
  | .ok a =>
    let w := PyIndex.setPathS x ixs (some yv) false
    triple (if w.2 then "1" else "0") (render w.1) (render (if w.2 then a else yv))
  | _ => triple "0" (render x) (render yv)

def handle (args : List String) : String :=
  match args with
  | "taddatp" :: s :: d :: steps =>
    match val? s, d.toInt?, steps? steps with
    | some s, some d, some ixs => implW (implAddP s ixs d) s ++ "\t" ++ specW (specAddP s ixs d) s
    | _, _, _ => "bad-op"
  | "tswapp" :: s :: yv :: steps =>
    match val? s, val? yv, steps? steps with
    | some s, some yv, some ixs => implSwapP s ixs yv ++ "\t" ++ specSwapP s ixs yv
    | _, _, _ => "bad-op"
  | "tset" :: s :: v :: steps =>
    match val? s, val? v, steps? steps with
    | some s, some v, some ixs =>
      implW (Index.setIndexS s ixs (some v) false) s ++ "\t" ++ specW (PyIndex.setPathS s ixs (some v) false) s
    | _, _, _ => "bad-op"
  | "tevery" :: s :: v :: steps =>
    match val? s, val? v, steps? steps with
    | some s, some v, some ixs =>
      implW (Index.setIndexS s ixs (some v) true) s ++ "\t" ++ specW (PyIndex.setPathS s ixs (some v) true) s
    | _, _, _ => "bad-op"
  | ["taddat", s, i, d] =>
    match val? s, val? i, d.toInt? with
    | some s, some i, some d =>
      implW (Index.opAssignAddS s i d) s ++ "\t" ++ specW (PyIndex.addAtS s i d) s
    | _, _, _ => "bad-op"
  | "tpopp" :: s :: steps =>
    match val? s, steps? steps with
    | some s, some ixs =>
      resM (Index.modPathS s ixs Index.tryPop) s ++ "\t" ++ resM (PyIndex.atPathS s ixs PyIndex.pop) s
    | _, _ => "bad-op"
  | "trmip" :: s :: i :: steps =>
    match val? s, val? i, steps? steps with
    | some s, some i, some ixs =>
      resM (Index.modPathS s ixs fun v => Index.tryRemoveIndex v i) s ++ "\t"
        ++ resM (PyIndex.atPathS s ixs fun v => PyIndex.removeIndex v i) s
    | _, _, _ => "bad-op"
  | ["tswap", s, i, yv] =>
    match val? s, val? i, val? yv with
    | some s, some i, some yv => implSwap s i yv false ++ "\t" ++ specSwap s i yv false
    | _, _, _ => "bad-op"
  | ["tswap2", s, i, yv] =>
    match val? s, val? i, val? yv with
    | some s, some i, some yv => implSwap s i yv true ++ "\t" ++ specSwap s i yv true
    | _, _, _ => "bad-op"
  | ["idx", s, i] =>
    match val? s, val? i with
    | some s, some i => both (Index.index s i) (PyIndex.index s i)
    | _, _ => "bad-op"
  | ["idx2", s, i, j] =>
    match val? s, val? i, val? j with
    | some s, some i, some j =>
      both ((Index.index s i).bind fun e => Index.index e j) ((PyIndex.index s i).bind fun e => PyIndex.index e j)
    | _, _, _ => "bad-op"
  | ["slice", s, lo, hi] =>
    match val? s, bound? lo, bound? hi with
    | some s, some lo, some hi => both (Index.slice s lo hi) (PyIndex.slice s lo hi)
    | _, _, _ => "bad-op"
  | ["a1", name, s] =>
    match val? s with
    | some s => both (Index.accessor1 name s) (PyIndex.accessor1 name s)
    | _ => "bad-op"
  | ["a2", name, s, a] =>
    match val? s, val? a with
    | some s, some a => both (Index.accessor2 name s a) (PyIndex.accessor2 name s a)
    | _, _ => "bad-op"
  | "set" :: s :: v :: steps =>
    match val? s, val? v, steps? steps with
    | some s, some v, some ixs => both (Index.setIndex s ixs (some v) false) (PyIndex.setPath s ixs v false)
    | _, _, _ => "bad-op"
  | "every" :: s :: v :: steps =>
    match val? s, val? v, steps? steps with
    | some s, some v, some ixs => both (Index.setIndex s ixs (some v) true) (PyIndex.setPath s ixs v true)
    | _, _, _ => "bad-op"
  | ["addat", s, i, d] =>
    match val? s, val? i, d.toInt? with
    | some s, some i, some d => both (Index.opAssignAdd s i d) (PyIndex.addAt s i d)
    | _, _, _ => "bad-op"
  | ["pop", s] =>
    match val? s with
    | some s => bothP (Index.tryPop s) (PyIndex.pop s)
    | _ => "bad-op"
  | ["rmi", s, i] =>
    match val? s, val? i with
    | some s, some i => bothP (Index.tryRemoveIndex s i) (PyIndex.removeIndex s i)
    | _, _ => "bad-op"
  | ["rms", s, lo, hi] =>
    match val? s, bound? lo, bound? hi with
    | some s, some lo, some hi => bothP (Index.tryRemoveSlice s lo hi) (PyIndex.removeSlice s lo hi)
    | _, _, _ => "bad-op"
  | "popp" :: s :: steps =>
    match val? s, steps? steps with
    | some s, some ixs => bothP (Index.modPath s ixs Index.tryPop) (PyIndex.atPath s ixs PyIndex.pop)
    | _, _ => "bad-op"
  | "rmip" :: s :: i :: steps =>
    match val? s, val? i, steps? steps with
    | some s, some i, some ixs =>
      bothP (Index.modPath s ixs fun v => Index.tryRemoveIndex v i)
        (PyIndex.atPath s ixs fun v => PyIndex.removeIndex v i)
    | _, _, _ => "bad-op"
  | ["upd", s, k, v] =>
    match val? s, val? k, val? v with
    | some s, some k, some v => both (Index.updateAt s k v) (PyIndex.updateAt s k v)
    | _, _, _ => "bad-op"
  | _ => "bad-op"

end Noulith.DriverC10
