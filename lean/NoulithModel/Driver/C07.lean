/- Line-protocol handler for C07.

Request:  `bin <op> <A> <B>` | `un <op> <A>` where an object is
  `i:<int>` | `q:<num>/<den>` | `f:<16 hex digits>` | `c:<16 hex>:<16 hex>` | `v[obj,obj,…]` | `x`
  (`x` = anything that is neither a number nor a vector).
Response: `<impl>\t<spec>`.

Float arithmetic is abstract in the model (`FloatOps`), so the driver instantiates it with the FREE
term algebra: a float / complex value is the text of the expression that computes it, e.g.
`fop:add(f:3ff0000000000000,conv:int(5))`.  The Rust harness evaluates these terms with Rust's own
`f64` / `Complex64` / `BigInt::to_f64` operations and compares the result with what the interpreter
returned, which checks dispatch and conversion, not IEEE arithmetic.  Exact results (ints,
rationals) are printed as canonical values.  In the Spec column the conversions to float and the
float operations `+ - * /` and unary minus are not symbolic: they are computed in Lean as the
exact rational result rounded once to nearest-even (`F64.ofRatRNE`, `F64.add` … of
Impl/F64Ieee.lean), so the real interpreter's float arithmetic is compared bit for bit with
IEEE-754 as mathematics. -/
import NoulithModel.Spec.TowerSpec

namespace Noulith.DriverC07
open Noulith

def parseHex (s : String) : Option Nat :=
  s.toList.foldl (fun acc c => match acc, hexDigitVal c with
    | some a, some d => some (16 * a + d)
    | _, _ => none) (some 0)

def renderRat (q : Rat) : String := s!"{q.num}/{q.den}"

def app1 (f a : String) : String := f ++ "(" ++ a ++ ")"
def app2 (f a b : String) : String := f ++ "(" ++ a ++ "," ++ b ++ ")"

/-- the free (symbolic) float structure; only literals have a known value -/
def sym : FloatOps String String where
  view s :=
    if s.startsWith "f:" ∧ s.length = 18 then
      match parseHex (s.drop 2).toString with
      | some b => F64.viewBits b
      | none => .nan
    else .nan
  ofInt i := app1 "conv:int" (toString i)
  ofRat q := app1 "conv:rat" (renderRat q)
  posInf := "f:7ff0000000000000"
  add := app2 "fop:add"
  sub := app2 "fop:sub"
  mul := app2 "fop:mul"
  div := app2 "fop:div"
  rem := app2 "fop:rem"
  divEuclid := app2 "fop:diveuclid"
  remEuclid := app2 "fop:remeuclid"
  neg := app1 "fop:neg"
  cOfF := app1 "cof"
  cre s :=
    if s.startsWith "c:" ∧ s.length = 35 then "f:" ++ ((s.drop 2).take 16).toString else app1 "re" s
  cim s :=
    if s.startsWith "c:" ∧ s.length = 35 then "f:" ++ (s.drop 19).toString else app1 "im" s
  cadd := app2 "cop:add"
  csub := app2 "cop:sub"
  cmul := app2 "cop:mul"
  cdiv := app2 "cop:div"
  crem := app2 "cop:rem"
  cfloorParts := app1 "cop:floorparts"
  cdivF := app2 "cop:divf"
  fdivC := app2 "cop:fdiv"
  cneg := app1 "cop:neg"
  powfPd a b := .float (app2 "pd:powf" a b)       -- sort decided by the evaluator (float or complex)
  powifPd a b := .float (app2 "pd:powif" a (toString b))
  cpowf := app2 "cop:powf"
  cpowif a b := app2 "cop:powif" a (toString b)
  cpowc := app2 "cop:powc"

def hex16 (n : Nat) : String :=
  let ds := Nat.toDigits 16 n
  String.ofList (List.replicate (16 - ds.length) '0' ++ ds)

def litBits? (s : String) : Option Nat :=
  if s.startsWith "f:" ∧ s.length = 18 then parseHex (s.drop 2).toString else none

def lit (n : Nat) : String := "f:" ++ hex16 n

/-- an IEEE operation of Impl/F64Ieee.lean on float literals, the symbolic term otherwise -/
def conc2 (f : Nat → Nat → Nat) (symf : String → String → String) (a b : String) : String :=
  match litBits? a, litBits? b with
  | some x, some y => lit (f x y)
  | _, _ => symf a b

def conc1 (f : Nat → Nat) (symf : String → String) (a : String) : String :=
  match litBits? a with
  | some x => lit (f x)
  | none => symf a

/-- the structure the SPEC column is evaluated with (`F64.ieeeOps` over the term algebra): the
conversions int → float and rational → float are the correctly rounded ones (`F64.ofRatRNE`) and
`+ - * / %`, `div_euclid`, `rem_euclid` and unary minus on floats are the IEEE-754 operations of
Impl/F64Ieee.lean (exact rational result rounded once), all printed as float literals; powers and
complex arithmetic stay symbolic -/
def symSpec : FloatOps String String :=
  { sym with
    ofInt := fun i => lit (F64.ofRatRNE (i : Rat))
    ofRat := fun q => lit (F64.ofRatRNE q)
    add := conc2 F64.add sym.add
    sub := conc2 F64.sub sym.sub
    mul := conc2 F64.mul sym.mul
    div := conc2 F64.div sym.div
    rem := conc2 F64.rem sym.rem
    divEuclid := conc2 F64.divEuclid sym.divEuclid
    remEuclid := conc2 F64.remEuclid sym.remEuclid
    neg := conc1 F64.neg sym.neg }

abbrev SNum := NNum String String
abbrev SObj := VObj String String

def parseNum (s : String) : Option SNum :=
  if s.startsWith "i:" then (s.drop 2).toString.toInt?.map .int
  else if s.startsWith "q:" then
    match (s.drop 2).toString.splitOn "/" with
    | [n, d] =>
      match n.toInt?, d.toNat? with
      | some n, some d => if d = 0 then none else some (.rat (mkRat n d))
      | _, _ => none
    | _ => none
  else if s.startsWith "f:" then (if s.length = 18 then some (.float s) else none)
  else if s.startsWith "c:" then (if s.length = 35 then some (.complex s) else none)
  else none

def parseNums : List String → Option (List SNum)
  | [] => some []
  | t :: ts =>
    match parseNum t, parseNums ts with
    | some n, some ns => some (n :: ns)
    | _, _ => none

def parseObj (s : String) : Option SObj :=
  if s = "x" then some .other
  else if s = "v[]" then some (.vec [])
  else if s.startsWith "v[" ∧ s.endsWith "]" then
    (parseNums (((s.drop 2).dropEnd 1).toString.splitOn ",")).map .vec
  else (parseNum s).map .num

def renderNum : SNum → String
  | .int i => toString i
  | .rat r => renderRat r
  | .float f => f
  | .complex z => z

def renderObj : SObj → String
  | .num n => renderNum n
  | .vec xs => "v[" ++ joinWith "," (xs.map renderNum) ++ "]"
  | .other => "other"

def handle (args : List String) : String :=
  match args with
  | ["bin", op, a, b] =>
    match parseObj a, parseObj b with
    | some x, some y =>
      (Vectorize.binop sym op x y).render renderObj ++ "\t" ++ (TowerSpec.vbinop symSpec op x y).render renderObj
    | _, _ => "bad-op"
  | ["un", op, a] =>
    match parseObj a with
    | some x =>
      (Vectorize.unop sym op x).render renderObj ++ "\t" ++ (TowerSpec.vunop symSpec op x).render renderObj
    | _ => "bad-op"
  | _ => "bad-op"

end Noulith.DriverC07
