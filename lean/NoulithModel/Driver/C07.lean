/- Line-protocol handler for C07 (stub until the model exists). -/
import NoulithModel.Common
namespace Noulith.DriverC07
def handle (_args : List String) : String := "bad-op"
end Noulith.DriverC07
