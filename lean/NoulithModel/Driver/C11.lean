/- Line-protocol handler for C11.

Request:  `<observation tokens> @ <stream expression tokens>` (prefix notation, space separated)

  observation:  len | list | pairs | rev | last | first | truthy | only | idx <i|bad> | slice <lo|_|bad> <hi|_|bad>
              | in <val> | unpack <k> | unpackSplat <before> <after> | takeWhile <pred>
  stream expr:  til a b | tilby a b c | to a b | toby a b c | iota a | perms <list> | combs <list> k
              | subseqs <list> | cpow <list> k | wrap <list> | repeat <val> | cycle <list>
              | iterate <fn> <val> | map <fn> E | filter <pred> E | zip <fn2> <n> E1 … En
              | dropS n E | revS E | dropWhile <pred> E
  values:       decimal integers and bracketed lists without spaces, e.g. `[1,[2,3],-4]`

Response: `<impl result>\t<spec result>\t<finite|infinite>` -/
import NoulithModel.Spec.StreamSpec

namespace Noulith.DriverC11
open Noulith Noulith.Stream Noulith.StreamSpec

/-! ### parsing values -/
def parseIntChars (cs : List Char) : Option (Int × List Char) :=
  let (neg, cs) := match cs with
    | '-' :: r => (true, r)
    | r => (false, r)
  let ds := cs.takeWhile Char.isDigit
  let rest := cs.dropWhile Char.isDigit
  if ds.isEmpty then none
  else
    let n : Nat := ds.foldl (fun acc c => acc * 10 + (c.toNat - '0'.toNat)) 0
    some (if neg then -(n : Int) else (n : Int), rest)

mutual
def parseValChars : Nat → List Char → Option (Val × List Char)
  | 0, _ => none
  | _ + 1, '[' :: ']' :: rest => some (.nil, rest)
  | fuel + 1, '[' :: rest =>
    match parseElems fuel rest with
    | some (xs, rest') => some (Val.ofList xs, rest')
    | none => none
  | _ + 1, cs => (parseIntChars cs).map fun (n, r) => (.int n, r)
def parseElems : Nat → List Char → Option (List Val × List Char)
  | 0, _ => none
  | fuel + 1, cs =>
    match parseValChars fuel cs with
    | some (v, ',' :: rest) =>
      (parseElems fuel rest).map fun (vs, r) => (v :: vs, r)
    | some (v, ']' :: rest) => some ([v], rest)
    | _ => none
end

def parseVal (s : String) : Option Val :=
  match parseValChars (s.length + 2) s.toList with
  | some (v, []) => some v
  | _ => none

def parseList (s : String) : Option (List Val) := (parseVal s).bind fun v =>
  if v.isList then some v.elems else none

/-! ### the function pools shared with the harness -/
def vInt : Val → Int
  | .int n => n
  | _ => 0
def b2v (b : Bool) : Val := .int (if b then 1 else 0)

def splitArg (s : String) : String × Int :=
  match s.splitOn ":" with
  | [f, c] => (f, c.toInt?.getD 0)
  | _ => (s, 0)

/-- `add:c` x+c | `mul:c` x*c | `sq` x*x | `neg` | `pair` [x,x] | `lenf` len(x) | `const:c` -/
def applyFn (f : String) (x : Val) : Val :=
  match splitArg f with
  | ("add", c) => .int (vInt x + c)
  | ("mul", c) => .int (vInt x * c)
  | ("sq", _) => .int (vInt x * vInt x)
  | ("neg", _) => .int (-(vInt x))
  | ("pair", _) => Val.ofList [x, x]
  | ("lenf", _) => .int x.elems.length
  | ("const", c) => .int c
  | _ => x

/-- `lt:c` | `gt:c` | `ne:c` | `even` | `tt` | `ff` | `lenlt:c` | `evenlen` -/
def applyPred (p : String) (x : Val) : Bool :=
  match splitArg p with
  | ("lt", c) => vInt x < c
  | ("gt", c) => vInt x > c
  | ("ne", c) => vInt x ≠ c
  | ("even", _) => vInt x % 2 = 0
  | ("tt", _) => true
  | ("ff", _) => false
  | ("lenlt", c) => (x.elems.length : Int) < c
  | ("evenlen", _) => x.elems.length % 2 = 0
  | _ => false

/-- `none` (the argument list) | `plus` (sum) | `lin` (fold acc*10+x) | `firstf` -/
def applyFn2 (f : String) (args : List Val) : Val :=
  match f with
  | "plus" => .int (args.foldl (fun acc x => acc + vInt x) 0)
  | "lin" => .int (args.foldl (fun acc x => acc * 10 + vInt x) 0)
  | "firstf" => args.headD (.int 0)
  | _ => Val.ofList args

/-! ### stream expressions -/
inductive SExpr where
  | range (r : Range)
  | perms (base : List Val)
  | combs (base : List Val) (k : Int)
  | subseqs (base : List Val)
  | cpow (base : List Val) (k : Int)
  | wrap (base : List Val)
  | rep (v : Val)
  | cyc (base : List Val)
  | iter (f : String) (v : Val)
  | map (f : String) (e : SExpr)
  | filter (p : String) (e : SExpr)
  | zip (f : String) (es : List SExpr)
  | dropS (n : Nat) (e : SExpr)
  | revS (e : SExpr)
  | dropWhile (p : String) (e : SExpr)

mutual
partial def parseExpr : List String → Option (SExpr × List String)
  | "til" :: a :: b :: r => do some (.range (Range.til (← a.toInt?) (← b.toInt?) 1), r)
  | "tilby" :: a :: b :: c :: r => do some (.range (Range.til (← a.toInt?) (← b.toInt?) (← c.toInt?)), r)
  | "to" :: a :: b :: r => do some (.range (Range.to (← a.toInt?) (← b.toInt?) 1), r)
  | "toby" :: a :: b :: c :: r => do some (.range (Range.to (← a.toInt?) (← b.toInt?) (← c.toInt?)), r)
  | "iota" :: a :: r => do some (.range (Range.iota (← a.toInt?)), r)
  | "perms" :: l :: r => do some (.perms (← parseList l), r)
  | "combs" :: l :: k :: r => do some (.combs (← parseList l) (← k.toInt?), r)
  | "subseqs" :: l :: r => do some (.subseqs (← parseList l), r)
  | "cpow" :: l :: k :: r => do some (.cpow (← parseList l) (← k.toInt?), r)
  | "wrap" :: l :: r => do some (.wrap (← parseList l), r)
  | "repeat" :: v :: r => do some (.rep (← parseVal v), r)
  | "cycle" :: l :: r => do some (.cyc (← parseList l), r)
  | "iterate" :: f :: v :: r => do some (.iter f (← parseVal v), r)
  | "map" :: f :: r => do
    let (e, r') ← parseExpr r
    some (.map f e, r')
  | "filter" :: p :: r => do
    let (e, r') ← parseExpr r
    some (.filter p e, r')
  | "zip" :: f :: n :: r => do
    let (es, r') ← parseExprs (← n.toNat?) r
    some (.zip f es, r')
  | "dropS" :: n :: r => do
    let (e, r') ← parseExpr r
    some (.dropS (← n.toNat?) e, r')
  | "revS" :: r => do
    let (e, r') ← parseExpr r
    some (.revS e, r')
  | "dropWhile" :: p :: r => do
    let (e, r') ← parseExpr r
    some (.dropWhile p e, r')
  | _ => none
partial def parseExprs : Nat → List String → Option (List SExpr × List String)
  | 0, r => some ([], r)
  | n + 1, r => do
    let (e, r') ← parseExpr r
    let (es, r'') ← parseExprs n r'
    some (e :: es, r'')
end

/-! ### Impl side -/

def toCount (k : Int) : R Nat :=
  match toUsize k with
  | some n => .ok n
  | none => .throw

/-- a `ZippedStream` over the given streams, yielding the argument lists -/
def zipAll : List (Strm Val) → Option (Strm (List Val))
  | [] => none
  | [a] => some ⟨a.σ, zipOne a.ops, a.st⟩
  | a :: rest =>
    match zipAll rest with
    | some b => some ⟨a.σ × b.σ, zipOps a.ops b.ops, (a.st, b.st)⟩
    | none => none

mutual
def evalExpr : SExpr → R (Strm Val)
  | .range r => .ok ⟨Range, mapOut Val.int Range.ops, r⟩
  | .perms base => .ok ⟨Idx Val, mapOut Val.ofList Perm.ops, Perm.mk base⟩
  | .combs base k => (toCount k).map fun k => ⟨Idx Val, mapOut Val.ofList Comb.ops, Comb.mk base k⟩
  | .subseqs base => .ok ⟨Mask Val, mapOut Val.ofList Subseq.ops, Subseq.mk base⟩
  | .cpow base k => (toCount k).map fun k => ⟨Idx Val, mapOut Val.ofList CPow.ops, CPow.mk base k⟩
  | .wrap base => .ok ⟨Wrapped Val, Wrapped.ops, ⟨base, 0⟩⟩
  | .rep v => .ok ⟨Val, Repeat.ops, v⟩
  | .cyc base =>
    -- post-fix for F15: `cycle` rejects an empty argument
    if base.isEmpty then .throw else .ok ⟨Cycle Val, Cycle.ops, ⟨base, 0⟩⟩
  | .iter f v => .ok ⟨Val, Iterate.ops (applyFn f), v⟩
  | .map f e => (evalExpr e).map fun s => ⟨s.σ, mapOps s.ops (applyFn f), s.st⟩
  | .filter p e => (evalExpr e).map fun s => ⟨s.σ, filterOps s.ops (applyPred p), s.st⟩
  | .zip f es =>
    (evalExprs es).bind fun ss =>
      match zipAll ss with
      | some z => .ok ⟨z.σ, mapOps z.ops (applyFn2 f), z.st⟩
      | none => .throw
  | .dropS n e =>
    (evalExpr e).bind fun s =>
      (s.slice (some n) none).bind fun r =>
        match r with
        | .inr t => .ok t
        | .inl _ => .throw
  | .revS e =>
    (evalExpr e).bind fun s =>
      s.reversed.bind fun r =>
        match r with
        | .inr t => .ok t
        | .inl _ => .throw
  | .dropWhile p e => (evalExpr e).bind fun s => s.dropWhile (applyPred p)
def evalExprs : List SExpr → R (List (Strm Val))
  | [] => .ok []
  | e :: es => (evalExpr e).bind fun s => (evalExprs es).map fun ss => s :: ss
end

/-- what an observation returns -/
inductive Res where
  | val (v : Val)
  | infLen
  | seq (stream : Bool) (l : List Val)
  | infStream
  | streamErr

def renderList (l : List Val) : String := "[" ++ joinWith "," (l.map Val.render) ++ "]"

def Res.render : Res → String
  | .val v => v.render
  | .infLen => "f:7ff0000000000000"
  | .seq false l => renderList l
  | .seq true l => "stream" ++ renderList l
  | .infStream => "stream-inf"
  | .streamErr => "stream-err"

/-- how the harness's `canon` shows a stream value: `len()`, then `force()` -/
def showStrm (s : Strm Val) : R Res :=
  s.len.bind fun n =>
    match n with
    | none => .ok .infStream
    | some _ =>
      match s.ops.force s.st with
      | .ok l => .ok (.seq true l)
      | .throw => .ok .streamErr
      | .panic => .panic
      | .diverge => .diverge

def showSlice : Sum (List Val) (Strm Val) → R Res
  | .inl l => .ok (.seq false l)
  | .inr s => showStrm s

inductive IdxArg where
  | i (n : Int)
  | omitted
  | bad

def parseIdx (s : String) : IdxArg :=
  if s = "_" then .omitted
  else match s.toInt? with
    | some n => if -9223372036854775808 ≤ n ∧ n ≤ 9223372036854775807 then .i n else .bad
    | none => .bad

/-- `obj_to_isize_slice_index` -/
def sliceArg : IdxArg → R (Option Int)
  | .i n => .ok (some n)
  | .omitted => .ok none
  | .bad => .throw

def obsImpl (obs : List String) (s : Strm Val) : R Res :=
  match obs with
  | ["len"] => s.len.map fun n => match n with
    | some n => .val (.int n)
    | none => .infLen
  | ["list"] => s.toList.map (.seq false)
  | ["pairs"] => s.toList.map fun l => .seq false (l.zipIdx.map fun (x, i) => Val.ofList [.int i, x])
  | ["rev"] => s.reversed.bind showSlice
  | ["last"] => (s.index (-1)).map .val
  | ["first"] => (s.index 0).map .val
  | ["truthy"] => s.truthy.map fun b => .val (b2v b)
  | ["only"] => s.only.map .val
  | ["idx", i] =>
    match parseIdx i with
    | .i n => (s.index n).map .val
    | _ => .throw
  | ["slice", lo, hi] =>
    (sliceArg (parseIdx lo)).bind fun lo =>
    (sliceArg (parseIdx hi)).bind fun hi =>
    (s.slice lo hi).bind showSlice
  | ["in", v] =>
    match parseVal v with
    | some v => (s.mem v).map fun b => .val (b2v b)
    | none => .throw
  | ["unpack", k] => (s.unpack k.toNat!).map (.seq false)
  | ["unpackSplat", a, b] =>
    (s.unpackSplat a.toNat! b.toNat!).map fun (x, m, y) => .seq false (x ++ [Val.ofList m] ++ y)
  | ["takeWhile", p] => (s.takeWhile (applyPred p)).map (.seq false)
  | _ => .throw

/-! ### Spec side -/

def fuelList (n : Nat) (g : Nat → Val) : List Val := (List.range n).map g

mutual
def specExpr : SExpr → R (SS Val)
  | .range r =>
    match r.stop with
    | none => .ok (.inf fun i => .int (r.start + i * r.step))
    | some e =>
      if r.step = 0 ∧ r.start < e then .ok (.inf fun _ => .int r.start)
      -- a progression too long to write down: outside the quantifier, correspondence only
      else if rangeCount r.start e r.step > 10000000 then .diverge
      else .ok (.fin ((rangeList r.start e r.step).map Val.int))
  | .perms base => .ok (.fin ((lexPerms base).map Val.ofList))
  | .combs base k => if k < 0 ∨ k > 18446744073709551615 then .throw else .ok (.fin ((combs k.toNat base).map Val.ofList))
  | .subseqs base => .ok (.fin ((subseqs base).map Val.ofList))
  | .cpow base k => if k < 0 ∨ k > 18446744073709551615 then .throw else .ok (.fin ((tuples base k.toNat).map Val.ofList))
  | .wrap base => .ok (.fin base)
  | .rep v => .ok (.inf fun _ => v)
  | .cyc base => if base.isEmpty then .throw else .ok (.inf fun i => base.getD (i % base.length) (.int 0))
  | .iter f v => .ok (.inf fun i => iterN (applyFn f) i v)
  | .map f e => (specExpr e).map (SS.map (applyFn f))
  | .filter p e => (specExpr e).map (SS.filter (applyPred p))
  | .zip f es =>
    (specExprs es).bind fun ss =>
      match ss.reverse with
      | [] => .throw
      | last :: restRev =>
        let z := restRev.foldl (fun acc s => SS.zipCons s acc) (SS.map (fun x => [x]) last)
        .ok (SS.map (applyFn2 f) z)
  | .dropS n e => (specExpr e).map (SS.drop n)
  | .revS e =>
    -- the property does not say what the reversal of an infinite stream is; a finite stream's
    -- `reverse` is a list, not a stream
    (specExpr e).bind fun _ => .diverge
  | .dropWhile p e =>
    (specExpr e).bind fun s =>
      match s.dropWhile (applyPred p) with
      | some t => .ok t
      | none => .diverge
def specExprs : List SExpr → R (List (SS Val))
  | [] => .ok []
  | e :: es => (specExpr e).bind fun s => (specExprs es).map fun ss => s :: ss
end

def optIdx : IdxArg → Option Int
  | .i n => some n
  | _ => none

/-- the observation on the mathematical stream; `streamKind` = whether the real result is
presented as a stream (the property speaks about contents only) -/
def obsSpec (obs : List String) (streamKind : Bool) : SS Val → R Res
  | .fin l =>
    match obs with
    | ["len"] => .ok (.val (.int l.length))
    | ["list"] => .ok (.seq false l)
    | ["pairs"] => .ok (.seq false (l.zipIdx.map fun (x, i) => Val.ofList [.int i, x]))
    | ["rev"] => .ok (.seq streamKind l.reverse)
    | ["last"] => match l.getLast? with
      | some v => .ok (.val v)
      | none => .throw
    | ["first"] => match l.head? with
      | some v => .ok (.val v)
      | none => .throw
    | ["truthy"] => .ok (.val (b2v (!l.isEmpty)))
    | ["only"] => match l with
      | [v] => .ok (.val v)
      | _ => .throw
    | ["idx", i] =>
      match parseIdx i with
      | .i n => match pyIndex l n with
        | some v => .ok (.val v)
        | none => .throw
      | _ => .throw
    | ["slice", lo, hi] =>
      match parseIdx lo, parseIdx hi with
      | .bad, _ => .throw
      | _, .bad => .throw
      | lo, hi => .ok (.seq streamKind (pySliceSpec l (optIdx lo) (optIdx hi)))
    | ["in", v] =>
      match parseVal v with
      | some v => .ok (.val (b2v (l.contains v)))
      | none => .throw
    | ["unpack", k] => if l.length = k.toNat! then .ok (.seq false l) else .throw
    | ["unpackSplat", a, b] =>
      let a := a.toNat!
      let b := b.toNat!
      if a + b ≤ l.length then
        .ok (.seq false (l.take a ++ [Val.ofList ((l.drop a).take (l.length - a - b))] ++ l.drop (l.length - b)))
      else .throw
    | ["takeWhile", p] => .ok (.seq false (l.takeWhile (applyPred p)))
    | _ => .throw
  | .inf g =>
    match obs with
    | ["len"] => .ok .infLen
    | ["truthy"] => .ok (.val (.int 1))
    | ["only"] => .throw
    | ["first"] => .ok (.val (g 0))
    | ["idx", i] =>
      match parseIdx i with
      | .i n => if 0 ≤ n then .ok (.val (g n.toNat)) else .diverge
      | _ => .throw
    | ["slice", lo, hi] =>
      match parseIdx lo, parseIdx hi with
      | .bad, _ => .throw
      | _, .bad => .throw
      | lo, hi =>
        let lo := (optIdx lo).getD 0
        match optIdx hi with
        | none => if 0 ≤ lo then .ok .infStream else .diverge
        | some hi =>
          if 0 ≤ lo ∧ 0 ≤ hi then
            .ok (.seq streamKind ((List.range (hi.toNat - lo.toNat)).map fun i => g (i + lo.toNat)))
          else .diverge
    | ["in", v] =>
      match parseVal v with
      | some v => if (List.range 100000).any (fun i => g i == v) then .ok (.val (.int 1)) else .diverge
      | none => .throw
    | ["unpack", _] => .throw
    | ["unpackSplat", _, _] => .throw
    | ["takeWhile", p] =>
      match (SS.inf g).takeWhile (applyPred p) with
      | some l => .ok (.seq false l)
      | none => .diverge
    | _ => .diverge

/-! ### element kinds: the named functions are only meaningful on the kind of element they are
written for (`\\x -> x + 1` on a list element raises in the real interpreter; the model has no
element errors).  The harness never generates such compositions; the driver double-checks and
answers `unsupported` so that a generator slip cannot become a false alarm. -/
inductive K where
  | int | list | any | bad
  deriving DecidableEq

def K.join : K → K → K
  | .any, k => k
  | k, .any => k
  | .int, .int => .int
  | .list, .list => .list
  | _, _ => .bad

def kindOfVal : Val → K
  | .int _ => .int
  | _ => .list

def kindOfList (l : List Val) : K := l.foldl (fun k v => k.join (kindOfVal v)) .any

/-- domain and codomain of a named unary function -/
def fnSig (f : String) : K × K :=
  match (splitArg f).1 with
  | "add" | "mul" | "sq" | "neg" => (.int, .int)
  | "pair" => (.any, .list)
  | "lenf" => (.list, .int)
  | "const" => (.any, .int)
  | _ => (.bad, .bad)

def predDom (p : String) : K :=
  match (splitArg p).1 with
  | "lt" | "gt" | "ne" | "even" => .int
  | "lenlt" | "evenlen" => .list
  | "tt" | "ff" => .any
  | _ => .bad

def K.fits (dom k : K) : Bool := (dom.join k) != .bad

mutual
def kindOf : SExpr → K
  | .range _ => .int
  | .perms _ | .combs _ _ | .subseqs _ | .cpow _ _ => .list
  | .wrap base => kindOfList base
  | .rep v => kindOfVal v
  | .cyc base => kindOfList base
  | .iter f v =>
    let (d, c) := fnSig f
    if d.fits .int && c == .int && kindOfVal v == .int then .int else .bad
  | .map f e =>
    let (d, c) := fnSig f
    let k := kindOf e
    if k != .bad && d.fits k then c else .bad
  | .filter p e =>
    let k := kindOf e
    if k != .bad && (predDom p).fits k then k else .bad
  | .zip f es =>
    let ks := kindsOf es
    if ks.any (· == .bad) then .bad
    else match f with
      | "plus" | "lin" => if ks.all (fun k => K.fits .int k) then .int else .bad
      | "firstf" => ks.headD .bad
      | _ => .list
  | .dropS _ e => kindOf e
  | .revS e => kindOf e
  | .dropWhile p e =>
    let k := kindOf e
    if k != .bad && (predDom p).fits k then k else .bad
def kindsOf : List SExpr → List K
  | [] => []
  | e :: es => kindOf e :: kindsOf es
end

def obsKindOk (obs : List String) (k : K) : Bool :=
  match obs with
  | ["takeWhile", p] => (predDom p).fits k
  | _ => true

def splitAt (xs : List String) : List String × List String :=
  (xs.takeWhile (· ≠ "@"), (xs.dropWhile (· ≠ "@")).drop 1)

def isStreamRes : R Res → Bool
  | .ok (.seq true _) => true
  | _ => false

def handle (args : List String) : String :=
  let (obs, ex) := splitAt args
  match parseExpr ex with
  | some (e, []) =>
    if kindOf e == .bad || !obsKindOk obs (kindOf e) then "unsupported\tunsupported\tunsupported" else
    let impl := (evalExpr e).bind (obsImpl obs)
    let specS := specExpr e
    let spec := specS.bind (obsSpec obs (isStreamRes impl))
    -- where the property is silent (`diverge` on the spec side: negative positions and reversal
    -- of infinite streams) the spec column repeats the impl column, marked in the diagnostics
    let kind := match specS with
      | .ok (.fin _) => "finite"
      | .ok (.inf _) => "infinite"
      | _ => "none"
    match spec with
    | .diverge => impl.render Res.render ++ "\t" ++ impl.render Res.render ++ "\t" ++ kind ++ " unspecified"
    | _ => impl.render Res.render ++ "\t" ++ spec.render Res.render ++ "\t" ++ kind
  | _ => "bad-op"

end Noulith.DriverC11
