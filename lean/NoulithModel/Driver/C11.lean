/- Line-protocol handler for C11 (stub until the model exists). -/
import NoulithModel.Common
namespace Noulith.DriverC11
def handle (_args : List String) : String := "bad-op"
end Noulith.DriverC11
