/- Line-protocol handler for C11.

Request:  `<observation tokens> @ <stream expression tokens>` (prefix notation, space separated)

  observation:  len | list | pairs | rev | last | first | truthy | only | idx <i|bad> | slice <lo|_|bad> <hi|_|bad>
              | in <val> | unpack <k> | unpackSplat <before> <after> | takeWhile <pred>
  stream expr:  til a b | tilby a b c | to a b | toby a b c | iota a | perms <list> | combs <list> k
              | subseqs <list> | cpow <list> k | wrap <list> | repeat <val> | cycle <list>
              | iterate <fn> <val> | map <fn> E | filter <pred> E | zip <fn2> <n> E1 … En
              | dropS n E | revS E | dropWhile <pred> E
  values:       decimal integers and bracketed lists without spaces, e.g. `[1,[2,3],-4]`

Response: `<impl result>\t<spec result>\t<finite|infinite>` -/
import NoulithModel.Spec.StreamSpec

namespace Noulith.DriverC11
open Noulith Noulith.Stream Noulith.StreamSpec

/-! ### parsing values -/
def parseIntChars (cs : List Char) : Option (Int × List Char) :=
  let (neg, cs) := match cs with
    | '-' :: r => (true, r)
    | r => (false, r)
  let ds := cs.takeWhile Char.isDigit
  let rest := cs.dropWhile Char.isDigit
  if ds.isEmpty then none
  else
    let n : Nat := ds.foldl (fun acc c => acc * 10 + (c.toNat - '0'.toNat)) 0
    some (if neg then -(n : Int) else (n : Int), rest)

mutual
def parseValChars : Nat → List Char → Option (Val × List Char)
  | 0, _ => none
  | _ + 1, '[' :: ']' :: rest => some (.nil, rest)
  | fuel + 1, '[' :: rest =>
    match parseElems fuel rest with
    | some (xs, rest') => some (Val.ofList xs, rest')
    | none => none
  | _ + 1, cs => (parseIntChars cs).map fun (n, r) => (.int n, r)
def parseElems : Nat → List Char → Option (List Val × List Char)
  | 0, _ => none
  | fuel + 1, cs =>
    match parseValChars fuel cs with
    | some (v, ',' :: rest) =>
      (parseElems fuel rest).map fun (vs, r) => (v :: vs, r)
    | some (v, ']' :: rest) => some ([v], rest)
    | _ => none
end

def parseVal (s : String) : Option Val :=
  match parseValChars (s.length + 2) s.toList with
  | some (v, []) => some v
  | _ => none

def parseList (s : String) : Option (List Val) := (parseVal s).bind fun v =>
  if v.isList then some v.elems else none

/-! ### the function pools shared with the harness -/
def vInt : Val → Int
  | .int n => n
  | _ => 0
def b2v (b : Bool) : Val := .int (if b then 1 else 0)

def splitArg (s : String) : String × Int :=
  match s.splitOn ":" with
  | [f, c] => (f, c.toInt?.getD 0)
  | _ => (s, 0)

/-- `add:c` x+c | `mul:c` x*c | `sq` x*x | `neg` | `pair` [x,x] | `lenf` len(x) | `const:c` -/
def applyFn (f : String) (x : Val) : Val :=
  match splitArg f with
  | ("add", c) => .int (vInt x + c)
  | ("mul", c) => .int (vInt x * c)
  | ("sq", _) => .int (vInt x * vInt x)
  | ("neg", _) => .int (-(vInt x))
  | ("pair", _) => Val.ofList [x, x]
  | ("lenf", _) => .int x.elems.length
  | ("const", c) => .int c
  | _ => x

/-- `lt:c` | `gt:c` | `ne:c` | `even` | `tt` | `ff` | `lenlt:c` | `evenlen` -/
def applyPred (p : String) (x : Val) : Bool :=
  match splitArg p with
  | ("lt", c) => vInt x < c
  | ("gt", c) => vInt x > c
  | ("ne", c) => vInt x ≠ c
  | ("even", _) => vInt x % 2 = 0
  | ("tt", _) => true
  | ("ff", _) => false
  | ("lenlt", c) => (x.elems.length : Int) < c
  | ("evenlen", _) => x.elems.length % 2 = 0
  | _ => false

/-- `none` (the argument list) | `plus` (sum) | `lin` (fold acc*10+x) | `firstf` -/
def applyFn2 (f : String) (args : List Val) : Val :=
  match f with
  | "plus" => .int (args.foldl (fun acc x => acc + vInt x) 0)
  | "lin" => .int (args.foldl (fun acc x => acc * 10 + vInt x) 0)
  | "firstf" => args.headD (.int 0)
  | _ => Val.ofList args

/-! ### stream expressions -/
inductive SExpr where
  | range (r : Range)
  | perms (base : List Val)
  | combs (base : List Val) (k : Int)
  | subseqs (base : List Val)
  | cpow (base : List Val) (k : Int)
  | wrap (base : List Val)
  | rep (v : Val)
  | cyc (base : List Val)
  | iter (f : String) (v : Val)
  | map (f : String) (e : SExpr)
  | filter (p : String) (e : SExpr)
  | zip (f : String) (es : List SExpr)
  | dropS (n : Nat) (e : SExpr)
  | revS (e : SExpr)
  | dropWhile (p : String) (e : SExpr)

mutual
partial def parseExpr : List String → Option (SExpr × List String)
  | "til" :: a :: b :: r => do some (.range (Range.til (← a.toInt?) (← b.toInt?) 1), r)
  | "tilby" :: a :: b :: c :: r => do some (.range (Range.til (← a.toInt?) (← b.toInt?) (← c.toInt?)), r)
  | "to" :: a :: b :: r => do some (.range (Range.to (← a.toInt?) (← b.toInt?) 1), r)
  | "toby" :: a :: b :: c :: r => do some (.range (Range.to (← a.toInt?) (← b.toInt?) (← c.toInt?)), r)
  | "iota" :: a :: r => do some (.range (Range.iota (← a.toInt?)), r)
  | "perms" :: l :: r => do some (.perms (← parseList l), r)
  | "combs" :: l :: k :: r => do some (.combs (← parseList l) (← k.toInt?), r)
  | "subseqs" :: l :: r => do some (.subseqs (← parseList l), r)
  | "cpow" :: l :: k :: r => do some (.cpow (← parseList l) (← k.toInt?), r)
  | "wrap" :: l :: r => do some (.wrap (← parseList l), r)
  | "repeat" :: v :: r => do some (.rep (← parseVal v), r)
  | "cycle" :: l :: r => do some (.cyc (← parseList l), r)
  | "iterate" :: f :: v :: r => do some (.iter f (← parseVal v), r)
  | "map" :: f :: r => do
    let (e, r') ← parseExpr r
    some (.map f e, r')
  | "filter" :: p :: r => do
    let (e, r') ← parseExpr r
    some (.filter p e, r')
  | "zip" :: f :: n :: r => do
    let (es, r') ← parseExprs (← n.toNat?) r
    some (.zip f es, r')
  | "dropS" :: n :: r => do
    let (e, r') ← parseExpr r
    some (.dropS (← n.toNat?) e, r')
  | "revS" :: r => do
    let (e, r') ← parseExpr r
    some (.revS e, r')
  | "dropWhile" :: p :: r => do
    let (e, r') ← parseExpr r
    some (.dropWhile p e, r')
  | _ => none
partial def parseExprs : Nat → List String → Option (List SExpr × List String)
  | 0, r => some ([], r)
  | n + 1, r => do
    let (e, r') ← parseExpr r
    let (es, r'') ← parseExprs n r'
    some (e :: es, r'')
end

/-! ### Impl side -/

def toCount (k : Int) : R Nat :=
  match toUsize k with
  | some n => .ok n
  | none => .throw

/-- a `ZippedStream` over the given streams, yielding the argument lists -/
def zipAll : List (Strm Val) → Option (Strm (List Val))
  | [] => none
  | [a] => some ⟨a.σ, zipOne a.ops, a.st⟩
  | a :: rest =>
    match zipAll rest with
    | some b => some ⟨a.σ × b.σ, zipOps a.ops b.ops, (a.st, b.st)⟩
    | none => none

mutual
def evalExpr : SExpr → R (Strm Val)
  | .range r => .ok ⟨Range, mapOut Val.int Range.ops, r⟩
  | .perms base => .ok ⟨Idx Val, mapOut Val.ofList Perm.ops, Perm.mk base⟩
  | .combs base k => (toCount k).map fun k => ⟨Idx Val, mapOut Val.ofList Comb.ops, Comb.mk base k⟩
  | .subseqs base => .ok ⟨Mask Val, mapOut Val.ofList Subseq.ops, Subseq.mk base⟩
  | .cpow base k => (toCount k).map fun k => ⟨Idx Val, mapOut Val.ofList CPow.ops, CPow.mk base k⟩
  | .wrap base => .ok ⟨Wrapped Val, Wrapped.ops, ⟨base, 0⟩⟩
  | .rep v => .ok ⟨Val, Repeat.ops, v⟩
  | .cyc base =>
    -- post-fix for F15: `cycle` rejects an empty argument
    if base.isEmpty then .throw else .ok ⟨Cycle Val, Cycle.ops, ⟨base, 0⟩⟩
  | .iter f v => .ok ⟨Val, Iterate.ops (applyFn f), v⟩
  | .map f e => (evalExpr e).map fun s => ⟨s.σ, mapOps s.ops (applyFn f), s.st⟩
  | .filter p e => (evalExpr e).map fun s => ⟨s.σ, filterOps s.ops (applyPred p), s.st⟩
  | .zip f es =>
    (evalExprs es).bind fun ss =>
      match zipAll ss with
      | some z => .ok ⟨z.σ, mapOps z.ops (applyFn2 f), z.st⟩
      | none => .throw
  | .dropS n e =>
    (evalExpr e).bind fun s =>
      (s.slice (some n) none).bind fun r =>
        match r with
        | .inr t => .ok t
        | .inl _ => .throw
  | .revS e =>
    (evalExpr e).bind fun s =>
      s.reversed.bind fun r =>
        match r with
        | .inr t => .ok t
        | .inl _ => .throw
  | .dropWhile p e => (evalExpr e).bind fun s => s.dropWhile (applyPred p)
def evalExprs : List SExpr → R (List (Strm Val))
  | [] => .ok []
  | e :: es => (evalExpr e).bind fun s => (evalExprs es).map fun ss => s :: ss
end

/-- what an observation returns -/
inductive Res where
  | val (v : Val)
  | infLen
  | seq (stream : Bool) (l : List Val)
  | infStream
  | streamErr

def renderList (l : List Val) : String := "[" ++ joinWith "," (l.map Val.render) ++ "]"

def Res.render : Res → String
  | .val v => v.render
  | .infLen => "f:7ff0000000000000"
  | .seq false l => renderList l
  | .seq true l => "stream" ++ renderList l
  | .infStream => "stream-inf"
  | .streamErr => "stream-err"

/-- how the harness's `canon` shows a stream value: `len()`, then `force()` -/
def showStrm (s : Strm Val) : R Res :=
  s.len.bind fun n =>
    match n with
    | none => .ok .infStream
    | some _ =>
      match s.ops.force s.st with
      | .ok l => .ok (.seq true l)
      | .throw => .ok .streamErr
      | .panic => .panic
      | .diverge => .diverge

def showSlice : Sum (List Val) (Strm Val) → R Res
  | .inl l => .ok (.seq false l)
  | .inr s => showStrm s

inductive IdxArg where
  | i (n : Int)
  | omitted
  | bad

def parseIdx (s : String) : IdxArg :=
  if s = "_" then .omitted
  else match s.toInt? with
    | some n => if -9223372036854775808 ≤ n ∧ n ≤ 9223372036854775807 then .i n else .bad
    | none => .bad

/-- `obj_to_isize_slice_index` -/
def sliceArg : IdxArg → R (Option Int)
  | .i n => .ok (some n)
  | .omitted => .ok none
  | .bad => .throw

def obsImpl (obs : List String) (s : Strm Val) : R Res :=
  match obs with
  | ["len"] => s.len.map fun n => match n with
    | some n => .val (.int n)
    | none => .infLen
  | ["list"] => s.toList.map (.seq false)
  | ["pairs"] => s.toList.map fun l => .seq false (l.zipIdx.map fun (x, i) => Val.ofList [.int i, x])
  | ["rev"] => s.reversed.bind showSlice
  | ["last"] => (s.index (-1)).map .val
  | ["first"] => (s.index 0).map .val
  | ["truthy"] => s.truthy.map fun b => .val (b2v b)
  | ["only"] => s.only.map .val
  | ["idx", i] =>
    match parseIdx i with
    | .i n => (s.index n).map .val
    | _ => .throw
  | ["slice", lo, hi] =>
    (sliceArg (parseIdx lo)).bind fun lo =>
    (sliceArg (parseIdx hi)).bind fun hi =>
    (s.slice lo hi).bind showSlice
  | ["in", v] =>
    match parseVal v with
    | some v => (s.mem v).map fun b => .val (b2v b)
    | none => .throw
  | ["unpack", k] => (s.unpack k.toNat!).map (.seq false)
  | ["unpackSplat", a, b] =>
    (s.unpackSplat a.toNat! b.toNat!).map fun (x, m, y) => .seq false (x ++ [Val.ofList m] ++ y)
  | ["takeWhile", p] => (s.takeWhile (applyPred p)).map (.seq false)
  | _ => .throw

/-! ### Spec side -/

def fuelList (n : Nat) (g : Nat → Val) : List Val := (List.range n).map g

mutual
def specExpr : SExpr → R (SS Val)
  | .range r =>
    match r.stop with
    | none => .ok (.inf fun i => .int (r.start + i * r.step))
    | some e =>
      if r.step = 0 ∧ r.start < e then .ok (.inf fun _ => .int r.start)
      -- a progression too long to write down: outside the quantifier, correspondence only
      else if rangeCount r.start e r.step > 10000000 then .diverge
      else .ok (.fin ((rangeList r.start e r.step).map Val.int))
  | .perms base => .ok (.fin ((lexPerms base).map Val.ofList))
  | .combs base k => if k < 0 ∨ k > 18446744073709551615 then .throw else .ok (.fin ((combs k.toNat base).map Val.ofList))
  | .subseqs base => .ok (.fin ((subseqs base).map Val.ofList))
  | .cpow base k => if k < 0 ∨ k > 18446744073709551615 then .throw else .ok (.fin ((tuples base k.toNat).map Val.ofList))
  | .wrap base => .ok (.fin base)
  | .rep v => .ok (.inf fun _ => v)
  | .cyc base => if base.isEmpty then .throw else .ok (.inf fun i => base.getD (i % base.length) (.int 0))
  | .iter f v => .ok (.inf fun i => iterN (applyFn f) i v)
  | .map f e => (specExpr e).map (SS.map (applyFn f))
  | .filter p e => (specExpr e).map (SS.filter (applyPred p))
  | .zip f es =>
    (specExprs es).bind fun ss =>
      match ss.reverse with
      | [] => .throw
      | last :: restRev =>
        let z := restRev.foldl (fun acc s => SS.zipCons s acc) (SS.map (fun x => [x]) last)
        .ok (SS.map (applyFn2 f) z)
  | .dropS n e => (specExpr e).map (SS.drop n)
  | .revS e =>
    -- the property does not say what the reversal of an infinite stream is; a finite stream's
    -- `reverse` is a list, not a stream
    (specExpr e).bind fun _ => .diverge
  | .dropWhile p e =>
    (specExpr e).bind fun s =>
      match s.dropWhile (applyPred p) with
      | some t => .ok t
      | none => .diverge
def specExprs : List SExpr → R (List (SS Val))
  | [] => .ok []
  | e :: es => (specExpr e).bind fun s => (specExprs es).map fun ss => s :: ss
end

def optIdx : IdxArg → Option Int
  | .i n => some n
  | _ => none

/-- the observation on the mathematical stream; `streamKind` = whether the real result is
presented as a stream (the property speaks about contents only) -/
def obsSpec (obs : List String) (streamKind : Bool) : SS Val → R Res
  | .fin l =>
    match obs with
    | ["len"] => .ok (.val (.int l.length))
    | ["list"] => .ok (.seq false l)
    | ["pairs"] => .ok (.seq false (l.zipIdx.map fun (x, i) => Val.ofList [.int i, x]))
    | ["rev"] => .ok (.seq streamKind l.reverse)
    | ["last"] => match l.getLast? with
      | some v => .ok (.val v)
      | none => .throw
    | ["first"] => match l.head? with
      | some v => .ok (.val v)
      | none => .throw
    | ["truthy"] => .ok (.val (b2v (!l.isEmpty)))
    | ["only"] => match l with
      | [v] => .ok (.val v)
      | _ => .throw
    | ["idx", i] =>
      match parseIdx i with
      | .i n => match pyIndex l n with
        | some v => .ok (.val v)
        | none => .throw
      | _ => .throw
    | ["slice", lo, hi] =>
      match parseIdx lo, parseIdx hi with
      | .bad, _ => .throw
      | _, .bad => .throw
      | lo, hi => .ok (.seq streamKind (pySliceSpec l (optIdx lo) (optIdx hi)))
    | ["in", v] =>
      match parseVal v with
      | some v => .ok (.val (b2v (l.contains v)))
      | none => .throw
    | ["unpack", k] => if l.length = k.toNat! then .ok (.seq false l) else .throw
    | ["unpackSplat", a, b] =>
      let a := a.toNat!
      let b := b.toNat!
      if a + b ≤ l.length then
        .ok (.seq false (l.take a ++ [Val.ofList ((l.drop a).take (l.length - a - b))] ++ l.drop (l.length - b)))
      else .throw
    | ["takeWhile", p] => .ok (.seq false (l.takeWhile (applyPred p)))
    | _ => .throw
  | .inf g =>
    match obs with
    | ["len"] => .ok .infLen
    | ["truthy"] => .ok (.val (.int 1))
    | ["only"] => .throw
    | ["first"] => .ok (.val (g 0))
    | ["idx", i] =>
      match parseIdx i with
      | .i n => if 0 ≤ n then .ok (.val (g n.toNat)) else .diverge
      | _ => .throw
    | ["slice", lo, hi] =>
      match parseIdx lo, parseIdx hi with
      | .bad, _ => .throw
      | _, .bad => .throw
      | lo, hi =>
        let lo := (optIdx lo).getD 0
        match optIdx hi with
        | none => if 0 ≤ lo then .ok .infStream else .diverge
        | some hi =>
          if 0 ≤ lo ∧ 0 ≤ hi then
            .ok (.seq streamKind ((List.range (hi.toNat - lo.toNat)).map fun i => g (i + lo.toNat)))
          else .diverge
    | ["in", v] =>
      match parseVal v with
      | some v => if (List.range 100000).any (fun i => g i == v) then .ok (.val (.int 1)) else .diverge
      | none => .throw
    | ["unpack", _] => .throw
    | ["unpackSplat", _, _] => .throw
    | ["takeWhile", p] =>
      match (SS.inf g).takeWhile (applyPred p) with
      | some l => .ok (.seq false l)
      | none => .diverge
    | _ => .diverge

/-! ### element kinds: the named functions are only meaningful on the kind of element they are
written for (`\\x -> x + 1` on a list element raises in the real interpreter; the model has no
element errors).  The harness never generates such compositions; the driver double-checks and
answers `unsupported` so that a generator slip cannot become a false alarm. -/
inductive K where
  | int | list | any | bad
  deriving DecidableEq

def K.join : K → K → K
  | .any, k => k
  | k, .any => k
  | .int, .int => .int
  | .list, .list => .list
  | _, _ => .bad

def kindOfVal : Val → K
  | .int _ => .int
  | _ => .list

def kindOfList (l : List Val) : K := l.foldl (fun k v => k.join (kindOfVal v)) .any

/-- domain and codomain of a named unary function -/
def fnSig (f : String) : K × K :=
  match (splitArg f).1 with
  | "add" | "mul" | "sq" | "neg" | "stopge" | "failge" | "mfail" => (.int, .int)
  | "pair" => (.any, .list)
  | "lenf" => (.list, .int)
  | "const" => (.any, .int)
  | _ => (.bad, .bad)

def predDom (p : String) : K :=
  match (splitArg p).1 with
  | "lt" | "gt" | "ne" | "even" | "pfail" => .int
  | "lenlt" | "evenlen" => .list
  | "tt" | "ff" => .any
  | _ => .bad

def K.fits (dom k : K) : Bool := (dom.join k) != .bad

mutual
def kindOf : SExpr → K
  | .range _ => .int
  | .perms _ | .combs _ _ | .subseqs _ | .cpow _ _ => .list
  | .wrap base => kindOfList base
  | .rep v => kindOfVal v
  | .cyc base => kindOfList base
  | .iter f v =>
    let (d, c) := fnSig f
    if d.fits .int && c == .int && kindOfVal v == .int then .int else .bad
  | .map f e =>
    let (d, c) := fnSig f
    let k := kindOf e
    if k != .bad && d.fits k then c else .bad
  | .filter p e =>
    let k := kindOf e
    if k != .bad && (predDom p).fits k then k else .bad
  | .zip f es =>
    let ks := kindsOf es
    if ks.any (· == .bad) then .bad
    else match (splitArg f).1 with
      | "plus" | "lin" | "zfail" => if ks.all (fun k => K.fits .int k) then .int else .bad
      | "firstf" => ks.headD .bad
      | _ => .list
  | .dropS _ e => kindOf e
  | .revS e => kindOf e
  | .dropWhile p e =>
    let k := kindOf e
    if k != .bad && (predDom p).fits k then k else .bad
def kindsOf : List SExpr → List K
  | [] => []
  | e :: es => kindOf e :: kindsOf es
end

def obsKindOk (obs : List String) (k : K) : Bool :=
  match obs with
  | ["takeWhile", p] => (predDom p).fits k
  | _ => true

/-! ### streams driven by partial functions (element errors): the second pathway

Names: `stopge:c` = `\\x -> if (x < c) x + 1 else break`, `failge:c` = `… else throw "boom"` (step
functions of `iterate`), `mfail:c` = `\\x -> if (x == c) throw "boom" else x + 1` (lazy_map),
`pfail:c` = `\\x -> if (x == c) throw "boom" else x % 2 == 0` (lazy_filter / take / drop),
`zfail:c` = `\\a, b -> if (a == c) throw "boom" else a + b` (lazy_zip).  An expression that uses one of
them is evaluated on item streams (`Impl/Stream.lean`, "element errors"). -/

def applyFnE (f : String) (x : Val) : FnRes Val :=
  match splitArg f with
  | ("stopge", c) => if vInt x < c then .ok (.int (vInt x + 1)) else .stop
  | ("failge", c) => if vInt x < c then .ok (.int (vInt x + 1)) else .fail
  | ("mfail", c) => if vInt x = c then .fail else .ok (.int (vInt x + 1))
  | _ => .ok (applyFn f x)

def applyPredE (p : String) (x : Val) : FnRes Bool :=
  match splitArg p with
  | ("pfail", c) => if vInt x = c then .fail else .ok (vInt x % 2 = 0)
  | _ => .ok (applyPred p x)

def applyFn2E (f : String) (args : List Val) : FnRes Val :=
  match splitArg f with
  | ("zfail", c) =>
    if vInt (args.headD (.int 0)) = c then .fail
    else .ok (.int (args.foldl (fun acc x => acc + vInt x) 0))
  | _ => .ok (applyFn2 f args)

def isPartialName (f : String) : Bool :=
  ["stopge", "failge", "mfail", "pfail", "zfail"].contains (splitArg f).1

mutual
def isPartial : SExpr → Bool
  | .iter f _ => isPartialName f
  | .map f e => isPartialName f || isPartial e
  | .filter p e => isPartialName p || isPartial e
  | .zip f es => isPartialName f || anyPartial es
  | .dropS _ e => isPartial e
  | .revS e => isPartial e
  | .dropWhile p e => isPartialName p || isPartial e
  | _ => false
def anyPartial : List SExpr → Bool
  | [] => false
  | e :: es => isPartial e || anyPartial es
end

def liftStrm (s : Strm Val) : Strm (Item Val) := ⟨s.σ, mapOut Item.ok s.ops, s.st⟩

def zipAllE : List (Strm (Item Val)) → Option (Strm (Item (List Val)))
  | [] => none
  | [a] => some ⟨Option a.σ, zipOneE a.ops, some a.st⟩
  | a :: rest =>
    match zipAllE rest with
    | some b => some ⟨Option (a.σ × b.σ), zipOpsE a.ops b.ops, some (a.st, b.st)⟩
    | none => none

def asStream {β : Type} : Sum (List β) (Strm β) → R (Strm β)
  | .inr t => .ok t
  | .inl _ => .throw

mutual
def evalExprE : SExpr → R (Strm (Item Val))
  | .iter f v =>
    if isPartialName f then .ok ⟨IterateE.St Val, IterateE.ops (applyFnE f), .run v⟩
    else (evalExpr (.iter f v)).map liftStrm
  | .map f e => (evalExprE e).map fun s => ⟨Option s.σ, mapOpsE s.ops (applyFnE f), some s.st⟩
  | .filter p e => (evalExprE e).map fun s => ⟨Option s.σ, filterOpsE s.ops (applyPredE p), some s.st⟩
  | .zip f es =>
    (evalExprsE es).bind fun ss =>
      match zipAllE ss with
      | some z => .ok ⟨Option z.σ, mapOpsE z.ops (applyFn2E f), some z.st⟩
      | none => .throw
  | .dropS n e => (evalExprE e).bind fun s => (s.slice (some n) none).bind asStream
  | .revS e => (evalExprE e).bind fun s => s.reversed.bind asStream
  | .dropWhile p e => (evalExprE e).bind fun s => StrmE.dropWhile s (applyPredE p)
  | .range r => (evalExpr (.range r)).map liftStrm
  | .perms b => (evalExpr (.perms b)).map liftStrm
  | .combs b k => (evalExpr (.combs b k)).map liftStrm
  | .subseqs b => (evalExpr (.subseqs b)).map liftStrm
  | .cpow b k => (evalExpr (.cpow b k)).map liftStrm
  | .wrap b => (evalExpr (.wrap b)).map liftStrm
  | .rep v => (evalExpr (.rep v)).map liftStrm
  | .cyc b => (evalExpr (.cyc b)).map liftStrm
def evalExprsE : List SExpr → R (List (Strm (Item Val)))
  | [] => .ok []
  | e :: es => (evalExprE e).bind fun s => (evalExprsE es).map fun ss => s :: ss
end

def showStrmE (s : Strm (Item Val)) : R Res :=
  s.len.bind fun n =>
    match n with
    | none => .ok .infStream
    | some _ =>
      match (s.ops.force s.st).bind StrmE.unItems with
      | .ok l => .ok (.seq true l)
      | .throw => .ok .streamErr
      | .panic => .panic
      | .diverge => .diverge

def showSliceE : Sum (List Val) (Strm (Item Val)) → R Res
  | .inl l => .ok (.seq false l)
  | .inr s => showStrmE s

def obsImplE (obs : List String) (s : Strm (Item Val)) : R Res :=
  match obs with
  | ["len"] => s.len.map fun n => match n with
    | some n => .val (.int n)
    | none => .infLen
  | ["list"] => (StrmE.toList s).map (.seq false)
  | ["pairs"] => (StrmE.toList s).map fun l => .seq false (l.zipIdx.map fun (x, i) => Val.ofList [.int i, x])
  | ["rev"] => (StrmE.reversed s).bind showSliceE
  | ["last"] => (StrmE.index s (-1)).map .val
  | ["first"] => (StrmE.index s 0).map .val
  | ["truthy"] => s.truthy.map fun b => .val (b2v b)
  | ["only"] => (StrmE.only s).map .val
  | ["idx", i] =>
    match parseIdx i with
    | .i n => (StrmE.index s n).map .val
    | _ => .throw
  | ["slice", lo, hi] =>
    (sliceArg (parseIdx lo)).bind fun lo =>
    (sliceArg (parseIdx hi)).bind fun hi =>
    (StrmE.slice s lo hi).bind showSliceE
  | ["in", v] =>
    match parseVal v with
    | some v => (StrmE.mem s v).map fun b => .val (b2v b)
    | none => .throw
  | ["unpack", k] => (StrmE.unpack s k.toNat!).map (.seq false)
  | ["takeWhile", p] => (StrmE.takeWhile s (applyPredE p)).map (.seq false)
  | _ => .diverge

/-! Spec for the second pathway: the values that are defined, then how the stream goes on -/
inductive Tail where
  | done
  | err
  | inf (g : Nat → Val)

structure SE where
  pre : List Val
  tail : Tail

def scanFuel : Nat := 3000

/-- values of `g` from 0 while `step` accepts them; `none` = every one of the first `scanFuel` -/
def scanInf (g : Nat → Val) (step : Val → Option (Option Val)) : Nat → Nat → List Val → Option (List Val × Bool)
  | 0, _, _ => none
  | fuel + 1, i, acc =>
    match step (g i) with
    | none => some (acc.reverse, true)            -- the function raised here
    | some (some w) => scanInf g step fuel (i + 1) (w :: acc)
    | some none => scanInf g step fuel (i + 1) acc  -- filtered out

def walkPre (step : Val → Option (Option Val)) : List Val → List Val → List Val × Bool
  | [], acc => (acc.reverse, false)
  | v :: vs, acc =>
    match step v with
    | none => (acc.reverse, true)
    | some (some w) => walkPre step vs (w :: acc)
    | some none => walkPre step vs acc

/-- a per-element transformation that may raise (`none`), keep a value, or drop the element -/
def SE.through (s : SE) (step : Val → Option (Option Val)) (total : Val → Val) (isMap : Bool) : R SE :=
  match walkPre step s.pre [] with
  | (p, true) => .ok ⟨p, .err⟩
  | (p, false) =>
    match s.tail with
    | .done => .ok ⟨p, .done⟩
    | .err => .ok ⟨p, .err⟩
    | .inf g =>
      match scanInf g step scanFuel 0 [] with
      | some (q, _) => .ok ⟨p ++ q, .err⟩
      | none => if isMap then .ok ⟨p, .inf fun i => total (g i)⟩ else .diverge

def specIter (f : String) : Nat → Val → List Val → R SE
  | 0, _, _ => .diverge
  | fuel + 1, cur, acc =>
    match applyFnE f cur with
    | .ok y => specIter f fuel y (cur :: acc)
    | .stop => .ok ⟨(cur :: acc).reverse, .done⟩
    | .fail => .ok ⟨(cur :: acc).reverse, .err⟩

def SE.at (s : SE) (i : Nat) : Option (Option Val) :=   -- some (some v) | some none = end | none = error
  if i < s.pre.length then some s.pre[i]?
  else match s.tail with
    | .done => some none
    | .err => none
    | .inf g => some (some (g (i - s.pre.length)))

/-- positions of a zip, left to right: the first end / error decides -/
def zipAt (ss : List SE) (i : Nat) : Option (Option (List Val)) :=
  match ss with
  | [] => some (some [])
  | s :: rest =>
    match s.at i with
    | none => none
    | some none => some none
    | some (some v) =>
      match zipAt rest i with
      | none => none
      | some none => some none
      | some (some vs) => some (some (v :: vs))

def specZip (f : String) (ss : List SE) : Nat → Nat → List Val → R SE
  | 0, _, _ => .diverge
  | fuel + 1, i, acc =>
    match zipAt ss i with
    | none => .ok ⟨acc.reverse, .err⟩
    | some none => .ok ⟨acc.reverse, .done⟩
    | some (some args) =>
      match applyFn2E f args with
      | .ok w => specZip f ss fuel (i + 1) (w :: acc)
      | _ => .ok ⟨acc.reverse, .err⟩

def fnStep (f : String) (v : Val) : Option (Option Val) :=
  match applyFnE f v with
  | .ok w => some (some w)
  | _ => none
def predStep (p : String) (v : Val) : Option (Option Val) :=
  match applyPredE p v with
  | .ok true => some (some v)
  | .ok false => some none
  | _ => none

def dropWhilePre (p : String) : List Val → Option (List Val)   -- none = raised
  | [] => some []
  | v :: vs =>
    match applyPredE p v with
    | .ok true => dropWhilePre p vs
    | .ok false => some (v :: vs)
    | _ => none

def liftSpec (r : R (SS Val)) : R SE :=
  r.map fun s => match s with
    | .fin l => ⟨l, .done⟩
    | .inf g => ⟨[], .inf g⟩

mutual
def specExprE : SExpr → R SE
  | .iter f v =>
    if isPartialName f then specIter f scanFuel v []
    else .ok ⟨[], .inf fun i => iterN (applyFn f) i v⟩
  | .map f e => (specExprE e).bind fun s => s.through (fnStep f) (applyFn f) true
  | .filter p e => (specExprE e).bind fun s => s.through (predStep p) id false
  | .zip f es => (specExprsE es).bind fun ss => specZip f ss scanFuel 0 []
  | .dropS n e =>
    (specExprE e).bind fun s =>
      if n ≤ s.pre.length then .ok ⟨s.pre.drop n, s.tail⟩
      else match s.tail with
        | .done => .ok ⟨[], .done⟩
        | .err => .diverge
        | .inf g => .ok ⟨[], .inf fun i => g (i + (n - s.pre.length))⟩
  | .revS _ => .diverge
  | .dropWhile p e =>
    (specExprE e).bind fun s =>
      match dropWhilePre p s.pre with
      | none => .throw
      | some (v :: vs) => .ok ⟨v :: vs, s.tail⟩
      | some [] =>
        match s.tail with
        | .done => .ok ⟨[], .done⟩
        | .err => .throw
        | .inf _ => .diverge
  | .range r => liftSpec (specExpr (.range r))
  | .perms b => liftSpec (specExpr (.perms b))
  | .combs b k => liftSpec (specExpr (.combs b k))
  | .subseqs b => liftSpec (specExpr (.subseqs b))
  | .cpow b k => liftSpec (specExpr (.cpow b k))
  | .wrap b => liftSpec (specExpr (.wrap b))
  | .rep v => liftSpec (specExpr (.rep v))
  | .cyc b => liftSpec (specExpr (.cyc b))
def specExprsE : List SExpr → R (List SE)
  | [] => .ok []
  | e :: es => (specExprE e).bind fun s => (specExprsE es).map fun ss => s :: ss
end

/-- the whole list, when the stream ends without an error -/
def SE.whole (s : SE) : R (List Val) :=
  match s.tail with
  | .done => .ok s.pre
  | .err => .throw
  | .inf _ => .diverge

def takeWhilePre (p : String) : List Val → List Val → Option (List Val × Bool)  -- (taken, stopped inside)
  | [], acc => some (acc.reverse, false)
  | v :: vs, acc =>
    match applyPredE p v with
    | .ok true => takeWhilePre p vs (v :: acc)
    | .ok false => some (acc.reverse, true)
    | _ => none

def obsSpecE (obs : List String) (streamKind : Bool) (s : SE) : R Res :=
  let n := s.pre.length
  match obs with
  | ["list"] => s.whole.map (.seq false)
  | ["pairs"] => s.whole.map fun l => .seq false (l.zipIdx.map fun (x, i) => Val.ofList [.int i, x])
  | ["first"] =>
    match s.at 0 with
    | some (some v) => .ok (.val v)
    | _ => .throw
  | ["idx", i] =>
    match parseIdx i with
    | .i k =>
      if 0 ≤ k then
        match s.at k.toNat with
        | some (some v) => .ok (.val v)
        | _ => .throw
      else s.whole.bind fun l => match pyIndex l k with
        | some v => .ok (.val v)
        | none => .throw
    | _ => .throw
  | ["last"] => s.whole.bind fun l => match l.getLast? with
    | some v => .ok (.val v)
    | none => .throw
  | ["rev"] => s.whole.map fun l => .seq false l.reverse
  | ["slice", lo, hi] =>
    match parseIdx lo, parseIdx hi with
    | .bad, _ => .throw
    | _, .bad => .throw
    | lo, hi =>
      let lo' := (optIdx lo).getD 0
      match optIdx hi with
      | some hi' =>
        if 0 ≤ lo' ∧ 0 ≤ hi' then
          if hi'.toNat ≤ n then .ok (.seq streamKind ((s.pre.drop lo'.toNat).take (hi'.toNat - lo'.toNat)))
          else match s.tail with
            | .done => .ok (.seq streamKind (s.pre.drop lo'.toNat))
            | .err => if lo'.toNat ≤ n then .throw else .diverge
            | .inf g =>
              .ok (.seq streamKind ((s.pre ++ (List.range (hi'.toNat - n)).map g).drop lo'.toNat))
        else s.whole.map fun l => .seq streamKind (pySliceSpec l (some lo') (some hi'))
      | none =>
        if 0 ≤ lo' then .diverge   -- a stream again: how it is shown depends on its `len`
        else s.whole.map fun l => .seq streamKind (pySliceSpec l (some lo') none)
  | ["in", v] =>
    match parseVal v with
    | some v =>
      if s.pre.contains v then .ok (.val (.int 1))
      else match s.tail with
        | .done => .ok (.val (.int 0))
        | .err => .throw
        | .inf g => if (List.range scanFuel).any (fun i => g i == v) then .ok (.val (.int 1)) else .diverge
    | none => .throw
  | ["takeWhile", p] =>
    match takeWhilePre p s.pre [] with
    | none => .throw
    | some (l, true) => .ok (.seq false l)
    | some (l, false) =>
      match s.tail with
      | .done => .ok (.seq false l)
      | .err => .throw
      | .inf _ => .diverge
  | _ => .diverge   -- len / truthiness / only / unpack: not specified for function-driven streams

def splitAt (xs : List String) : List String × List String :=
  (xs.takeWhile (· ≠ "@"), (xs.dropWhile (· ≠ "@")).drop 1)

def isStreamRes : R Res → Bool
  | .ok (.seq true _) => true
  | _ => false

def handle (args : List String) : String :=
  let (obs, ex) := splitAt args
  match parseExpr ex with
  | some (e, []) =>
    if kindOf e == .bad || !obsKindOk obs (kindOf e) then "unsupported\tunsupported\tunsupported" else
    if isPartial e || (match obs with | ["takeWhile", p] => isPartialName p | _ => false) then
      let impl := (evalExprE e).bind (obsImplE obs)
      let spec := (specExprE e).bind (obsSpecE obs (isStreamRes impl))
      match spec with
      | .diverge => impl.render Res.render ++ "\t" ++ impl.render Res.render ++ "\tpartial unspecified"
      | _ => impl.render Res.render ++ "\t" ++ spec.render Res.render ++ "\tpartial"
    else
    let impl := (evalExpr e).bind (obsImpl obs)
    let specS := specExpr e
    let spec := specS.bind (obsSpec obs (isStreamRes impl))
    -- where the property is silent (`diverge` on the spec side: negative positions and reversal
    -- of infinite streams) the spec column repeats the impl column, marked in the diagnostics
    let kind := match specS with
      | .ok (.fin _) => "finite"
      | .ok (.inf _) => "infinite"
      | _ => "none"
    match spec with
    | .diverge => impl.render Res.render ++ "\t" ++ impl.render Res.render ++ "\t" ++ kind ++ " unspecified"
    | _ => impl.render Res.render ++ "\t" ++ spec.render Res.render ++ "\t" ++ kind
  | _ => "bad-op"

end Noulith.DriverC11
