/- Line-protocol handler for C14 (stub until the model exists). -/
import NoulithModel.Common
namespace Noulith.DriverC14
def handle (_args : List String) : String := "bad-op"
end Noulith.DriverC14
