/- Line-protocol handler for C03 (stub until the model exists). -/
import NoulithModel.Common
namespace Noulith.DriverC03
def handle (_args : List String) : String := "bad-op"
end Noulith.DriverC03
