/- Line-protocol handler for C03.

Requests (tokens separated by single spaces, none contains a space):

  ce  <leaf> (<op> <leaf>)*            drive `ChainEvaluator::{new,give,finish}` directly
  src <nargs> <tok>* [A:<i>]*          the `Expr::Chain` arm through parse+evaluate; `tok` alternates
                                       operand / operator; the last `nargs` tokens are the arguments the
                                       resulting section is applied to (nargs = `-` : not applied)
  real <leaf> (<name> <leaf>)*         a chain over real builtins (precedence, associativity and
                                       try_chain behaviour taken from Generated/C03Tables)

  <op>   = id,cls,accepts,limit,fail,prec,assoc      prec = n | <int rank>, assoc = L | R
  operand tokens of `src`: E:<i> (logs, value i) | T:<i> (logs, then throws) | U (underscore)
  operator tokens of `src`: O:<op> (identifier) | B:<op> (backticked logging expression) | X:<i>
                            (identifier bound to a non-function)

Response: `<impl>\t<spec>\t<impl with the interleaved event log>`.
  ce/src : `ok <value> evals=<…> apps=<…>` | `throw` | `panic`
  real   : `ok <s-expression>`
-/
import NoulithModel.Spec.ChainTree
import NoulithModel.Generated.C03Tables
import NoulithModel.Spec.ChainTables

namespace Noulith.DriverC03
open Noulith Noulith.Chain

/-- the harness's `TreeOp` builtin -/
structure TOp where
  id : String
  cls : Nat
  accepts : Nat      -- bit k set: chains with an arriving operator of class k
  limit : Nat        -- merges still allowed (9 = unlimited)
  fail : Nat         -- 0 = builds a list, 1 = throws, 2 = panics
  deriving Repr, DecidableEq

def tryChainT (a b : TOp) : Option TOp :=
  if a.limit > 0 && a.accepts.testBit b.cls then
    some { a with id := a.id ++ "_" ++ b.id, limit := if a.limit == 9 then 9 else a.limit - 1 }
  else none

/-- values of the driver's interpreter -/
inductive DVal where
  | v (text : String) (apps : List String)
  | fn (op : TOp) (prec : Precedence)
  | sec (seed : Option DVal) (ops : List (TOp × Precedence × Option DVal))

def DVal.text : DVal → String
  | .v t _ => t
  | .fn _ _ => "<func>"
  | .sec _ _ => "<func>"
def DVal.apps : DVal → List String
  | .v _ a => a
  | _ => []

def strHex (s : String) : String := "s:" ++ hexOfBytes (s.toUTF8.toList.map (·.toNat))

def runT (f : TOp) (args : List DVal) : Out DVal :=
  match f.fail with
  | 0 => .ok (.v ("[" ++ joinWith "," (strHex f.id :: args.map DVal.text) ++ "]")
                (args.flatMap DVal.apps ++ [f.id]))
  | 1 => .throw
  | _ => .panic

def parsePrec (p a : String) : Option Precedence :=
  let pr : Option Prec := if p == "n" then some .nan else p.toInt?.map .fin
  let as : Option Assoc := if a == "L" then some .left else if a == "R" then some .right else none
  match pr, as with
  | some x, some y => some ⟨x, y⟩
  | _, _ => none

def parseOp (s : String) : Option (Op TOp) :=
  match s.splitOn "," with
  | [id, cls, acc, lim, fail, p, a] =>
    match cls.toNat?, acc.toNat?, lim.toNat?, fail.toNat?, parsePrec p a with
    | some c, some ac, some l, some f, some pr => some ⟨⟨id, c, ac, l, f⟩, pr⟩
    | _, _, _, _, _ => none
  | _ => none

def leafVal (i : Nat) : DVal := .v (toString i) []

def parsePairs : List String → Option (List (Op TOp × Nat))
  | [] => some []
  | o :: x :: rest =>
    match parseOp o, x.toNat?, parsePairs rest with
    | some g, some i, some r => some ((g, i) :: r)
    | _, _, _ => none
  | _ => none

def renderVal (r : Out DVal) (evals : Option (List String)) : String :=
  match r with
  | .ok d =>
    "ok " ++ d.text ++ (match evals with | some e => " evals=" ++ joinWith "," e | none => "")
      ++ " apps=" ++ joinWith "," d.apps
  | .throw => "throw"
  | .panic => "panic"

/-! ### ce -/
def handleCe (first : Nat) (pairs : List (Op TOp × Nat)) : String :=
  let impl := evalChain runT tryChainT (leafVal first)
    (pairs.map fun (g, i) => (g.fn, g.prec, leafVal i))
  let tree := climbTree tryChainT (⟨first, pairs⟩ : ChainOf TOp Nat)
  let spec := semM runT tryChainT leafVal tree
  renderVal impl none ++ "\t" ++ renderVal spec none ++ "\t-"

/-! ### src -/
inductive Ex where
  | opd (i : Nat)
  | thr (i : Nat)
  | und
  | opr (g : Op TOp)
  | bopr (k : Nat) (g : Op TOp)
  | nonf (k : Nat)
  | arg (i : Nat)

def Ex.name : Ex → String
  | .opd i => s!"e{i}"
  | .thr i => s!"e{i}"
  | .und => "_"
  | .opr _ => ""          -- a plain identifier leaves no trace
  | .bopr k _ => s!"o{k}"
  | .nonf _ => ""
  | .arg i => s!"e{i}"

def lang : Lang Ex TOp DVal where
  evaluate
    | .opd i => .ok (leafVal i)
    | .thr _ => .throw
    | .und => .throw          -- a bare `_` outside a section is an error
    | .opr g => .ok (.fn g.fn g.prec)
    | .bopr _ g => .ok (.fn g.fn g.prec)
    | .nonf k => .ok (leafVal k)
    | .arg i => .ok (leafVal i)
  isUnderscore | .und => true | _ => false
  asFunc | .fn f p => some (f, p) | .sec _ _ => none | .v _ _ => none
  mkSection := .sec
  run := runT
  run2 := fun f a b => runT f [a, b]
  tryChain := tryChainT

def parseEx (pos : Nat) (s : String) : Option Ex :=
  if s == "U" then some .und
  else match s.splitOn ":" with
    | ["E", i] => i.toNat?.map .opd
    | ["T", i] => i.toNat?.map .thr
    | ["A", i] => i.toNat?.map .arg
    | ["X", i] => i.toNat?.map .nonf
    | ["O", o] => (parseOp o).map .opr
    | ["B", o] => (parseOp o).map (.bopr pos)
    | _ => none

def parseExs : Nat → List String → Option (List Ex)
  | _, [] => some []
  | n, s :: rest =>
    match parseEx n s, parseExs (n + 1) rest with
    | some e, some r => some (e :: r)
    | _, _ => none

def pairUp : List Ex → Option (List (Ex × Ex))
  | [] => some []
  | a :: b :: rest => (pairUp rest).map ((a, b) :: ·)
  | _ => none

def traceNames (l : List Ex) : List String := (l.map Ex.name).filter (· ≠ "")

/-- evaluate the argument expressions of the call in order (the `Expr::Call` arm, outside C03) -/
def evalArgs : List Ex → Tr Ex (List DVal)
  | [] => Tr.pure []
  | a :: rest => Tr.bind (evalT lang a) fun v => Tr.bind (evalArgs rest) fun vs => Tr.pure (v :: vs)

/-- the spec for the same request: the climbing tree over the operands with holes filled by the
arguments, evaluated bottom-up; sub-expressions evaluated once each, left to right (chain first,
then the arguments) -/
def specSrc (op1 : Ex) (ops : List (Ex × Ex)) (args : Option (List Ex)) : String :=
  -- fill holes
  let holes := (if lang.isUnderscore op1 then 1 else 0) + (ops.filter fun p => lang.isUnderscore p.2).length
  let isSection := holes > 0
  let argl := args.getD []
  let fill : List Ex → List Ex → List Ex := fun es as =>
    (es.foldl (fun (acc : List Ex × List Ex) e =>
      if lang.isUnderscore e then
        match acc.2 with
        | a :: rest => (acc.1 ++ [a], rest)
        | [] => (acc.1 ++ [e], [])
      else (acc.1 ++ [e], acc.2)) ([], as)).1
  let opds := fill (op1 :: ops.map (·.2)) argl
  let oprs := ops.map (·.1)
  -- expected evaluation order of the sub-expressions
  let order := ((if lang.isUnderscore op1 then [] else [op1]) ++
    ops.flatMap (fun p => if lang.isUnderscore p.2 then [p.1] else [p.1, p.2])) ++ argl
  -- any failing / ill-typed sub-expression: the chain raises
  let bad := order.any fun e => match e with
    | .thr _ => true | .nonf _ => true | .und => true | _ => false
  if !isSection && args.isSome then "unsupported"
  else if bad then "throw"
  else if isSection && args.isNone then "ok <func> evals=" ++ joinWith "," (traceNames order) ++ " apps="
  else if isSection && argl.length ≠ holes then "throw"
  else
    let toNat : Ex → Nat := fun e => match e with | .opd i => i | .arg i => i | _ => 0
    let toOp : Ex → Op TOp := fun e => match e with
      | .opr g => g | .bopr _ g => g | _ => ⟨⟨"?", 0, 0, 0, 1⟩, Precedence.zero⟩
    match opds with
    | [] => "throw"
    | f :: restOpds =>
      let c : ChainOf TOp Nat := ⟨toNat f, (oprs.map toOp).zip (restOpds.map toNat)⟩
      renderVal (semM runT tryChainT leafVal (climbTree tryChainT c)) (some (traceNames order))

def handleSrc (nargs : Option Nat) (exs : List Ex) : String :=
  let n := exs.length - nargs.getD 0
  let chainToks := exs.take n
  let argToks := exs.drop n
  match chainToks with
  | [] => "bad-op"
  | op1 :: restToks =>
    match pairUp restToks with
    | none => "bad-op"
    | some ops =>
      let r : Tr Ex DVal :=
        match nargs with
        | none => chainArm lang op1 ops
        | some _ =>
          Tr.bind (chainArm lang op1 ops) fun callee =>
          Tr.bind (evalArgs argToks) fun args =>
          match callee with
          | .sec seed sops => Tr.lift (runChainSection lang seed sops args)
          | _ => Tr.fail
      let impl := renderVal r.2 (some (traceNames r.1))
      impl ++ "\t" ++ specSrc op1 ops (nargs.map fun _ => argToks) ++ "\t-"

/-! ### srcs: chains whose operands have effects on the operators of the same chain

  srcs <nargs|-> <k> (<var> <op>){k} <tok>*
  operand tokens : E:<i> | S:<i>:<eff> | U      eff = a-<x>-<y>  (x = y: x gets y's current value)
                                                     p-<x>-<r>  (x::precedence = r, r = n | int)
                                                     w-<x>-<y>  (swap x, y)
                                                     q-<x>-<y>  (swap x::precedence, y::precedence)
  operator tokens: V:<var> (identifier) | W:<var> (backticked logging expression)
  the last nargs tokens are A:<i> arguments the section is applied to -/

abbrev EnvS := List (String × TOp × Precedence)
/-- interpreter state of `srcs`: the operator variables, and what the probing operator functions
have seen (rendered values of the chains they evaluated) -/
abbrev StS := EnvS × List String

inductive Eff where
  | assign (x y : String)
  | setp (x : String) (p : Prec)
  | swapv (x y : String)
  | swapp (x y : String)
  /-- `x::precedence += r` / `-= r` / `.= (\p -> p + r)` -/
  | opadd (x : String) (r : Int)
  /-- `x::precedence *= r` -/
  | opmul (x : String) (r : Int)
  /-- `try x::precedence op= v catch _ -> null` with an op-assignment that cannot complete
  (division by zero, wrong operand kind, a throwing operator function, a non-number result) -/
  | opfail (x : String)
  /-- `x::precedence pb= r` where `pb := \p, d -> (lgv(100 y 101 z 102); p + d)`: the operator
  function evaluates a chain over the operators of the outer chain while the op-assignment runs -/
  | probe (x : String) (r : Int) (y z : String)

def EnvS.get (env : EnvS) (x : String) : Option (TOp × Precedence) := List.lookup x env
def EnvS.set (env : EnvS) (x : String) (v : TOp × Precedence) : EnvS :=
  env.map fun e => if e.1 == x then (x, v) else e

def _root_.Noulith.Chain.Prec.addI : Prec → Int → Prec
  | .nan, _ => .nan
  | .fin a, r => .fin (a + r)
def _root_.Noulith.Chain.Prec.mulI : Prec → Int → Prec
  | .nan, _ => .nan
  | .fin a, r => .fin (a * r)

/-- the chain `100 y 101 z 102` in environment `env`, rendered -/
def innerChain (env : EnvS) (y z : String) : Option String :=
  match env.get y, env.get z with
  | some (fy, py), some (fz, pz) =>
    match evalChain runT tryChainT (leafVal 100) [(fy, py, leafVal 101), (fz, pz, leafVal 102)] with
    | .ok d => some d.text
    | _ => none
  | _, _ => none

/-- an op-assignment on `x::precedence` through the Impl transcription `precedenceOpAssign` -/
def opAssign (st : StS) (x : String) (combine : Prec → Precedence → Out (Option Prec))
    (seen : Precedence → Option String) : Option StS :=
  match st.1.get x with
  | none => none
  | some (f, pr) =>
    let r := precedenceOpAssign pr combine
    -- what a chain evaluated by the operator function sees: the slot after the drop step
    let st' : StS := (st.1.set x (f, r.2), match seen (setPrecedence pr none) with
      | some t => st.2 ++ [t] | none => st.2)
    some st'

/-- the effect of an operand's statement on the state; `none` = the operand raises -/
def Eff.apply (st : StS) : Eff → Option StS
  | .assign x y => match st.1.get x, st.1.get y with
    | some _, some vy => some (st.1.set x vy, st.2)
    | _, _ => none
  | .setp x p => match st.1.get x with
    | some (f, pr) => some (st.1.set x (f, setPrecedence pr (some p)), st.2)
    | none => none
  | .swapv x y => match st.1.get x, st.1.get y with
    | some vx, some vy => some ((st.1.set x vy).set y vx, st.2)
    | _, _ => none
  | .swapp x y => match st.1.get x, st.1.get y with
    | some (fx, px), some (fy, py) =>
      some ((st.1.set x (fx, ⟨py.p, px.a⟩)).set y (fy, ⟨px.p, py.a⟩), st.2)
    | _, _ => none
  | .opadd x r => opAssign st x (fun old _ => .ok (some (old.addI r))) (fun _ => none)
  | .opmul x r => opAssign st x (fun old _ => .ok (some (old.mulI r))) (fun _ => none)
  | .opfail x => opAssign st x (fun _ _ => .throw) (fun _ => none)   -- caught by the `try`
  | .probe x r y z =>
    match st.1.get x with
    | none => none
    | some (f, _) =>
      opAssign st x (fun old _ => .ok (some (old.addI r)))
        (fun during => innerChain (st.1.set x (f, during)) y z)

inductive ExS where
  | opd (i : Nat) (eff : Option Eff)
  | und
  | vopr (x : String)
  | bopr (k : Nat) (x : String)
  | arg (i : Nat)

def ExS.name : ExS → String
  | .opd i _ => s!"e{i}"
  | .und => "_"
  | .vopr _ => ""
  | .bopr k _ => s!"o{k}"
  | .arg i => s!"e{i}"

def langS : LangS StS ExS TOp DVal where
  evaluate
    | .opd i none, st => (.ok (leafVal i), st)
    | .opd i (some eff), st => match eff.apply st with
      | some st' => (.ok (leafVal i), st')
      | none => (.throw, st)
    | .und, st => (.throw, st)
    | .vopr x, st => match st.1.get x with
      | some (f, p) => (.ok (.fn f p), st)
      | none => (.throw, st)
    | .bopr _ x, st => match st.1.get x with
      | some (f, p) => (.ok (.fn f p), st)
      | none => (.throw, st)
    | .arg i, st => (.ok (leafVal i), st)
  isUnderscore | .und => true | _ => false
  asFunc | .fn f p => some (f, p) | .sec _ _ => none | .v _ _ => none
  mkSection := .sec
  run := runT
  run2 := fun f a b => runT f [a, b]
  tryChain := tryChainT

def parsePrecOnly (p : String) : Option Prec :=
  if p == "n" then some .nan else p.toInt?.map .fin

/-- `P3` = 3, `M3` = -3 -/
def parseSInt (s : String) : Option Int :=
  if s.startsWith "P" then (s.drop 1).toString.toNat?.map Int.ofNat
  else if s.startsWith "M" then (s.drop 1).toString.toNat?.map (fun n => - Int.ofNat n)
  else none

def parseEff (s : String) : Option Eff :=
  match s.splitOn "-" with
  | ["a", x, y] => some (.assign x y)
  | ["p", x, r] => (parsePrecOnly r).map (.setp x)
  | ["p", x, "", r] => (parsePrecOnly ("-" ++ r)).map (.setp x)
  | ["w", x, y] => some (.swapv x y)
  | ["q", x, y] => some (.swapp x y)
  | ["oa", x, r] => (parseSInt r).map (.opadd x)
  | ["om", x, r] => (parseSInt r).map (.opmul x)
  | ["of", x] => some (.opfail x)
  | ["ob", x, r, y, z] => (parseSInt r).map (fun r => .probe x r y z)
  | _ => none

def parseExS (pos : Nat) (s : String) : Option ExS :=
  if s == "U" then some .und
  else match s.splitOn ":" with
    | ["E", i] => i.toNat?.map (.opd · none)
    | ["S", i, e] => match i.toNat?, parseEff e with
      | some n, some eff => some (.opd n (some eff))
      | _, _ => none
    | ["A", i] => i.toNat?.map .arg
    | ["V", x] => some (.vopr x)
    | ["W", x] => some (.bopr pos x)
    | _ => none

def parseExSs : Nat → List String → Option (List ExS)
  | _, [] => some []
  | n, s :: rest =>
    match parseExS n s, parseExSs (n + 1) rest with
    | some e, some r => some (e :: r)
    | _, _ => none

def pairUpS : List ExS → Option (List (ExS × ExS))
  | [] => some []
  | a :: b :: rest => (pairUpS rest).map ((a, b) :: ·)
  | _ => none

def parseEnvS : Nat → List String → Option (EnvS × List String)
  | 0, rest => some ([], rest)
  | k + 1, x :: o :: rest =>
    match parseOp o, parseEnvS k rest with
    | some g, some (env, r) => some ((x, g.fn, g.prec) :: env, r)
    | _, _ => none
  | _, _ => none

def traceNamesS (l : List ExS) : List String := (l.map ExS.name).filter (· ≠ "")

def seenSuffix (seen : List String) : String :=
  if seen.isEmpty then "" else " seen=" ++ joinWith ";" seen

/-! Spec for `srcs`, written independently of the Impl transcription: the only things that change
the precedence an operator carries are COMPLETED assignments; a failed op-assignment changes
nothing, and while an op-assignment's operator function runs nothing has been assigned yet. -/

def specEff (st : StS) : Eff → Option StS
  | .assign x y => match st.1.get x, st.1.get y with
    | some _, some vy => some (st.1.set x vy, st.2)
    | _, _ => none
  | .setp x p => (st.1.get x).map fun (f, pr) => (st.1.set x (f, ⟨p, pr.a⟩), st.2)
  | .swapv x y => match st.1.get x, st.1.get y with
    | some vx, some vy => some ((st.1.set x vy).set y vx, st.2)
    | _, _ => none
  | .swapp x y => match st.1.get x, st.1.get y with
    | some (fx, px), some (fy, py) =>
      some ((st.1.set x (fx, ⟨py.p, px.a⟩)).set y (fy, ⟨px.p, py.a⟩), st.2)
    | _, _ => none
  | .opadd x r => (st.1.get x).map fun (f, pr) => (st.1.set x (f, ⟨pr.p.addI r, pr.a⟩), st.2)
  | .opmul x r => (st.1.get x).map fun (f, pr) => (st.1.set x (f, ⟨pr.p.mulI r, pr.a⟩), st.2)
  | .opfail x => (st.1.get x).map fun _ => st
  | .probe x r y z => (st.1.get x).map fun (f, pr) =>
      (st.1.set x (f, ⟨pr.p.addI r, pr.a⟩),
        match innerChainSpec st.1 y z with | some t => st.2 ++ [t] | none => st.2)
where
  /-- the inner chain is evaluated in the environment as it is BEFORE the assignment -/
  innerChainSpec (env : EnvS) (y z : String) : Option String :=
    match env.get y, env.get z with
    | some (fy, py), some (fz, pz) =>
      let c : ChainOf TOp Nat := ⟨100, [(⟨fy, py⟩, 101), (⟨fz, pz⟩, 102)]⟩
      match semM runT tryChainT leafVal (climbTree tryChainT c) with
      | .ok d => some d.text
      | _ => none
    | _, _ => none

/-- walk the chain left to right threading the state; the operator of a position is what its
variable holds THERE; then group the resolved chain by climbing -/
def specResolve : List (ExS × ExS) → StS → Option (List (Op TOp × Option Nat) × StS)
  | [], st => some ([], st)
  | (oper, opd) :: rest, st =>
    let x := match oper with | .vopr x => x | .bopr _ x => x | _ => ""
    match st.1.get x with
    | none => none
    | some (f, p) =>
      match opd with
      | .und => (specResolve rest st).map fun r => ((⟨f, p⟩, none) :: r.1, r.2)
      | .opd i eff =>
        let st' := match eff with | none => some st | some e => specEff st e
        match st' with
        | none => none
        | some st' => (specResolve rest st').map fun r => ((⟨f, p⟩, some i) :: r.1, r.2)
      | _ => none

def specSrcS (st0 : StS) (op1 : ExS) (ops : List (ExS × ExS)) (args : Option (List ExS)) : String :=
  let first : Option (Option Nat × StS) := match op1 with
    | .und => some (none, st0)
    | .opd i eff => (match eff with | none => some st0 | some e => specEff st0 e).map fun e => (some i, e)
    | _ => none
  match first with
  | none => "throw"
  | some (f0, st1) =>
    match specResolve ops st1 with
    | none => "throw"
    | some (res, stEnd) =>
      let order := ((if langS.isUnderscore op1 then [] else [op1]) ++
        ops.flatMap (fun p => if langS.isUnderscore p.2 then [p.1] else [p.1, p.2])) ++ args.getD []
      let holes := (if f0.isNone then 1 else 0) + (res.filter (·.2.isNone)).length
      let argNats := (args.getD []).map fun e => match e with | .arg i => i | _ => 0
      if holes > 0 && args.isNone then
        "ok <func> evals=" ++ joinWith "," (traceNamesS order) ++ " apps=" ++ seenSuffix stEnd.2
      else if holes == 0 && args.isSome then "unsupported"
      else if argNats.length ≠ holes then "throw"
      else
        let (firstLeaf, restArgs) := match f0 with
          | some i => (i, argNats)
          | none => (argNats.headD 0, argNats.drop 1)
        let filled := (res.foldl (fun (acc : List (Op TOp × Nat) × List Nat) r =>
          match r.2 with
          | some i => (acc.1 ++ [(r.1, i)], acc.2)
          | none => (acc.1 ++ [(r.1, acc.2.headD 0)], acc.2.drop 1)) ([], restArgs)).1
        let c : ChainOf TOp Nat := ⟨firstLeaf, filled⟩
        let out := semM runT tryChainT leafVal (climbTree tryChainT c)
        renderVal out (some (traceNamesS order)) ++
          (match out with | .ok _ => seenSuffix stEnd.2 | _ => "")

def evalArgsS : List ExS → SM (StS × List ExS) (List DVal)
  | [] => SM.pure []
  | a :: rest => SM.bind (langS.traced.evaluate a) fun v =>
      SM.bind (evalArgsS rest) fun vs => SM.pure (v :: vs)

def handleSrcS (nargs : Option Nat) (env : EnvS) (exs : List ExS) : String :=
  let n := exs.length - nargs.getD 0
  let chainToks := exs.take n
  let argToks := exs.drop n
  match chainToks with
  | [] => "bad-op"
  | op1 :: restToks =>
    match pairUpS restToks with
    | none => "bad-op"
    | some ops =>
      let m : SM (StS × List ExS) DVal :=
        match nargs with
        | none => chainArmS langS.traced op1 ops
        | some _ =>
          SM.bind (chainArmS langS.traced op1 ops) fun callee =>
          SM.bind (evalArgsS argToks) fun args =>
          match callee with
          | .sec seed sops => SM.lift (runChainSection lang seed sops args)
          | _ => SM.fail
      let r := m ((env, []), [])
      let impl := renderVal r.1 (some (traceNamesS r.2.2)) ++
        (match r.1 with | .ok _ => seenSuffix r.2.1.2 | _ => "")
      impl ++ "\t" ++ specSrcS (env, []) op1 ops (nargs.map fun _ => argToks) ++ "\t-"

/-! ### real builtins -/
structure ROp where
  name : String      -- what `builtin_name()` answers (merged comparisons: "a,b")
  cmp : Bool
  accepts : List String
  deriving Repr, DecidableEq

def tryChainR (a b : ROp) : Option ROp :=
  if a.cmp && b.cmp then some { a with name := a.name ++ "," ++ b.name }
  else if a.accepts.contains b.name then some a
  else none

def lookupReal (name : String) : Option (Op ROp) :=
  match Gen.registrations.find? (·.name == name) with
  | none => none
  | some r =>
    let p : Int := match r.explicit with
      | some e => e
      | none => defaultPrecedence Gen.charTable Gen.charDefault r.name
    let (cmp, acc) := match Gen.chainTable.find? (·.1 == name) with
      | some (_, c, a) => (c, a)
      | none => (false, [])
    some ⟨⟨r.bname, cmp, acc⟩, ⟨.fin p, if r.rassoc then .right else .left⟩⟩

/-- the same operator according to the hand-written Spec tables (README rule, property text) -/
def lookupSpec (name : String) : Option (Op ROp) :=
  if name == "" then none else
  some ⟨⟨SpecTables.specBuiltinName name, SpecTables.comparisonNames.contains name,
          SpecTables.specAccepts name⟩,
        ⟨.fin (SpecTables.specPrecedence name), if SpecTables.specRassoc name then .right else .left⟩⟩

def runR (f : ROp) (args : List String) : Out String :=
  .ok ("(" ++ joinWith " " (f.name :: args) ++ ")")

def parseRealPairs (look : String → Option (Op ROp)) : List String → Option (List (Op ROp × Nat))
  | [] => some []
  | o :: x :: rest =>
    match look o, x.toNat?, parseRealPairs look rest with
    | some g, some i, some r => some ((g, i) :: r)
    | _, _, _ => none
  | _ => none

def handleReal (first : Nat) (pairsI pairsS : List (Op ROp × Nat)) : String :=
  let lf : Nat → String := fun i => s!"#{i}"
  let impl := evalChain runR tryChainR (lf first) (pairsI.map fun (g, i) => (g.fn, g.prec, lf i))
  let spec := semM runR tryChainR lf (climbTree tryChainR (⟨first, pairsS⟩ : ChainOf ROp Nat))
  impl.render id ++ "\t" ++ spec.render id ++ "\t-"

/-- precedence of a registered name according to the generated tables (for the run-time cross-check) -/
def handlePrec (name : String) : String :=
  let sp := s!"ok {SpecTables.specPrecedence name} {if SpecTables.specRassoc name then "R" else "L"}"
  match lookupReal name with
  | some g => match g.prec.p with
    | .fin p => s!"ok {p} {if g.prec.a == .right then "R" else "L"}\t{sp}\t-"
    | .nan => "bad-op"
  | none => "bad-op"

def handle (args : List String) : String :=
  match args with
  | "ce" :: first :: rest =>
    match first.toNat?, parsePairs rest with
    | some f, some ps => handleCe f ps
    | _, _ => "bad-op"
  | "src" :: nargs :: rest =>
    match parseExs 0 rest with
    | some exs => if nargs == "-" then handleSrc none exs else
      match nargs.toNat? with
      | some n => handleSrc (some n) exs
      | none => "bad-op"
    | none => "bad-op"
  | "srcs" :: nargs :: k :: rest =>
    match k.toNat? with
    | none => "bad-op"
    | some kn =>
      match parseEnvS kn rest with
      | none => "bad-op"
      | some (env, toks) =>
        match parseExSs 0 toks with
        | none => "bad-op"
        | some exs =>
          if nargs == "-" then handleSrcS none env exs else
          match nargs.toNat? with
          | some n => handleSrcS (some n) env exs
          | none => "bad-op"
  | "real" :: first :: rest =>
    match first.toNat?, parseRealPairs lookupReal rest, parseRealPairs lookupSpec rest with
    | some f, some ps, some ss => handleReal f ps ss
    | _, _, _ => "bad-op"
  | ["prec", name] => handlePrec name
  | ["names"] => joinWith " " ((Gen.registrations.filter (·.cfg == "")).map (·.name))
  | _ => "bad-op"

end Noulith.DriverC03
