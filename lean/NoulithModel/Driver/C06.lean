/- Line-protocol handler for C06.  Request: `bin <op> <rep>:<a> <rep>:<b>` | `un <op> <rep>:<a>`
with rep ∈ {s,b}.  Response: `<impl>\t<spec>\t<representation of the impl result>`. -/
import NoulithModel.Spec.IntSpec

namespace Noulith.DriverC06
open Noulith

def parseNInt (s : String) : Option NInt :=
  if s.startsWith "s:" then (s.drop 2).toString.toInt?.map NInt.small
  else if s.startsWith "b:" then (s.drop 2).toString.toInt?.map NInt.big
  else none

def renderRecip (d : Int) : String :=
  if d < 0 then s!"-1/{-d}" else s!"1/{d}"

def renderList (xs : List (Int × Nat)) : String :=
  "[" ++ joinWith "," (xs.map fun (p, e) => s!"[{p},{e}]") ++ "]"

def renderS : SRes → String
  | .int v => toString v
  | .ratRecip d => renderRecip d
  | .nan => "f:nan"
  | .inf => "f:7ff0000000000000"
  | .list xs => renderList xs

def repOf : Out IRes → String
  | .ok (.int n) => if n.isBig then "b" else "s"
  | _ => "-"

def specUn (op : String) (a : Int) : Out SRes :=
  match op with
  | "is_prime" => .ok (.int (IntSpec.b2i (IntSpec.isPrime a)))
  | "factorize" => .ok (.list (NInt.lazyFactorize a))   -- no independent executable spec; see Theorems/C06
  | _ => IntSpec.unop op a

def handle (args : List String) : String :=
  match args with
  | ["bin", op, a, b] =>
    match parseNInt a, parseNInt b with
    | some x, some y =>
      let r := IntOps.binop op x y
      (r.map IRes.abs).render renderS ++ "\t" ++ (IntSpec.binop op x.val y.val).render renderS ++ "\t" ++ repOf r
    | _, _ => "bad-op"
  | ["un", op, a] =>
    match parseNInt a with
    | some x =>
      let r := IntOps.unop op x
      (r.map IRes.abs).render renderS ++ "\t" ++ (specUn op x.val).render renderS ++ "\t" ++ repOf r
    | _ => "bad-op"
  | _ => "bad-op"

end Noulith.DriverC06
