/- Line-protocol handler for C09 (stub until the model exists). -/
import NoulithModel.Common
namespace Noulith.DriverC09
def handle (_args : List String) : String := "bad-op"
end Noulith.DriverC09
