/- Line-protocol handler for C09.  Values in the canonical text of `vharness::canon` (parser and
printer shared with the C08 driver).  Every request carries the dictionary state it applies to:

  lit <default|-> <list of [k,v]>      idx|sidx|in|rem|addk|delk <dict> <key>
  set <dict> <key> <value>             opa <dict> <key> <pair|left|right|fail> <value>
  opar <dict> <key> <op> <get|sget|in|len|self> <key2>   `d[key] op= <rhs reading d>`
  union|inter|diff|uadd|eq|ne <a> <b>     insp <dict> <pair>
  mkset|mkdict|uniq|freq|cdist|group|classify|memo <list>    memoc <list of argument tuples>
  keys|values|items|len <dict>
Response: `<impl>\t<spec>\t-`; results whose order comes out of a `HashMap` are sorted by text. -/
import NoulithModel.Driver.C08
import NoulithModel.Spec.DictSpec

namespace Noulith.DriverC09
open Noulith Noulith.DriverC08

def sortList : Val → Val
  | .list xs =>
    let keyed := xs.map fun v => (renderVal v, v)
    .list ((keyed.mergeSort fun a b => decide (a.1 ≤ b.1)).map (·.2))
  | v => v

def both (f : (Val → Val → Bool) → Out Val) (post : Val → Val := id) : String :=
  renderOut ((f keyHit).map post) ++ "\t" ++ renderOut ((f DictSpec.hit).map post) ++ "\t-"

def listOf : Val → Option (List Val)
  | .list xs => some xs
  | _ => none

def allLists : List Val → Option (List (List Val))
  | [] => some []
  | .list xs :: rest => (allLists rest).map (xs :: ·)
  | _ => none

def entriesOf (v : Val) : Option Entries :=
  match v with
  | .list xs => DictOps.pairsOf xs
  | _ => none

def handle (args : List String) : String :=
  match args with
  | ["lit", d, l] =>
    match (if d == "-" then some none else (parseVal d).map some), (parseVal l).bind entriesOf with
    | some dflt, some ps => both fun h => DictOps.literal h dflt ps
    | _, _ => "bad-op"
  | [op, a, b] =>
    match parseVal a, parseVal b with
    | some x, some y =>
      match op with
      | "idx" => both fun h => DictOps.index h x y
      | "sidx" => both fun h => DictOps.safeIndex h x y
      | "in" => both fun h => DictOps.isIn h x y
      | "rem" => both fun h => DictOps.remove h x y
      | "addk" => both fun h => DictOps.addKey h x y
      | "delk" => both fun h => DictOps.delKey h x y
      | "union" => both fun h => DictOps.union h x y
      | "inter" => both fun h => DictOps.inter h x y
      | "diff" => both fun h => DictOps.diff h x y
      | "uadd" => both fun h => DictOps.unionAdd h x y
      | "insp" => both fun h => DictOps.insertPair h x y
      | "ne" => renderOut (.ok (ofBool (!valEq x y))) ++ "\t" ++ renderOut (.ok (ofBool (!OrdSpec.eq x y))) ++ "\t-"
      | "eq" => renderOut (.ok (ofBool (valEq x y))) ++ "\t" ++ renderOut (.ok (ofBool (OrdSpec.eq x y))) ++ "\t-"
      | _ => "bad-op"
    | _, _ => "bad-op"
  | ["set", d, k, v] =>
    match parseVal d, parseVal k, parseVal v with
    | some d, some k, some v => both fun h => DictOps.setIndex h d k v
    | _, _, _ => "bad-op"
  | ["opar", d, k, f, form, k2] =>
    match parseVal d, parseVal k, parseVal k2 with
    | some d, some k, some k2 => both fun h => DictOps.opAssignRhs h d k f form k2
    | _, _, _ => "bad-op"
  | ["opa", d, k, f, v] =>
    match parseVal d, parseVal k, parseVal v with
    | some d, some k, some v => both fun h => DictOps.opAssign h d k f v
    | _, _, _ => "bad-op"
  | [op, a] =>
    match parseVal a with
    | some x =>
      match op, listOf x with
      | "mkset", some xs => both fun h => DictOps.mkSet h xs
      | "mkdict", some xs => both fun h => DictOps.mkDict h xs
      | "uniq", some xs => both fun h => DictOps.unique h xs
      | "freq", some xs => both fun h => DictOps.frequencies h xs
      | "cdist", some xs => both fun h => DictOps.countDistinct h xs
      | "group", some xs => both (fun h => DictOps.groupAll h xs) sortList
      | "classify", some xs => both fun h => DictOps.classify h xs
      | "memo", some xs => both fun h => DictOps.memoize h xs
      | "memoc", some xs =>
        match allLists xs with
        | some calls => both fun h => DictOps.memoizeCalls h calls
        | none => "bad-op"
      | "keys", _ => both (fun _ => DictOps.keys x) sortList
      | "values", _ => both (fun _ => DictOps.values x) sortList
      | "items", _ => both (fun _ => DictOps.items x) sortList
      | "len", _ => both fun _ => DictOps.len x
      | _, _ => "bad-op"
    | none => "bad-op"
  | _ => "bad-op"

end Noulith.DriverC09
