/- Line-protocol handler for C08 (also the value parser / printer reused by the C09 driver).

Values cross the protocol in the canonical text of `vharness::canon`: ints in decimal, rationals
`n/d`, floats `f:<16 hex digits of the IEEE bits>` | `f:nan`, complex `c:<re>:<im>`, strings
`s:<hex utf8>`, bytes `b:<hex>`, lists `[a,b]`, vectors `v[a,b]`, dicts `{k:v,…}` (`|d=<default>`),
`null`, `<func>`.  The float decoder (sign, 11-bit exponent, 52-bit mantissa, subnormals) turns the
bits into the exact value `m·2^e` the model works with.

Requests:
  op <operator> <a> <b>      the six comparison operators, `<=>`, `>=<`
  ext min|max <list>         `min`/`max` over the elements
  sort <seq>                 `sort`
  sorton <fn> <seq>          `sort_on(seq, fn)`, fn from the `keyFn` table
  sortby <cmp> <seq>         `sort(seq, cmp)`, cmp from the `cmpFn` table
  call <op> <list>           `op(x1, …, xn)` / `op(...xs)` with 0..n operands
  chain <op,op,…> <list>     infix chain `x1 op x2 op …`
  sortedeq <seq>             `sort(xs) == xs`
  extfold|cata min|max <list>   `xs fold max`, `a max b`, `x max= y` / `for (…) yield e into max`
  extby min|max <cmp> <list> `max(xs, comparator)`
  catad min|max <list of [k,v]>  `for (…) yield k: v into max`
  nmin|nmax <a> <b>          `NNum::min` / `NNum::max` (Rust API)
  teq <a> <b>                `NNum::total_eq`
Response: `<impl>\t<spec>\t<diagnostics>`. -/
import NoulithModel.Spec.OrdSpec

namespace Noulith.DriverC08
open Noulith

/-! ### IEEE-754 binary64 bits ↔ exact value -/
def decodeF64 (bits : Nat) : F64 :=
  let sign : Nat := bits / 2 ^ 63 % 2
  let ex : Nat := bits / 2 ^ 52 % 2048
  let mant : Nat := bits % 2 ^ 52
  if ex = 2047 then (if mant = 0 then .inf (sign = 1) else .nan)
  else if ex = 0 then
    if mant = 0 then (if sign = 1 then .nzero else .fin 0 0)
    else .fin (if sign = 1 then -(Int.ofNat mant) else Int.ofNat mant) (-1074)
  else
    let m : Int := Int.ofNat (2 ^ 52 + mant)
    .fin (if sign = 1 then -m else m) (Int.ofNat ex - 1075)

def bitLen (a : Nat) : Nat := if a = 0 then 0 else Nat.log2 a + 1

/-- inverse of `decodeF64` on representable values -/
def encodeF64 : F64 → Option Nat
  | .nan => none
  | .inf neg => some ((if neg then 2 ^ 63 else 0) + 2047 * 2 ^ 52)
  | .nzero => some (2 ^ 63)
  | .fin m e =>
    if m = 0 then some 0
    else
      let a := m.natAbs
      let s := if m < 0 then 2 ^ 63 else 0
      let n := bitLen a
      let E : Int := e + n - 1
      if E ≥ -1022 then
        let sig := if n ≤ 53 then a * 2 ^ (53 - n) else a / 2 ^ (n - 53)
        some (s + (E + 1023).toNat * 2 ^ 52 + (sig - 2 ^ 52))
      else
        some (s + a * 2 ^ (e + 1074).toNat)

def hex16 (n : Nat) : String :=
  String.ofList ((List.range 16).map fun i => hexDigitChar (n / 16 ^ (15 - i) % 16))

def renderF64Body (f : F64) : String :=
  match encodeF64 f with
  | none => "nan"
  | some b => hex16 b

/-! ### UTF-8 decoding of protocol strings -/
partial def utf8Decode : List Nat → List Nat
  | [] => []
  | b :: rest =>
    if b < 0x80 then b :: utf8Decode rest
    else if b < 0xE0 then
      match rest with
      | c1 :: r => ((b - 0xC0) * 64 + (c1 - 0x80)) :: utf8Decode r
      | _ => []
    else if b < 0xF0 then
      match rest with
      | c1 :: c2 :: r => ((b - 0xE0) * 4096 + (c1 - 0x80) * 64 + (c2 - 0x80)) :: utf8Decode r
      | _ => []
    else
      match rest with
      | c1 :: c2 :: c3 :: r =>
        ((b - 0xF0) * 262144 + (c1 - 0x80) * 4096 + (c2 - 0x80) * 64 + (c3 - 0x80)) :: utf8Decode r
      | _ => []

/-! ### parser -/
def isHex (c : Char) : Bool := (hexDigitVal c).isSome

def takeWhileC (p : Char → Bool) : List Char → List Char × List Char
  | [] => ([], [])
  | c :: cs => if p c then let (a, b) := takeWhileC p cs; (c :: a, b) else ([], c :: cs)

def hexVal (cs : List Char) : Nat := cs.foldl (fun a c => a * 16 + (hexDigitVal c).getD 0) 0

def parseF64Body (cs : List Char) : Option (F64 × List Char) :=
  match cs with
  | 'n' :: 'a' :: 'n' :: rest => some (.nan, rest)
  | _ =>
    let (h, rest) := takeWhileC isHex cs
    if h.length = 16 then some (decodeF64 (hexVal h), rest) else none

def parseIntC (cs : List Char) : Option (Int × List Char) :=
  let (neg, cs) := match cs with
    | '-' :: r => (true, r)
    | _ => (false, cs)
  let (d, rest) := takeWhileC Char.isDigit cs
  if d.isEmpty then none
  else
    let n : Nat := d.foldl (fun a c => a * 10 + (c.toNat - '0'.toNat)) 0
    some (if neg then -(n : Int) else n, rest)

/-- ints arrive without a representation: values in the i64 range are `Small`, others `Big`
(what the interpreter produces for literals and normalised results) -/
def mkInt (v : Int) : NInt := if inI64 v then .small v else .big v

def parseNumC (cs : List Char) : Option (NNum × List Char) :=
  match cs with
  | 'f' :: ':' :: rest => (parseF64Body rest).map fun (f, r) => (.float f, r)
  | 'c' :: ':' :: rest =>
    match parseF64Body rest with
    | some (re, ':' :: r1) => (parseF64Body r1).map fun (im, r) => (.complex re im, r)
    | _ => none
  | _ =>
    match parseIntC cs with
    | some (n, '/' :: r1) =>
      match parseIntC r1 with
      | some (d, r) => some (.rat (mkRat n d.toNat), r)
      | none => none
    | some (n, r) => some (.int (mkInt n), r)
    | none => none

mutual
partial def parseValC (cs : List Char) : Option (Val × List Char) :=
  match cs with
  | 'n' :: 'u' :: 'l' :: 'l' :: rest => some (.null, rest)
  | '<' :: 'f' :: 'u' :: 'n' :: 'c' :: '>' :: rest => some (.func 0, rest)
  | 's' :: ':' :: rest =>
    let (h, r) := takeWhileC isHex rest
    (unhexChars h).map fun bs => (.str (utf8Decode bs), r)
  | 'b' :: ':' :: rest =>
    let (h, r) := takeWhileC isHex rest
    (unhexChars h).map fun bs => (.bytes bs, r)
  | '[' :: rest => (parseSeqC rest ']').map fun (xs, r) => (.list xs, r)
  | 'v' :: '[' :: rest => parseVecC rest
  | '{' :: rest =>
    match parseEntriesC rest with
    | some (kvs, '|' :: 'd' :: '=' :: r) => (parseValC r).map fun (d, r2) => (.dict kvs (some d), r2)
    | some (kvs, r) => some (.dict kvs none, r)
    | none => none
  | _ => (parseNumC cs).map fun (n, r) => (.num n, r)
partial def parseSeqC (cs : List Char) (close : Char) : Option (List Val × List Char) :=
  match cs with
  | c :: rest =>
    if c = close then some ([], rest)
    else
      let cs' := if c = ',' then rest else cs
      match parseValC cs' with
      | some (v, r) => (parseSeqC r close).map fun (vs, r2) => (v :: vs, r2)
      | none => none
  | [] => none
partial def parseVecC (cs : List Char) : Option (Val × List Char) :=
  match parseSeqC cs ']' with
  | some (xs, r) =>
    let ns := xs.filterMap fun v => match v with
      | .num n => some n
      | _ => none
    if ns.length = xs.length then some (.vec ns, r) else none
  | none => none
partial def parseEntriesC (cs : List Char) : Option (List (Val × Val) × List Char) :=
  match cs with
  | '}' :: rest => some ([], rest)
  | c :: rest =>
    let cs' := if c = ',' then rest else cs
    match parseValC cs' with
    | some (k, ':' :: r) =>
      match parseValC r with
      | some (v, r2) => (parseEntriesC r2).map fun (kvs, r3) => ((k, v) :: kvs, r3)
      | none => none
    | _ => none
  | [] => none
end

def parseVal (s : String) : Option Val :=
  match parseValC s.toList with
  | some (v, []) => some v
  | _ => none

/-! ### printer -/
def renderNum : NNum → String
  | .int a => toString a.val
  | .rat q => s!"{q.num}/{q.den}"
  | .float f => "f:" ++ renderF64Body f
  | .complex re im => "c:" ++ renderF64Body re ++ ":" ++ renderF64Body im

def sortStrings (xs : List String) : List String := xs.mergeSort (fun a b => decide (a ≤ b))

mutual
partial def renderVal : Val → String
  | .null => "null"
  | .num n => renderNum n
  | .str cs => "s:" ++ hexOfBytes (utf8 cs)
  | .bytes bs => "b:" ++ hexOfBytes bs
  | .list xs => "[" ++ joinWith "," (xs.map renderVal) ++ "]"
  | .vec xs => "v[" ++ joinWith "," (xs.map renderNum) ++ "]"
  | .dict kvs d =>
    let items := sortPairs (kvs.map fun (k, v) => (renderVal k, renderVal v))
    let body := "{" ++ joinWith "," (items.map fun (k, v) => k ++ ":" ++ v) ++ "}"
    match d with
    | none => body
    | some dv => body ++ "|d=" ++ renderVal dv
  | .func _ => "<func>"
partial def sortPairs (xs : List (String × String)) : List (String × String) :=
  xs.mergeSort (fun a b => decide (a.1 < b.1) || (a.1 == b.1 && decide (a.2 ≤ b.2)))
end

def renderOut (r : Out Val) : String := r.render renderVal

/-- Spec of the call / chain forms: the conjunction of the Spec's operator over neighbouring pairs -/
def specAccept (op : String) (a b : Val) : Out Bool :=
  match op with
  | "==" => .ok (OrdSpec.eq a b)
  | "!=" => .ok (!OrdSpec.eq a b)
  | "<" => (OrdSpec.ncmp a b).map fun o => o == .lt
  | ">" => (OrdSpec.ncmp a b).map fun o => o == .gt
  | "<=" => (OrdSpec.ncmp a b).map fun o => o == .lt || o == .eq
  | ">=" => (OrdSpec.ncmp a b).map fun o => o == .gt || o == .eq
  | _ => .throw
def specChain : List String → List Val → Out Bool
  | op :: ops, a :: b :: rest =>
    match specAccept op a b with
    | .ok true => specChain ops (b :: rest)
    | .ok false => .ok false
    | .throw => .throw
    | .panic => .panic
  | _, _ => .ok true
def specCall (op : String) (args : List Val) : Out Val :=
  match args with
  | [] => .throw
  | [_] => .ok (.func 0)
  | _ => (specChain (List.replicate args.length op) args).map ofBool
def pairList : List Val → Option (List (Val × Val))
  | [] => some []
  | .list [k, v] :: rest => (pairList rest).map fun r => (k, v) :: r
  | _ => none

def handle (args : List String) : String :=
  match args with
  | ["op", op, a, b] =>
    match parseVal a, parseVal b with
    | some x, some y => renderOut (cmpOp op x y) ++ "\t" ++ renderOut (OrdSpec.cmpOp op x y) ++ "\t-"
    | _, _ => "bad-op"
  | ["ext", which, l] =>
    match parseVal l with
    | some (.list xs) =>
      let bias : Ordering := if which == "min" then .lt else .gt
      renderOut (extremum bias xs) ++ "\t" ++ renderOut (OrdSpec.extremum bias xs) ++ "\t-"
    | _ => "bad-op"
  | ["sort", l] =>
    match parseVal l with
    | some v => renderOut (sortVal v) ++ "\t" ++ renderOut (OrdSpec.sortVal v) ++ "\t-"
    | none => "bad-op"
  | ["sorton", fname, l] =>
    match parseVal l with
    | some v => renderOut (sortOnVal ncmp (keyFn fname) v) ++ "\t" ++ renderOut (sortOnVal OrdSpec.ncmp (keyFn fname) v) ++ "\t-"
    | none => "bad-op"
  | ["sortby", cname, l] =>
    match parseVal l with
    | some v => renderOut (sortByVal ncmp (cmpFn ncmp cname) v) ++ "\t" ++
        renderOut (sortByVal OrdSpec.ncmp (cmpFn OrdSpec.ncmp cname) v) ++ "\t-"
    | none => "bad-op"
  | ["call", op, l] =>
    match parseVal l with
    | some (.list xs) => renderOut (cmpCall op xs) ++ "\t" ++ renderOut (specCall op xs) ++ "\t-"
    | _ => "bad-op"
  | ["chain", ops, l] =>
    match parseVal l with
    | some (.list xs) =>
      let os := ops.splitOn ","
      renderOut ((cmpChain os xs).map ofBool) ++ "\t" ++ renderOut ((specChain os xs).map ofBool) ++ "\t-"
    | _ => "bad-op"
  | ["sortedeq", l] =>
    match parseVal l with
    | some v => renderOut ((sortVal v).map fun r => ofBool (valEq r v)) ++ "\t" ++
        renderOut ((OrdSpec.sortVal v).map fun r => ofBool (OrdSpec.eq r v)) ++ "\t-"
    | none => "bad-op"
  | ["extfold", which, l] =>
    match parseVal l with
    | some (.list xs) =>
      let bias : Ordering := if which == "min" then .lt else .gt
      renderOut (foldExtremum bias xs) ++ "\t" ++ renderOut (OrdSpec.extremum bias xs) ++ "\t-"
    | _ => "bad-op"
  | ["cata", which, l] =>
    match parseVal l with
    | some (.list xs) =>
      let bias : Ordering := if which == "min" then .lt else .gt
      renderOut (extremum bias xs) ++ "\t" ++ renderOut (OrdSpec.extremum bias xs) ++ "\t-"
    | _ => "bad-op"
  | ["extby", which, cname, l] =>
    match parseVal l with
    | some (.list xs) =>
      let bias : Ordering := if which == "min" then .lt else .gt
      renderOut (extremumBy ncmp (cmpFn ncmp cname) bias xs) ++ "\t" ++
        renderOut (extremumBy OrdSpec.ncmp (cmpFn OrdSpec.ncmp cname) bias xs) ++ "\t-"
    | _ => "bad-op"
  | ["catad", which, l] =>
    match parseVal l with
    | some (.list ps) =>
      let bias : Ordering := if which == "min" then .lt else .gt
      match pairList ps with
      | some kvs =>
        renderOut ((cataExtremumDict ncmp keyHit bias [] kvs).map fun r => .dict r none) ++ "\t" ++
          renderOut ((cataExtremumDict OrdSpec.ncmp OrdSpec.keyEq bias [] kvs).map fun r => .dict r none) ++ "\t-"
      | none => "bad-op"
    | _ => "bad-op"
  | ["nmin", a, b] =>
    match parseVal a, parseVal b with
    | some (.num x), some (.num y) =>
      renderOut (.ok (.num (NNum.min x y))) ++ "\t" ++ renderOut (.ok (.num (OrdSpec.numMin x y))) ++ "\t-"
    | _, _ => "bad-op"
  | ["nmax", a, b] =>
    match parseVal a, parseVal b with
    | some (.num x), some (.num y) =>
      renderOut (.ok (.num (NNum.max x y))) ++ "\t" ++ renderOut (.ok (.num (OrdSpec.numMax x y))) ++ "\t-"
    | _, _ => "bad-op"
  | ["teq", a, b] =>
    match parseVal a, parseVal b with
    | some (.num x), some (.num y) =>
      renderOut (.ok (ofBool (NNum.totalEq x y))) ++ "\t" ++ renderOut (.ok (ofBool (OrdSpec.numKeyEq x y))) ++ "\t-"
    | _, _ => "bad-op"
  | _ => "bad-op"

end Noulith.DriverC08
