/- Line-protocol handler for C08 (stub until the model exists). -/
import NoulithModel.Common
namespace Noulith.DriverC08
def handle (_args : List String) : String := "bad-op"
end Noulith.DriverC08
