/-
Line-protocol handler for C16.  One request per line; response `<impl>\t<spec>`.
Results: `ok <canonical value>` | `throw` | `panic`; the spec column may also be `nopanic`
("the property does not say what the result is here, only that it is not a crash").

Strings travel as hex of their UTF-8 bytes (decoded here with `utf8Decode`); where the property
is about UTF-8 itself, code points travel as a comma separated list (`u:65,233`).
-/
import NoulithModel.Spec.CodecSpec
import NoulithModel.Impl.JsonText

namespace Noulith.DriverC16
open Noulith Noulith.Codec Noulith.CodecSpec

/-! ### rendering -/
def strOfCodes (cs : List Nat) : String := String.ofList (cs.map Char.ofNat)

def renderStr (s : Str) : String := "s:" ++ hexOfBytes (utf8Encode s)
def renderBytes (b : Bytes) : String := "b:" ++ hexOfBytes b
def renderCps (s : Str) : String := "u:" ++ joinWith "," (s.map toString)
def renderRat (r : Rat) : String := s!"{r.num}/{r.den}"
def renderInt (v : Int) : String := toString v

def hex16 (n : Nat) : String :=
  String.ofList ((List.range 16).reverse.map fun i => hexDigitChar (n / 16 ^ i % 16))

def renderF64 : F64 → String
  | .bits b => "f:" ++ hex16 b
  | .ofInt v => s!"fi:{v}"

def sortPairs (xs : List (String × String)) : List (String × String) :=
  xs.mergeSort fun a b => a.1 ≤ b.1

mutual
def renderVal : Val → String
  | .null => "null"
  | .int v => toString v
  | .float f => renderF64 f
  | .str s => renderStr s
  | .bytes b => renderBytes b
  | .list xs => "[" ++ joinWith "," (renderVals xs) ++ "]"
  | .dict kvs => "{" ++ joinWith "," ((sortPairs (renderKVs kvs)).map fun (k, v) => k ++ ":" ++ v) ++ "}"
  | .func => "<func>"
def renderVals : List Val → List String
  | [] => []
  | x :: xs => renderVal x :: renderVals xs
def renderKVs : List (Str × Val) → List (String × String)
  | [] => []
  | (k, x) :: xs => (renderStr k, renderVal x) :: renderKVs xs
end

def renderJNum : JNum → String
  | .posInt n => s!"P{n}"
  | .negInt v => s!"N{v}"
  | .float f => "F" ++ renderF64 f

mutual
def renderJV : JV → String
  | .null => "null"
  | .bool b => if b then "true" else "false"
  | .num n => renderJNum n
  | .str s => renderStr s
  | .arr xs => "[" ++ joinWith "," (renderJVs xs) ++ "]"
  | .obj kvs => "{" ++ joinWith "," ((sortPairs (renderJKVs kvs)).map fun (k, v) => k ++ ":" ++ v) ++ "}"
def renderJVs : List JV → List String
  | [] => []
  | x :: xs => renderJV x :: renderJVs xs
def renderJKVs : List (Str × JV) → List (String × String)
  | [] => []
  | (k, x) :: xs => (renderStr k, renderJV x) :: renderJKVs xs
end

/-! ### parsing request tokens -/
def parseNInt (s : String) : Option NInt :=
  if s.startsWith "s:" then (s.drop 2).toString.toInt?.map NInt.small
  else if s.startsWith "b:" then (s.drop 2).toString.toInt?.map NInt.big
  else none

/-- hex of UTF-8 → scalar values (`-` is the empty string) -/
def parseStr (s : String) : Option Str :=
  if s = "-" then some [] else (unhex s).bind utf8Decode
def parseBytes (s : String) : Option Bytes :=
  if s = "-" then some [] else unhex s
def parseCps (s : String) : Option Str :=
  if s = "-" then some [] else (s.splitOn ",").mapM fun t => t.toNat?

def parseBase (s : String) : Option FmtBase :=
  match s with
  | "d" => some .decimal | "b" => some .binary | "o" => some .octal
  | "x" => some .lowerHex | "X" => some .upperHex | _ => none

def parseSign (s : String) : Option (Option Bool) :=
  match s with
  | "n" => some none | "p" => some (some false) | "m" => some (some true) | _ => none

def digitsOfString (s : String) : Option (List Nat) :=
  s.toList.mapM fun c => if '0' ≤ c ∧ c ≤ '9' then some (c.toNat - 48) else none

/-- `<sign>:<ip>:<fp or ->:<exp or ->`, exp = `<e|E><sign><digits>` -/
def parseDec (s : String) : Option Dec :=
  match s.splitOn ":" with
  | [sg, ip, fp, ex] => do
    let sign ← parseSign sg
    let ipd ← digitsOfString ip
    let fpd ← if fp = "-" then pure none else (digitsOfString fp).map some
    let exp ← if ex = "-" then pure none else
      match ex.toList with
      | e :: sg :: ds => do
        let s2 ← parseSign (String.ofList [sg])
        let dd ← digitsOfString (String.ofList ds)
        pure (some (e == 'E', s2, dd))
      | _ => none
    pure { sign := sign, ip := ipd, fp := fpd, exp := exp }
  | _ => none

def parseRatLit (s : String) : Option RatLit :=
  match s.splitOn "/" with
  | [d] => (parseDec d).map .dec
  | [p, q] => do
    let a ← parseDec p
    let b ← parseDec q
    pure (.frac a b)
  | _ => none

def parseIntLit (s : String) : Option IntLit :=
  match s.splitOn ":" with
  | [sg, ds] => do
    let sign ← parseSign sg
    let d ← digitsOfString ds
    pure { sign := sign, ds := d }
  | _ => none

/-- take characters up to `;` -/
def takeField : List Char → String × List Char
  | [] => ("", [])
  | c :: cs => if c = ';' then ("", cs) else let (a, r) := takeField cs; (String.ofList [c] ++ a, r)

mutual
/-- prefix syntax for values: `n` | `i<int>;` | `f<16 hex>;` | `s<hex>;` | `y<hex>;` | `l<count>;`items |
`d<count>;`(`<hexkey>;`item)* | `x` -/
def parseVal : Nat → List Char → Option (Val × List Char)
  | 0, _ => none
  | fuel + 1, c :: cs =>
    match c with
    | 'n' => some (.null, cs)
    | 'x' => some (.func, cs)
    | 'i' => let (a, r) := takeField cs; a.toInt?.map fun v => (.int v, r)
    | 'f' => let (a, r) := takeField cs; (unhex a).map fun bs => (.float (.bits (bs.foldl (fun acc b => acc * 256 + b) 0)), r)
    | 's' => let (a, r) := takeField cs; (parseStr (if a = "" then "-" else a)).map fun s => (.str s, r)
    | 'y' => let (a, r) := takeField cs; (parseBytes (if a = "" then "-" else a)).map fun s => (.bytes s, r)
    | 'l' => let (a, r) := takeField cs
      match a.toNat? with
      | some k => (parseVals fuel k r).map fun (xs, r') => (.list xs, r')
      | none => none
    | 'd' => let (a, r) := takeField cs
      match a.toNat? with
      | some k => (parseKVs fuel k r).map fun (xs, r') => (.dict xs, r')
      | none => none
    | _ => none
  | _, [] => none
def parseVals : Nat → Nat → List Char → Option (List Val × List Char)
  | 0, _, _ => none
  | _ + 1, 0, r => some ([], r)
  | fuel + 1, k + 1, r =>
    match parseVal fuel r with
    | some (x, r') => (parseVals fuel k r').map fun (xs, r'') => (x :: xs, r'')
    | none => none
def parseKVs : Nat → Nat → List Char → Option (List (Str × Val) × List Char)
  | 0, _, _ => none
  | _ + 1, 0, r => some ([], r)
  | fuel + 1, k + 1, r =>
    let (a, r1) := takeField r
    match parseStr (if a = "" then "-" else a), parseVal fuel r1 with
    | some key, some (x, r') => (parseKVs fuel k r').map fun (xs, r'') => ((key, x) :: xs, r'')
    | _, _ => none
end

mutual
/-- prefix syntax for serde_json values: `n` | `t` | `u` | `P<nat>;` | `N<int>;` | `F<16 hex>;` | `s<hex>;` |
`a<count>;`items | `o<count>;`(`<hexkey>;`item)* -/
def parseJV : Nat → List Char → Option (JV × List Char)
  | 0, _ => none
  | fuel + 1, c :: cs =>
    match c with
    | 'n' => some (.null, cs)
    | 't' => some (.bool true, cs)
    | 'u' => some (.bool false, cs)
    | 'P' => let (a, r) := takeField cs; a.toNat?.map fun v => (.num (.posInt v), r)
    | 'N' => let (a, r) := takeField cs; a.toInt?.map fun v => (.num (.negInt v), r)
    | 'F' => let (a, r) := takeField cs; (unhex a).map fun bs => (.num (.float (.bits (bs.foldl (fun acc b => acc * 256 + b) 0))), r)
    | 's' => let (a, r) := takeField cs; (parseStr (if a = "" then "-" else a)).map fun s => (.str s, r)
    | 'a' => let (a, r) := takeField cs
      match a.toNat? with
      | some k => (parseJVs fuel k r).map fun (xs, r') => (.arr xs, r')
      | none => none
    | 'o' => let (a, r) := takeField cs
      match a.toNat? with
      | some k => (parseJKVs fuel k r).map fun (xs, r') => (.obj xs, r')
      | none => none
    | _ => none
  | _, [] => none
def parseJVs : Nat → Nat → List Char → Option (List JV × List Char)
  | 0, _, _ => none
  | _ + 1, 0, r => some ([], r)
  | fuel + 1, k + 1, r =>
    match parseJV fuel r with
    | some (x, r') => (parseJVs fuel k r').map fun (xs, r'') => (x :: xs, r'')
    | none => none
def parseJKVs : Nat → Nat → List Char → Option (List (Str × JV) × List Char)
  | 0, _, _ => none
  | _ + 1, 0, r => some ([], r)
  | fuel + 1, k + 1, r =>
    let (a, r1) := takeField r
    match parseStr (if a = "" then "-" else a), parseJV fuel r1 with
    | some key, some (x, r') => (parseJKVs fuel k r').map fun (xs, r'') => ((key, x) :: xs, r'')
    | _, _ => none
end

/-! ### spec-side helpers (executable readings of the Spec) -/

mutual
/-- is the value JSON-shaped (decidable reading of `CodecSpec.JsonShaped`) -/
def jsonShapedB : Val → Bool
  | .null => true
  | .int v => decide (inI64 v)
  | .float f => f.finite
  | .str _ => true
  | .bytes _ => false
  | .list xs => jsonShapedListB xs
  | .dict kvs => jsonShapedKVsB kvs
  | .func => false
def jsonShapedListB : List Val → Bool
  | [] => true
  | x :: xs => jsonShapedB x && jsonShapedListB xs
def jsonShapedKVsB : List (Str × Val) → Bool
  | [] => true
  | (_, x) :: xs => jsonShapedB x && jsonShapedKVsB xs
end

def decWF (d : Dec) : Bool :=
  (d.ip ≠ [] || d.fracDigits ≠ []) &&
  (match d.exp with
   | none => true
   | some (_, _, ds) => ds ≠ [])

/-- the external float text functions as a lookup table supplied with the request:
`b<16 hex bits>=<hex of text>` / `i<integer>=<hex of text>` (writer) and `t<hex of token>=<16 hex bits>` (parser) -/
def floatTextOf (tbl : String) : FloatText :=
  let entries : List (String × String) :=
    if tbl = "-" then [] else (tbl.splitOn ",").filterMap fun e =>
      match e.splitOn "=" with
      | [k, v] => some (k, v)
      | _ => none
  { fmt := fun f =>
      let key := match f with
        | .bits b => "b" ++ hex16 b
        | .ofInt v => "i" ++ toString v
      match entries.lookup key with
      | some h => ((unhex h).bind utf8Decode).getD [63]
      | none => [63]
    parse := fun tok =>
      match entries.lookup ("t" ++ hexOfBytes (utf8Encode tok)) with
      | some h => (unhex h).map fun bs => F64.bits (bs.foldl (fun acc b => acc * 256 + b) 0)
      | none => none }

def two (a b : String) : String := a ++ "\t" ++ b
def outS {α} (f : α → String) (o : Out α) : String := o.render f

/-- spec of `int_radix`: the positional value of the digit characters (either case) -/
def specIntRadix (s : Str) (b : Int) : Out Int :=
  if 2 ≤ b ∧ b ≤ 36 then
    match s.mapM fun c => toDigit c b.toNat with
    | some ds => .ok (ofDigits b.toNat ds)
    | none => .throw
  else .throw

def isHexChar (c : Nat) : Bool := hexVal c |>.isSome

/-- spec of `hex_decode`: the byte list whose hex text is the (case-folded) input, if there is one -/
def specHexDecode (s : Bytes) : Out Bytes :=
  match unhexChars (s.map Char.ofNat) with
  | some bs => if s.all (· < 128) then .ok bs else .throw
  | none => .throw

def handle (args : List String) : String :=
  match args with
  | ["show", b, n] =>
    match parseBase b, parseNInt n with
    | some base, some x => two ("ok " ++ renderStr (fmtNInt base x)) ("ok " ++ renderStr (showFmt base x.val))
    | _, _ => "bad-op"
  | ["fmt", b, al, pad, len, n] =>
    match parseBase b, parseNInt n, pad.toNat?, len.toNat? with
    | some base, some x, some p, some l =>
      let align := if al = "l" then FmtAlign.left else if al = "c" then FmtAlign.center else FmtAlign.right
      two ("ok " ++ renderStr (fmtNumWith { base := base, pad := p, padLength := l, align := align } x))
          ("ok " ++ renderStr (padTo align p l (showFmt base x.val)))
    | _, _, _, _ => "bad-op"
  | ["int", s, lit] =>
    match parseStr s with
    | some str =>
      let spec := if lit = "-" then "nopanic" else
        match parseIntLit lit with
        | some l => if l.render = str ∧ l.ds ≠ [] then "ok " ++ renderInt l.value else "bad-lit"
        | none => "bad-lit"
      two (outS renderInt (intOfStr str)) spec
    | none => "bad-op"
  | ["number", s, lit] =>
    match parseStr s with
    | some str =>
      let spec := if lit = "-" then "nopanic" else
        match parseIntLit lit with
        | some l => if l.render = str ∧ l.ds ≠ [] then "ok " ++ renderInt l.value else "bad-lit"
        | none => "bad-lit"
      let impl := match numberOfStr str with
        | .int v => "ok " ++ renderInt v
        | .deferF64 => "defer-f64"
      two impl spec
    | none => "bad-op"
  | ["rational", s, lit] =>
    match parseStr s with
    | some str =>
      let spec := if lit = "-" then "nopanic" else
        match parseRatLit lit with
        | some l =>
          let wf := match l with
            | .dec d => decWF d
            | .frac p q => decWF p && decWF q
          if l.render = str ∧ wf = true then
            (match l with
             | .frac _ q => if q.value = 0 then "throw" else "ok " ++ renderRat l.value
             | _ => "ok " ++ renderRat l.value)
          else "bad-lit"
        | none => "bad-lit"
      two (outS renderRat (rationalOfStr str)) spec
    | none => "bad-op"
  | ["str_radix", n, b] =>
    match n.toInt?, b.toInt? with
    | some v, some base =>
      two (outS renderStr (strRadix v base))
          (if 2 ≤ base ∧ base ≤ 36 then "ok " ++ renderStr (showInt false base.toNat v) else "throw")
    | _, _ => "bad-op"
  | ["int_radix", s, b] =>
    match parseStr s, b.toInt? with
    | some str, some base => two (outS renderInt (intRadix str base)) (outS renderInt (specIntRadix str base))
    | _, _ => "bad-op"
  | ["radix_rt", n, b] =>
    match n.toInt?, b.toInt? with
    | some v, some base =>
      let impl := match strRadix v base with
        | .ok s => outS renderInt (intRadix s base)
        | .throw => "throw"
        | .panic => "panic"
      two impl (if 2 ≤ base ∧ base ≤ 36 ∧ 0 ≤ v then "ok " ++ renderInt v else "throw")
    | _, _ => "bad-op"
  | ["hex_encode", b] =>
    match parseBytes b with
    | some bs => two ("ok " ++ renderStr (hexEncode bs)) ("ok " ++ renderStr (hexOf bs))
    | none => "bad-op"
  | ["hex_decode", b] =>
    match parseBytes b with
    | some bs => two (outS renderBytes (hexDecode bs)) (outS renderBytes (specHexDecode bs))
    | none => "bad-op"
  | ["b64e", b] =>
    match parseBytes b with
    | some bs => two ("ok " ++ renderStr (b64Encode bs)) ("ok " ++ renderStr (base64Of bs))
    | none => "bad-op"
  | ["b64d", b] =>
    match parseBytes b with
    | some bs =>
      let impl := b64Decode bs
      let spec := match impl with
        | .ok r => if base64Of r = bs then "ok " ++ renderBytes r else "nopanic"
        | _ => "nopanic"
      two (outS renderBytes impl) spec
    | none => "bad-op"
  | ["utf8_encode", c] =>
    match parseCps c with
    | some s => two ("ok " ++ renderBytes (utf8Encode s)) ("ok " ++ renderBytes (utf8OfStr s))
    | none => "bad-op"
  | ["utf8_decode", b] =>
    match parseBytes b with
    | some bs =>
      let spec := match utf8Decode bs with
        | some s => if utf8OfStr s = bs ∧ s.all (fun c => decide (IsScalar c)) then "ok " ++ renderCps s else "throw"
        | none => "throw"
      two (outS renderCps (utf8DecodeB bs)) spec
    | none => "bad-op"
  | ["chr", n] =>
    match n.toInt? with
    | some v => two (outS renderCps (chr v)) (if 0 ≤ v ∧ IsScalar v.toNat then "ok " ++ renderCps [v.toNat] else "throw")
    | none => "bad-op"
  | ["ord", c] =>
    match parseCps c with
    | some s => two (outS renderInt (ord s)) (match s with
        | [c] => "ok " ++ renderInt c
        | _ => "throw")
    | none => "bad-op"
  | ["json_enc", v] =>
    match parseVal 1000 v.toList with
    | some (x, []) => two (outS renderJV (encodeV x)) "nopanic"
    | _ => "bad-op"
  | ["json_dec", j] =>
    match parseJV 1000 j.toList with
    | some (x, []) => two ("ok " ++ renderVal (decodeV x)) "nopanic"
    | _ => "bad-op"
  | ["json_rt", v] =>
    match parseVal 1000 v.toList with
    | some (x, []) =>
      two (outS renderVal ((encodeV x).map decodeV)) (if jsonShapedB x then "ok " ++ renderVal x else "nopanic")
    | _ => "bad-op"
  | ["showlist", ns] =>
    match (ns.splitOn ",").mapM parseNInt with
    | some xs =>
      let spec : Str := [91] ++ (List.intercalate [44, 32] (xs.map fun x => showInt false 10 x.val)) ++ [93]
      two ("ok " ++ renderStr (fmtIntList xs)) ("ok " ++ renderStr spec)
    | none => "bad-op"
  | ["showdict1", n] =>
    match parseNInt n with
    | some x =>
      let spec : Str := [123, 34, 107, 34, 58, 32] ++ showInt false 10 x.val ++ [125]
      two ("ok " ++ renderStr (fmtDict1 [107] x)) ("ok " ++ renderStr spec)
    | none => "bad-op"
  | ["fmtmulti", pre, slots] =>
    -- slot = <base>,<align>,<pad>,<len>,<rep:int>,<hex of the literal text that follows or ->
    let parseSlot (t : String) : Option (Flags × NInt × Str) :=
      match t.splitOn "," with
      | [b, al, pad, len, n, lit] => do
        let base ← parseBase b
        let x ← parseNInt n
        let p ← pad.toNat?
        let l ← len.toNat?
        let litS ← parseStr lit
        let align := if al = "l" then FmtAlign.left else if al = "c" then FmtAlign.center else FmtAlign.right
        pure ({ base := base, pad := p, padLength := l, align := align }, x, litS)
      | _ => none
    match parseStr pre, (slots.splitOn ";").mapM parseSlot with
    | some preS, some sl =>
      let spec : Str := preS ++ sl.flatMap fun (fl, x, lit) => padTo fl.align fl.pad fl.padLength (showFmt fl.base x.val) ++ lit
      two ("ok " ++ renderStr (preS ++ fmtSlots sl)) ("ok " ++ renderStr spec)
    | _, _ => "bad-op"
  | ["int_rt", n] =>
    match parseNInt n with
    | some x => two (outS renderInt (intOfStr (showNInt x))) ("ok " ++ renderInt x.val)
    | none => "bad-op"
  | ["hex_rt", b] =>
    match parseBytes b with
    | some bs => two (outS renderBytes (hexDecode (utf8Encode (hexEncode bs)))) ("ok " ++ renderBytes bs)
    | none => "bad-op"
  | ["b64_rt", b] =>
    match parseBytes b with
    | some bs => two (outS renderBytes (b64Decode (utf8Encode (b64Encode bs)))) ("ok " ++ renderBytes bs)
    | none => "bad-op"
  | ["utf8_rt", c] =>
    match parseCps c with
    | some s => two (outS renderCps (utf8DecodeB (utf8Encode s))) ("ok " ++ renderCps s)
    | none => "bad-op"
  | ["chr_ord", n] =>
    match n.toInt? with
    | some v =>
      two (outS renderInt ((chr v).bind ord)) (if 0 ≤ v ∧ IsScalar v.toNat then "ok " ++ renderInt v else "throw")
    | none => "bad-op"
  | ["ord_chr", c] =>
    match parseCps c with
    | some s => two (outS renderCps ((ord s).bind chr)) (match s with
        | [_] => "ok " ++ renderCps s
        | _ => "throw")
    | none => "bad-op"
  | "echo" :: rest => two (joinWith " " rest) (joinWith " " rest)
  | ["json_text", v, tbl] =>
    -- byte-for-byte text of json_encode
    match parseVal 100000 v.toList with
    | some (x, []) => two (outS renderStr (jsonEncodeText (floatTextOf tbl) x)) "nopanic"
    | _ => "bad-op"
  | ["json_parse", t, tbl] =>
    match parseStr t with
    | some text => two (outS renderVal (jsonDecodeText (floatTextOf tbl) text)) "nopanic"
    | none => "bad-op"
  | ["json_lit", t, tbl] =>
    -- a JSON-shaped text read as a Noulith literal: the same value json_decode gives (in a dict
    -- literal, as in a JSON object, a later repeated key replaces the earlier one)
    match parseStr t with
    | some text =>
      let r := outS renderVal (jsonDecodeText (floatTextOf tbl) text)
      two r r
    | none => "bad-op"
  | ["json_rt_text", v, tbl] =>
    match parseVal 100000 v.toList with
    | some (x, []) =>
      let ft := floatTextOf tbl
      two (outS renderVal ((jsonEncodeText ft x).bind (jsonDecodeText ft)))
          (if jsonShapedB x then "ok " ++ renderVal x else "nopanic")
    | _ => "bad-op"
  | ["gzip_rt", b] =>
    match parseBytes b with
    | some bs => two ("ok " ++ renderBytes bs) ("ok " ++ renderBytes bs)
    | none => "bad-op"
  | ["decompress", _] => two "nopanic" "nopanic"
  | _ => "bad-op"

end Noulith.DriverC16
