/- Line-protocol handler for C16 (stub until the model exists). -/
import NoulithModel.Common
namespace Noulith.DriverC16
def handle (_args : List String) : String := "bad-op"
end Noulith.DriverC16
