/- Line-protocol handler for C05 (stub until the model exists). -/
import NoulithModel.Common
namespace Noulith.DriverC05
def handle (_args : List String) : String := "bad-op"
end Noulith.DriverC05
