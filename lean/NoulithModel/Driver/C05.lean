/- Line-protocol handler for C05: `run <fuel> <sexp…>` evaluates a core-language program in a fresh
interpreter and answers `<outcome> out=<hex of printed output>` (twice: the reference semantics is the
model itself for this property). -/
import NoulithModel.Driver.CoreSexp

namespace Noulith.DriverC05
open Noulith Noulith.Core

def render (r : Res × State) : String :=
  let outText := String.join (r.2.out.reverse.map (· ++ "\n"))
  canonRes r.1 ++ " out=" ++ hexOfString outText

def handle (args : List String) : String :=
  match args with
  | "run" :: fuel :: rest =>
    match fuel.toNat?, readExpr rest with
    | some f, some e =>
      let r := render (runProgram f e)
      r ++ "\t" ++ r
    | _, _ => "bad-op"
  | _ => "bad-op"

end Noulith.DriverC05
