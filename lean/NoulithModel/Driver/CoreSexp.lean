/- S-expression reader for core-language ASTs (shared by the C05 and C17 drivers) and the canonical
printer of core values.  Driver-only code (`partial` is used for the reader; nothing here is part of
a theorem). -/
import NoulithModel.Impl.CoreEval

namespace Noulith.Core

inductive Sexp where
  | atom (s : String)
  | list (xs : List Sexp)
  deriving Inhabited

/-- tokens: "(" ")" and atoms; the request line was already split on spaces -/
def tokenize (args : List String) : List String :=
  args.flatMap fun a =>
    -- split parens glued to atoms
    let rec go (cs : List Char) (cur : List Char) (acc : List String) : List String :=
      match cs with
      | [] => if cur.isEmpty then acc.reverse else (String.ofList cur.reverse :: acc).reverse
      | c :: rest =>
        if c = '(' ∨ c = ')' then
          let acc := if cur.isEmpty then acc else String.ofList cur.reverse :: acc
          go rest [] (String.singleton c :: acc)
        else go rest (c :: cur) acc
    go a.toList [] []

partial def parseSexp : List String → Option (Sexp × List String)
  | [] => none
  | "(" :: rest =>
    let rec items (ts : List String) (acc : List Sexp) : Option (List Sexp × List String) :=
      match ts with
      | ")" :: rest => some (acc.reverse, rest)
      | [] => none
      | ts => match parseSexp ts with
        | some (x, rest) => items rest (x :: acc)
        | none => none
    (items rest []).map fun (xs, rest) => (.list xs, rest)
  | ")" :: _ => none
  | a :: rest => some (.atom a, rest)

def unhexStr (h : String) : String :=
  match unhex h with
  | some bs => String.ofList (bs.map Char.ofNat)      -- ASCII only in generated programs
  | none => ""

partial def toPat : Sexp → Option Pat
  | .atom "_" => some .underscore
  | .list [.atom "pid", .atom x] => some (.ident x)
  | .list [.atom "plit", .atom n] => n.toInt?.map .lit
  | .list (.atom "pseq" :: ps) => (ps.mapM toPat).map .seq
  | _ => none

mutual
  partial def toExpr : Sexp → Option Expr
    | .atom "null" => some .null
    | .list [.atom "int", .atom n] => n.toInt?.map .int
    | .list [.atom "str", .atom h] => some (.str (unhexStr h))
    | .list [.atom "str"] => some (.str "")
    | .list [.atom "id", .atom x] => some (.ident x)
    | .list (.atom "list" :: xs) => (xs.mapM toExpr).map .list
    | .list [.atom "op", .atom n, a, b] => do some (.op n (← toExpr a) (← toExpr b))
    | .list [.atom "index", a, b] => do some (.index (← toExpr a) (← toExpr b))
    | .list (.atom "call" :: f :: args) => do some (.call (← toExpr f) (← args.mapM toExpr))
    | .list [.atom "and", a, b] => do some (.and_ (← toExpr a) (← toExpr b))
    | .list [.atom "or", a, b] => do some (.or_ (← toExpr a) (← toExpr b))
    | .list [.atom "coalesce", a, b] => do some (.coalesce (← toExpr a) (← toExpr b))
    | .list (.atom "seq" :: .atom semi :: xs) => do some (.seq (← xs.mapM toExpr) (semi == "1"))
    | .list [.atom "if", c, t] => do some (.ite (← toExpr c) (← toExpr t) none)
    | .list [.atom "if", c, t, e] => do some (.ite (← toExpr c) (← toExpr t) (some (← toExpr e)))
    | .list [.atom "while", c, b] => do some (.while_ (← toExpr c) (← toExpr b))
    | .list [.atom "for", .list its, body] => do some (.for_ (← its.mapM toForIt) (← toForBody body))
    | .list [.atom "decl", p, e] => do some (.declare (← toPat p) (← toExpr e))
    | .list [.atom "assign", .atom x, e] => do some (.assign x (← toExpr e))
    | .list [.atom "opassign", .atom x, .atom o, e] => do some (.opassign x o (← toExpr e))
    | .list [.atom "lambda", .list ps, b] => do some (.lambda (← ps.mapM toParam) (← toExpr b))
    | .list [.atom "break", .atom n] => n.toNat?.map fun n => .brk n none
    | .list [.atom "break", .atom n, e] => do some (.brk (← n.toNat?) (some (← toExpr e)))
    | .list [.atom "continue", .atom n] => n.toNat?.map .cont
    | .list [.atom "return"] => some (.ret none)
    | .list [.atom "return", e] => do some (.ret (some (← toExpr e)))
    | .list [.atom "throw", e] => do some (.throw_ (← toExpr e))
    | .list [.atom "try", b, p, c] => do some (.try_ (← toExpr b) (← toPat p) (← toExpr c))
    | .list (.atom "switch" :: sc :: arms) => do some (.switch_ (← toExpr sc) (← arms.mapM toArm))
    | .list [.atom "eval", e] => do some (.evalSrc (← toExpr e))
    | .list [.atom "freeze", e] => do some (.freeze (← toExpr e))
    | _ => none
  partial def toForIt : Sexp → Option ForIt
    | .list [.atom "iter", .atom k, p, e] => do
      let kind ← match k with
        | "normal" => some IterKind.normal | "item" => some .item | "declare" => some .declare | _ => none
      some (.iter kind (← toPat p) (← toExpr e))
    | .list [.atom "guard", e] => do some (.guard (← toExpr e))
    | _ => none
  partial def toForBody : Sexp → Option ForBody
    | .list [.atom "exec", e] => do some (.exec (← toExpr e))
    | .list [.atom "yield", e] => do some (.yield (← toExpr e) none)
    | .list [.atom "yield", e, i] => do some (.yield (← toExpr e) (some (← toExpr i)))
    | .list [.atom "yielditem", k, v] => do some (.yieldItem (← toExpr k) (← toExpr v) none)
    | .list [.atom "yielditem", k, v, i] => do some (.yieldItem (← toExpr k) (← toExpr v) (some (← toExpr i)))
    | _ => none
  partial def toArm : Sexp → Option SwitchArm
    | .list [.atom "arm", p, b] => do some (.mk (← toPat p) (← toExpr b))
    | _ => none
  /-- `(param name splat)`, `(param name splat D)` (a bare default, the form used before annotations
  existed), or tagged fields in any order: `(param name splat (dflt D) (ann T))` -/
  partial def toParam : Sexp → Option Param
    | .list (.atom "param" :: .atom x :: .atom s :: fields) => do
      let mut dflt : Option Expr := none
      let mut ann : Option Expr := none
      for f in fields do
        match f with
        | .list [.atom "dflt", d] => dflt := some (← toExpr d)
        | .list [.atom "ann", t] => ann := some (← toExpr t)
        | d => dflt := some (← toExpr d)
      some (.mk x dflt (s == "1") ann)
    | _ => none
end

def readExpr (args : List String) : Option Expr :=
  match parseSexp (tokenize args) with
  | some (sx, []) => toExpr sx
  | _ => none

/-! canonical value text, as `vharness::canon` prints it -/
def hexOfString (s : String) : String := hexOfBytes (s.toUTF8.toList.map (·.toNat))

/-- insertion sort of rendered dict entries (canonical key order = text order) -/
def insertSorted (x : String) : List String → List String
  | [] => [x]
  | y :: ys => if x ≤ y then x :: y :: ys else y :: insertSorted x ys

partial def canonVal : Val → String
  | .null => "null"
  | .int n => toString n
  | .str s => "s:" ++ hexOfString s
  | .list xs => "[" ++ joinWith "," (xs.map canonVal) ++ "]"
  | .dict kvs =>
    let items := kvs.map fun (k, v) => canonVal k ++ ":" ++ canonVal v
    "{" ++ joinWith "," (items.foldl (fun acc x => insertSorted x acc) []) ++ "}"
  | .closure .. => "<func>"
  | .builtin _ => "<func>"
  | .err => "err"

def canonRes : Res → String
  | .val v => "ok " ++ canonVal v
  | .brk .. => "throw"      -- an escaping break/continue/return is an error at top level
  | .cont _ => "throw"
  | .ret _ => "throw"
  | .thrown _ => "throw"
  | .fuelOut => "fuel"

end Noulith.Core
