/- Line-protocol handler for C04.

Requests (space separated tokens):
  `table`                               → the generated registration table, one line:
                                          `<hex name>:<family>:<hex alias or ->:<how>` joined by `|`
  `families`                            → `<struct>:<modelled run1 override>:<modelled run2 override>:<extracted r1>:<extracted r2>` joined by `|`
  `form <form> <n> <func…> <arg…>×n`    → evaluate one surface form in the SYMBOLIC world
  `entry <run|run1|run2> <func…> <arg…>`→ one entry point of a callable in the symbolic world

Polish-notation callables: `B <id> <struct>` | `C <id>` | `T <id>` | `X <id>` | `P1 f v` | `P2 f v` |
`PL f v` | `COMP f g` | `ON f g` | `FLIP f`; values: `A <kind> <id>` | `F f` | `L <n> v…`.

Response: `<impl>\t<spec>` where impl = `ok <term>` | `throw` | `panic` is the outcome the Impl model
predicts, as a term over the opaque bodies (`O(b2:17;$0,$1)` = "what body b2 of builtin 17 returns
for arguments 0 and 1"), and spec = `ref:always` | `ref:ifSection` | `ref:ifNotFunc` | `ref:none`
names the reference the property attaches to the form (Spec/ApplySpec.lean `refOf`): the plain
call of the same callable on the same tuple.  The harness resolves both against the real
interpreter. -/
import NoulithModel.Spec.ApplySpec
import NoulithModel.Generated.C04Tables

namespace Noulith.DriverC04
open Noulith Noulith.Apply

/-- the symbolic world: every opaque body returns a term naming the call -/
def symWorld : World where
  bodies id := ⟨fun a => .ok (.opq s!"b1:{id}" [a]), fun a b => .ok (.opq s!"b2:{id}" [a, b]),
                fun xs => .ok (.opq s!"bn:{id}" xs)⟩
  closure c args := .ok (.opq s!"cl:{c}" args)
  iter v := if v.isSeq then .ok [.opq "iter" [v]] else .throw
  index x i := .ok (.opq "index" [x, i])
  callType t args := .ok (.opq s!"ty:{t}" args)
  callDyn callee args := .ok (.opq "dyn" (callee :: args))
  chainN id args := .ok (.opq s!"chn:{id}" args)
  other id args := .ok (.opq s!"x:{id}" args)

mutual
partial def renderVal : Val → String
  | .atom _ id => s!"${id}"
  | .list xs => "L(" ++ joinWith "," (xs.map renderVal) ++ ")"
  | .opq l xs => "O(" ++ l ++ ";" ++ joinWith "," (xs.map renderVal) ++ ")"
  | .func f => "F(" ++ renderFunc f ++ ")"
partial def renderSlot : Slot → String
  | .val v => renderVal v
  | .hole false => "_"
  | .hole true => "_*"
partial def renderOpt : Option Val → String
  | some v => renderVal v
  | none => "_"
partial def renderFunc : Func → String
  | .builtin id _ => s!"B({id})"
  | .closure id => s!"C({id})"
  | .partialApp1 f x => "P1(" ++ renderFunc f ++ "," ++ renderVal x ++ ")"
  | .partialApp2 f x => "P2(" ++ renderFunc f ++ "," ++ renderVal x ++ ")"
  | .partialAppLast f x => "PL(" ++ renderFunc f ++ "," ++ renderVal x ++ ")"
  | .composition f g => "COMP(" ++ renderFunc f ++ "," ++ renderFunc g ++ ")"
  | .onComposition f g => "ON(" ++ renderFunc f ++ "," ++ renderFunc g ++ ")"
  | .flip f => "FLIP(" ++ renderFunc f ++ ")"
  | .listSection xs => "LS(" ++ joinWith "," (xs.map renderSlot) ++ ")"
  | .callSection c xs => "CS(" ++ renderVal c ++ ";" ++ joinWith "," (xs.map renderSlot) ++ ")"
  | .callSectionU xs => "CSU(" ++ joinWith "," (xs.map renderSlot) ++ ")"
  | .chainSection1 s op o => "CH(" ++ renderOpt s ++ ";" ++ renderFunc op ++ ";" ++ renderOpt o ++ ")"
  | .chainSectionN id => s!"CHN({id})"
  | .indexSection x i => "IS(" ++ renderOpt x ++ ";" ++ renderOpt i ++ ")"
  | .typeF id => s!"T({id})"
  | .other id => s!"X({id})"
end

def parseKind : String → Option Kind
  | "null" => some .null | "num" => some .num | "vec" => some .vec | "str" => some .str
  | "list" => some .list | "dict" => some .dict | "bytes" => some .bytes | "stream" => some .stream
  | "inst" => some .inst | "opq" => some .opq
  | _ => none

mutual
partial def parseFunc : List String → Option (Func × List String)
  | "B" :: id :: struct :: rest =>
    match id.toNat?, Family.ofStruct struct with
    | some n, some F => some (.builtin n F, rest)
    | _, _ => none
  | "C" :: id :: rest => id.toNat?.map fun n => (.closure n, rest)
  | "T" :: id :: rest => id.toNat?.map fun n => (.typeF n, rest)
  | "X" :: id :: rest => id.toNat?.map fun n => (.other n, rest)
  | "P1" :: rest => do
    let (f, r1) ← parseFunc rest
    let (v, r2) ← parseVal r1
    pure (.partialApp1 f v, r2)
  | "P2" :: rest => do
    let (f, r1) ← parseFunc rest
    let (v, r2) ← parseVal r1
    pure (.partialApp2 f v, r2)
  | "PL" :: rest => do
    let (f, r1) ← parseFunc rest
    let (v, r2) ← parseVal r1
    pure (.partialAppLast f v, r2)
  | "COMP" :: rest => do
    let (f, r1) ← parseFunc rest
    let (g, r2) ← parseFunc r1
    pure (.composition f g, r2)
  | "ON" :: rest => do
    let (f, r1) ← parseFunc rest
    let (g, r2) ← parseFunc r1
    pure (.onComposition f g, r2)
  | "FLIP" :: rest => do
    let (f, r1) ← parseFunc rest
    pure (.flip f, r1)
  | "CS" :: rest => do
    let (c, r1) ← parseVal rest
    match r1 with
    | n :: r2 =>
      let n ← n.toNat?
      let (ss, r3) ← parseSlots n r2
      pure (.callSection c ss, r3)
    | [] => none
  | "CSU" :: n :: rest => do
    let n ← n.toNat?
    let (ss, r) ← parseSlots n rest
    pure (.callSectionU ss, r)
  | "LS" :: n :: rest => do
    let n ← n.toNat?
    let (ss, r) ← parseSlots n rest
    pure (.listSection ss, r)
  | "CH" :: rest => do
    let (s, r1) ← parseOpt rest
    let (f, r2) ← parseFunc r1
    let (o, r3) ← parseOpt r2
    pure (.chainSection1 s f o, r3)
  | _ => none
partial def parseOpt : List String → Option (Option Val × List String)
  | "N" :: rest => some (none, rest)
  | rest => do
    let (v, r) ← parseVal rest
    pure (some v, r)
partial def parseSlots : Nat → List String → Option (List Slot × List String)
  | 0, rest => some ([], rest)
  | n + 1, "H" :: rest => do
    let (ss, r) ← parseSlots n rest
    pure (.hole false :: ss, r)
  | n + 1, "HS" :: rest => do
    let (ss, r) ← parseSlots n rest
    pure (.hole true :: ss, r)
  | n + 1, rest => do
    let (v, r1) ← parseVal rest
    let (ss, r2) ← parseSlots n r1
    pure (.val v :: ss, r2)
partial def parseVal : List String → Option (Val × List String)
  | "A" :: k :: id :: rest =>
    match parseKind k, id.toNat? with
    | some k, some n => some (.atom k n, rest)
    | _, _ => none
  | "F" :: rest => do
    let (f, r) ← parseFunc rest
    pure (.func f, r)
  | "L" :: n :: rest => do
    let n ← n.toNat?
    let (vs, r) ← parseVals n rest
    pure (.list vs, r)
  | _ => none
partial def parseVals : Nat → List String → Option (List Val × List String)
  | 0, rest => some ([], rest)
  | n + 1, rest => do
    let (v, r1) ← parseVal rest
    let (vs, r2) ← parseVals n r1
    pure (v :: vs, r2)
end

/-- `H` | `L<k>` | `S<k>` | `U<k>` joined by `-` -/
def parseMix (s : String) : Option (List Mix) :=
  (s.splitOn "-").mapM fun piece =>
    if piece == "H" then some Mix.hole
    else if piece.startsWith "L" then (piece.drop 1).toString.toNat?.map Mix.lit
    else if piece.startsWith "S" then (piece.drop 1).toString.toNat?.map Mix.spread
    else if piece.startsWith "U" then (piece.drop 1).toString.toNat?.map Mix.spreadHole
    else none

def parseForm (s : String) : Option Form :=
  if s.startsWith "mix:" then (parseMix (s.drop 4).toString).map Form.secMix
  else if s.startsWith "lmix:" then (parseMix (s.drop 5).toString).map Form.listMix
  else if s.startsWith "cmix:" then (parseMix (s.drop 5).toString).map Form.calleeMix
  else
  match s with
  | "call" => some .call | "bang" => some .bang | "infix" => some .infixOp | "backtick" => some .backtick
  | "secall" => some .secAll | "chainR" => some .chainR | "chainL" => some .chainL
  | "chainBoth" => some .chainBoth | "apply" => some .apply | "of" => some .of_ | "juxt" => some .juxt
  | "rsec" => some .rsec | "opassign" => some .opAssign | "splatAll" => some .splatAll
  | "splatTail" => some .splatTail | "dot" => some .dot | "fwdDot" => some .fwdDot
  | "opself" => some .opSelf | "opselfg" => some (.opSelfApp 50) | "opseq" => some .opSeq
  | "opthrow" => some .opRhsFails
  | _ => if s.startsWith "sec" then (s.drop 3).toString.toNat?.map Form.secHole else none

def renderRef : ApplySpec.Ref → String
  | .always => "ref:always"
  | .ifSection => "ref:ifSection"
  | .ifNotFunc => "ref:ifNotFunc"
  | .listLit => "ref:listLit"
  | .selfPair => "ref:selfPair"
  | .selfApp => "ref:selfApp"
  | .argA => "ref:argA"

def hexOfString (s : String) : String := hexOfBytes (s.toUTF8.toList.map (·.toNat))

def tableLine : String :=
  joinWith "|" (C04Tables.registrations.map fun r =>
    hexOfString r.name ++ ":" ++ r.family ++ ":" ++ (match r.alias with
      | some a => hexOfString a
      | none => "-") ++ ":" ++ r.how)

def b2s (b : Bool) : String := if b then "1" else "0"

def familiesLine : String :=
  joinWith "|" (C04Tables.structOverrides.map fun (s, r1, r2) =>
    match Family.ofStruct s with
    | some F => s ++ ":" ++ b2s F.overrides.1 ++ ":" ++ b2s F.overrides.2 ++ ":" ++ b2s r1 ++ ":" ++ b2s r2
    | none => s ++ ":?:?:" ++ b2s r1 ++ ":" ++ b2s r2)

def handle (args : List String) : String :=
  match args with
  | ["table"] => tableLine
  | ["families"] => familiesLine
  | "form" :: form :: n :: rest =>
    match parseForm form, n.toNat? with
    | some fm, some n =>
      match parseFunc rest with
      | some (f, r1) =>
        match parseVals n r1 with
        | some (vs, []) =>
          (evalForm symWorld fm f vs).render renderVal ++ "\t" ++
            (if (ApplySpec.arity fm).all (· == vs.length) then renderRef (ApplySpec.refOf fm) else "ref:none")
        | _ => "bad-op"
      | none => "bad-op"
    | _, _ => "bad-op"
  | "mk" :: which :: n :: rest =>
    -- the function VALUE a library combinator builds (lib.rs bodies of flip, <<<, >>>, on)
    match n.toNat? with
    | some n =>
      match parseVals n rest with
      | some (vs, []) =>
        let r : Out Val :=
          match which, vs with
          | "flip", [a] => Family.run1 .oneArg flipBodies libSelf a
          | "compose", [a, b] => Family.run2 .twoArg composeBodies libSelf a b
          | "rcompose", [a, b] => Family.run2 .twoArg composeBodies libSelf b a
          | "on", [a, b] => Family.run2 .twoArg onBodies libSelf a b
          | _, _ => .throw
        r.render renderVal ++ "\tref:none"
      | _ => "bad-op"
    | none => "bad-op"
  | "entry" :: e :: rest =>
    match parseFunc rest with
    | some (f, r1) =>
      match e, r1 with
      | "run", r =>
        -- the rest: a count then the values
        match r with
        | n :: r' =>
          match n.toNat? with
          | some n =>
            match parseVals n r' with
            | some (vs, []) => (f.run symWorld vs).render renderVal ++ "\tref:none"
            | _ => "bad-op"
          | none => "bad-op"
        | [] => "bad-op"
      | "run1", r =>
        match parseVals 1 r with
        | some ([a], []) => (f.run1 symWorld a).render renderVal ++ "\tref:none"
        | _ => "bad-op"
      | "run2", r =>
        match parseVals 2 r with
        | some ([a, b], []) => (f.run2 symWorld a b).render renderVal ++ "\tref:none"
        | _ => "bad-op"
      | _, _ => "bad-op"
    | none => "bad-op"
  | _ => "bad-op"

end Noulith.DriverC04
