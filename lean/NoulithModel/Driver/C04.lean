/- Line-protocol handler for C04 (stub until the model exists). -/
import NoulithModel.Common
namespace Noulith.DriverC04
def handle (_args : List String) : String := "bad-op"
end Noulith.DriverC04
