/- Line-protocol handler for C01 (and the shared statement parser used by C02).
Request:  `run <nvars> <stmt> <stmt> …` where a statement token is one of
  `as:<x>:<rhs>`            x = rhs
  `si:<x>:<path>:<rhs>`     x[path] = rhs           (path: comma separated ints)
  `ap:<x>:<path>:<rhs>`     x[path] append= rhs     (path may be empty)
  `po:<y>:<x>:<path>`       y = pop x[path]
  `rm:<y>:<x>:<path>:<i>`   y = remove x[path][i]
  `co:<y>:<x>:<path>`       y = consume x[path]
  `sw:<x>:<px>:<y>:<py>`    swap x[px], y[py]
  `up:<y>:<x>:<i>:<atom>`   y = x{i = atom}
  `ca:<y>:<x>:<atom>`       y = x append atom
  `apo:<x>:<p>:<y>:<q>`     x[p] append= pop y[q]    (old x[p] is read before the pop)
and rhs is `n` | `i<int>` | `v<var>` | `l<atom>,<atom>,…` | `r<atom>*<count>` | `d<key>=<atom>,…` (dict
literal with integer keys).  An index in a path is a list index or, where the value is a dict, a key.
Response: `<impl>\t<spec>\t<diag>`; impl/spec = `ok d1;d2;…` with one dump per statement,
`+` (completed) or `!` (raised) followed by the canonical values of all variables joined by `|`;
diag = the cost ledger `copied/pushes` after every statement. -/
import NoulithModel.Impl.HeapAbs

namespace Noulith.DriverC01
open Noulith Noulith.RcHeap

def parsePath (s : String) : Option (List Int) :=
  if s.isEmpty then some [] else (s.splitOn ",").mapM (·.toInt?)

def parseAtom (s : String) : Option Atom :=
  if s == "n" then some .null
  else if s.startsWith "i" then (s.drop 1).toString.toInt?.map Atom.int
  else if s.startsWith "v" then (s.drop 1).toString.toNat?.map Atom.var
  else none

def parseRhs (s : String) : Option Rhs :=
  if s.startsWith "l" then
    let body := (s.drop 1).toString
    if body.isEmpty then some (.list []) else ((body.splitOn ",").mapM parseAtom).map Rhs.list
  else if s.startsWith "d" then
    -- dict literal: `d<key>=<atom>,<key>=<atom>,…` (integer keys), `d` = empty dict
    let body := (s.drop 1).toString
    if body.isEmpty then some (.dict [])
    else ((body.splitOn ",").mapM fun (e : String) =>
      match e.splitOn "=" with
      | [k, a] => do pure ((← k.toInt?), (← parseAtom a))
      | _ => none).map Rhs.dict
  else if s.startsWith "r" then
    match ((s.drop 1).toString.splitOn "*") with
    | [a, n] => do pure (.rep (← parseAtom a) (← n.toNat?))
    | _ => none
  else (parseAtom s).map Rhs.atom

def parseStmt (tok : String) : Option Stmt :=
  match tok.splitOn ":" with
  | ["as", x, r] => do pure (.assign (← x.toNat?) (← parseRhs r))
  | ["si", x, p, r] => do pure (.setIdx (← x.toNat?) (← parsePath p) (← parseRhs r))
  | ["ap", x, p, r] => do pure (.append (← x.toNat?) (← parsePath p) (← parseRhs r))
  | ["po", y, x, p] => do pure (.pop (← y.toNat?) (← x.toNat?) (← parsePath p))
  | ["rm", y, x, p, i] => do pure (.remove (← y.toNat?) (← x.toNat?) (← parsePath p) (← i.toInt?))
  | ["co", y, x, p] => do pure (.consume (← y.toNat?) (← x.toNat?) (← parsePath p))
  | ["sw", x, px, y, py] => do pure (.swap (← x.toNat?) (← parsePath px) (← y.toNat?) (← parsePath py))
  | ["up", y, x, i, a] => do pure (.update (← y.toNat?) (← x.toNat?) (← i.toInt?) (← parseAtom a))
  | ["ca", y, x, a] => do pure (.callAppend (← y.toNat?) (← x.toNat?) (← parseAtom a))
  | ["apo", x, p, y, q] => do pure (.appendPop (← x.toNat?) (← parsePath p) (← y.toNat?) (← parsePath q))
  | _ => none

def dump (ok : Bool) (ts : List Store.Tree) : String :=
  (if ok then "+" else "!") ++ joinWith "|" (ts.map Store.Tree.render)

def runImpl : State → List Stmt → List String × List String
  | _, [] => ([], [])
  | s, st :: rest =>
    let r := step s st
    let (ds, cs) := runImpl r.1 rest
    (dump r.2 (abs r.1) :: ds, s!"{r.1.h.copied}/{r.1.h.pushes}" :: cs)

def runSpec : Store.Store → List Stmt → List String
  | _, [] => []
  | σ, st :: rest =>
    let r := Store.step σ st
    dump r.2 r.1 :: runSpec r.1 rest

def handle (args : List String) : String :=
  match args with
  | "run" :: nv :: toks =>
    match nv.toNat?, toks.mapM parseStmt with
    | some n, some stmts =>
      let (ds, cs) := runImpl (State.init n) stmts
      "ok " ++ joinWith ";" ds ++ "\t" ++ "ok " ++ joinWith ";" (runSpec (Store.Store.init n) stmts)
        ++ "\t" ++ joinWith ";" cs
    | _, _ => "bad-op"
  | _ => "bad-op"

end Noulith.DriverC01
