/- Line-protocol handler for C01 (stub until the model exists). -/
import NoulithModel.Common
namespace Noulith.DriverC01
def handle (_args : List String) : String := "bad-op"
end Noulith.DriverC01
