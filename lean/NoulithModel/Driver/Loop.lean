/- stdin/stdout loop shared by all drivers -/
namespace Noulith

partial def driverLoop (h : IO.FS.Stream) (out : IO.FS.Stream) (handle : List String → String) : IO Unit := do
  let line ← h.getLine
  if line.isEmpty then return ()
  let args := (line.trimAscii.toString.splitOn " ").filter (· ≠ "")
  out.putStrLn (handle args)
  driverLoop h out handle

def driverMain (handle : List String → String) : IO Unit := do
  let i ← IO.getStdin
  let o ← IO.getStdout
  driverLoop i o handle
  o.flush

end Noulith
