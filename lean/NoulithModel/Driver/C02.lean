/- Line-protocol handler for C02: the cost ledger of the C01 reference-counted heap.
Request:  `cost <holders> <n> <nvars> <stmt> <stmt> …` (statement tokens as in Driver/C01.lean).
Response: `ok <copied> <pushes> <allocs>\t ok <holders*n>`: the Impl ledger after the whole history
(elements copied by make_mut on shared payloads, elements pushed, number of allocations made) and the
bound the property allows for a workload whose target collection of n elements has `holders` additional
holders (0 for an unshared collection). -/
import NoulithModel.Driver.C01

namespace Noulith.DriverC02
open Noulith Noulith.RcHeap

def handle (args : List String) : String :=
  match args with
  | "cost" :: hs :: ns :: nv :: toks =>
    match hs.toNat?, ns.toNat?, nv.toNat?, toks.mapM DriverC01.parseStmt with
    | some holders, some n, some nvars, some stmts =>
      let s := RcHeap.run (State.init nvars) stmts
      s!"ok {s.h.copied} {s.h.pushes} {s.h.allocs.length}\tok {holders * n}"
    | _, _, _, _ => "bad-op"
  | "run" :: _ => DriverC01.handle args
  | _ => "bad-op"

end Noulith.DriverC02
