/- Line-protocol handler for C02 (stub until the model exists). -/
import NoulithModel.Common
namespace Noulith.DriverC02
def handle (_args : List String) : String := "bad-op"
end Noulith.DriverC02
