/- Line-protocol handler for C15.

Requests (tokens separated by one space; `<cps>` = code points in hex separated by `.`, `-` = empty)
  lex <cps>                      token stream of the source text
  parse <cps>                    outcome of `parse`: ok | err (Spec: it returns)
  int <form> <n> <cps>           integer literal: Impl lexes+evaluates <cps>; Spec = n; 3rd field = Spec rendering
  rat <n> <cps>                  rational literal `<n>q`
  float <ip>:<frac>:<exp>:<suf> <cps>
  str <kind> <delim> <items> <cps>   kind s|b|F, delim q|d
  raw <delim> <body cps> <cps>
  fmt <cps>                      format-string brace scanner on a body
  cls <lo> <hi>                  Unicode classes of the code points lo..hi (decimal)
Response: `<impl>\t<spec>[\t<diagnostic>]`. -/
import NoulithModel.Impl.Parse
import NoulithModel.Spec.Literal

namespace Noulith.DriverC15
open Noulith Noulith.Lex Noulith.LitSpec

def hexNat (n : Nat) : String := String.ofList (Nat.toDigits 16 n)

def parseHexNat (s : String) : Option Nat :=
  s.toList.foldl (fun acc c => match acc, hexDigitVal c with
    | some a, some d => some (16 * a + d)
    | _, _ => none) (some 0)

def parseCps (s : String) : Option (List Char) :=
  if s = "-" then some []
  else (s.splitOn ".").foldr (fun t acc => match acc, parseHexNat t with
    | some r, some n => some (Char.ofNat n :: r)
    | _, _ => none) (some [])

def renderCps (cs : List Char) : String :=
  if cs.isEmpty then "-" else joinWith "." (cs.map fun c => hexNat c.toNat)

def renderInvalid : InvalidKind → String
  | .badHexEscape => "badHexEscape" | .badUEnd => "badUEnd" | .uTooBig => "uTooBig"
  | .unknownEscape => "unknownEscape" | .escapeEof => "escapeEof" | .stringEof => "stringEof"
  | .runawayComment => "runawayComment" | .fmtNoQuote => "fmtNoQuote" | .rawNoQuote => "rawNoQuote"
  | .unrecognized => "unrecognized" | .invalidFloat => "invalidFloat" | .invalidImag => "invalidImag"

def renderToken : Token → String
  | .invalid k => "Invalid:" ++ renderInvalid k
  | .intLit n => "Int:" ++ toString n
  | .ratLit n => "Rat:" ++ toString n
  | .floatLit t => "Float:" ++ String.ofList t
  | .imagLit t => "Imag:" ++ String.ofList t
  | .stringLit s => "Str:" ++ renderCps s
  | .bytesLit bs => "Bytes:" ++ hexOfBytes bs
  | .formatString s => "Fmt:" ++ renderCps s
  | .ident s => "Ident:" ++ renderCps s
  | .leftParen => "LeftParen" | .rightParen => "RightParen" | .leftBracket => "LeftBracket"
  | .bLeftBracket => "BLeftBracket" | .rightBracket => "RightBracket" | .leftBrace => "LeftBrace"
  | .rightBrace => "RightBrace" | .backtick => "Backtick" | .null => "Null" | .and => "And"
  | .or => "Or" | .coalesce => "Coalesce" | .while => "While" | .for => "For" | .yield => "Yield"
  | .into => "Into" | .if => "If" | .else => "Else" | .switch => "Switch" | .case => "Case"
  | .try => "Try" | .catch => "Catch" | .break => "Break" | .continue => "Continue"
  | .return => "Return" | .throw => "Throw" | .bang => "Bang" | .questionMark => "QuestionMark"
  | .colon => "Colon" | .leftArrow => "LeftArrow" | .rightArrow => "RightArrow"
  | .doubleLeftArrow => "DoubleLeftArrow" | .doubleColon => "DoubleColon" | .semicolon => "Semicolon"
  | .ellipsis => "Ellipsis" | .lambda => "Lambda" | .lambdaEnd => "LambdaEnd" | .comma => "Comma"
  | .assign => "Assign" | .consume => "Consume" | .pop => "Pop" | .remove => "Remove"
  | .swap => "Swap" | .every => "Every" | .struct => "Struct" | .freeze => "Freeze"
  | .import => "Import" | .literally => "Literally" | .underscore => "Underscore"
  | .internalFrame => "InternalFrame" | .internalPush => "InternalPush" | .internalPop => "InternalPop"
  | .internalPeek => "InternalPeek" | .internalPeekN n => "InternalPeekN:" ++ toString n
  | .internalWhile => "InternalWhile" | .internalFor => "InternalFor" | .internalCall => "InternalCall"
  | .internalLambda => "InternalLambda"
  | .comment s => "Comment:" ++ renderCps s
  | .panic site => "PANIC:" ++ site

def renderTokens (ts : List Token) : String :=
  if ts.any Token.isPanic then "panic"
  else "ok" ++ String.join (ts.map fun t => " " ++ renderToken t)

def utf8OfChars (cs : List Char) : List Nat := cs.flatMap utf8Encode

def renderLitVal : LitVal → String
  | .int n _ => toString n
  | .rat n => toString n ++ "/1"
  | .float t => "float:" ++ String.ofList t
  | .imag t => "imag:" ++ String.ofList t
  | .str s => "s:" ++ hexOfBytes (utf8OfChars s)
  | .bytes bs => "b:" ++ hexOfBytes bs

def repOf : Out LitVal → String
  | .ok (.int _ true) => "small"
  | .ok (.int _ false) => "big"
  | _ => "-"

/-! request decoding -/
def flag (c : Char) : Bool := c = 'u'

def parseIntForm (s : String) : Option IntForm :=
  match s.splitOn ":" with
  | ["dec"] => some .dec
  | ["hex", f] => match f.toList with | [a, b] => some (.hex (flag a) (flag b)) | _ => none
  | ["bin", f] => match f.toList with | [a] => some (.bin (flag a)) | _ => none
  | ["oct", f] => match f.toList with | [a] => some (.oct (flag a)) | _ => none
  | ["radix", r, f] => match r.toNat?, f.toList with
    | some r, [a, b] => some (.radix r (flag a) (flag b))
    | _, _ => none
  | ["b64", f] => match f.toList with | [a, b] => some (.b64 (flag a) (flag b)) | _ => none
  | _ => none

def digitsOfString (s : String) : Option (List Nat) :=
  s.toList.foldr (fun c acc => match acc with
    | some r => if '0' ≤ c ∧ c ≤ '9' then some ((c.toNat - 48) :: r) else none
    | none => none) (some [])

def parseFloatDesc (s : String) : Option FloatLit :=
  match s.splitOn ":" with
  | [ip, fr, ex, su] =>
    let frac : Option (Option (List Nat)) :=
      if fr = "_" then some none
      else if fr.startsWith "." then (digitsOfString (fr.drop 1).toString).map some else none
    let exp : Option (Option (Bool × Bool × List Nat)) :=
      if ex = "_" then some none
      else match ex.toList with
        | e :: '-' :: ds => (digitsOfString (String.ofList ds)).map fun d => some (e = 'E', true, d)
        | e :: ds => (digitsOfString (String.ofList ds)).map fun d => some (e = 'E', false, d)
        | [] => none
    let suf : Option NumSuffix := match su with
      | "_" => some .none | "f" => some (.f false) | "F" => some (.f true)
      | "i" => some (.i false) | "I" => some (.i true) | "j" => some (.j false) | "J" => some (.j true)
      | _ => none
    match digitsOfString ip, frac, exp, suf with
    | some ip, some fr, some ex, some su => some ⟨ip, fr, ex, su⟩
    | _, _, _, _ => none
  | _ => none

def parseHexDigit (c : Char) : Option HexDigit :=
  match hexDigitVal c with
  | some v => some ⟨v, 'A' ≤ c ∧ c ≤ 'F'⟩
  | none => none

def parseItem (s : String) : Option StrItem :=
  match s.toList with
  | ['n'] => some .nl | ['r'] => some .cr | ['t'] => some .tab | ['0'] => some .nul
  | ['b'] => some .backslash | ['q'] => some .squote | ['d'] => some .dquote
  | 'p' :: h => (parseHexNat (String.ofList h)).map fun n => .plain (Char.ofNat n)
  | ['x', a, b] => match parseHexDigit a, parseHexDigit b with
    | some x, some y => some (.hex x y)
    | _, _ => none
  | 'u' :: k :: ds =>
    let b : Option Bracket := match k with
      | 'N' => some .none | 'C' => some .brace | 'P' => some .paren | 'S' => some .square
      | 'A' => some .angle | _ => none
    let hs := ds.foldr (fun c acc => match acc, parseHexDigit c with
      | some r, some h => some (h :: r)
      | _, _ => none) (some [])
    match b, hs with
    | some b, some hs => some (.uni b hs)
    | _, _ => none
  | _ => none

def parseItems (s : String) : Option (List StrItem) :=
  if s = "-" then some []
  else (s.splitOn ",").foldr (fun t acc => match acc, parseItem t with
    | some r, some i => some (i :: r)
    | _, _ => none) (some [])

def classBits (n : Nat) : Char :=
  if 0xD800 ≤ n ∧ n ≤ 0xDFFF then '-'
  else
    let c := Char.ofNat n
    let v := (if Unicode.isAlphabetic c then 1 else 0) + (if Unicode.isNumeric c then 2 else 0)
      + (if Unicode.isUppercase c then 4 else 0) + (if Unicode.isWhitespace c then 8 else 0)
    hexDigitChar v

def renderBase : FmtBase → String
  | .decimal => "d" | .binary => "b" | .octal => "o" | .lowerHex => "x" | .upperHex => "X"
def renderAlign : FmtAlign → String
  | .left => "<" | .right => ">" | .center => "^"
def renderFmtPart : FmtPart → String
  | .lit c => "L" ++ hexNat c.toNat
  | .expr toks fl => "E[" ++ renderBase fl.base ++ "," ++ hexNat fl.pad.toNat ++ "," ++ toString fl.padLength ++ ","
      ++ renderAlign fl.padAlign ++ "]" ++ (if toks.isEmpty then "!" else "")
def renderFmtErr : FmtErr → String
  | .unmatchedRight => "unmatchedRight" | .unmatchedLeft => "unmatchedLeft" | .emptyExpr => "emptyExpr"
  | .padLength => "padLength" | .lexPanic => "lexPanic"

def outLit (r : Out LitVal) : String := r.render renderLitVal

def handle (args : List String) : String :=
  match args with
  | ["lex", cps] =>
    match parseCps cps with
    | some cs => renderTokens (lex cs) ++ "\tok"
    | none => "bad-op"
  | ["int", form, n, cps] =>
    match parseIntForm form, n.toNat?, parseCps cps with
    | some f, some n, some cs =>
      let r := parseEvalLit cs
      outLit r ++ "\t" ++ (if f.valid then "ok " ++ toString n else "bad-form") ++ "\t" ++ renderCps (renderInt f n)
        ++ "\t" ++ repOf r
    | _, _, _ => "bad-op"
  | ["rat", n, cps] =>
    match n.toNat?, parseCps cps with
    | some n, some cs =>
      outLit (parseEvalLit cs) ++ "\tok " ++ toString n ++ "/1\t" ++ renderCps (decimal n ++ ['q'])
    | _, _ => "bad-op"
  | ["float", desc, cps] =>
    match parseFloatDesc desc, parseCps cps with
    | some l, some cs =>
      let spec := if l.wf then "ok " ++ (if l.suffix.isImag then "imag:" else "float:") ++ String.ofList l.text
                  else "bad-form"
      outLit (parseEvalLit cs) ++ "\t" ++ spec ++ "\t" ++ renderCps l.render
    | _, _ => "bad-op"
  | ["str", kind, delim, items, cps] =>
    match parseItems items, parseCps cps with
    | some its, some cs =>
      let d : Char := if delim = "q" then '\'' else '"'
      let pre : List Char := if kind = "b" then ['B'] else if kind = "F" then ['F'] else []
      let spec : String :=
        if kind = "b" then
          match denoteBodyBytes its with
          | some bs => "ok b:" ++ hexOfBytes bs
          | none => "throw"
        else
          match denoteBody its with
          | some vs => "ok s:" ++ hexOfBytes (vs.flatMap utf8)
          | none => "throw"
      outLit (parseEvalLit cs) ++ "\t" ++ spec ++ "\t" ++ renderCps (pre ++ d :: renderBody its ++ [d])
    | _, _ => "bad-op"
  | ["raw", delim, body, cps] =>
    match parseCps body, parseCps cps with
    | some b, some cs =>
      let d : Char := if delim = "q" then '\'' else '"'
      outLit (parseEvalLit cs) ++ "\tok s:" ++ hexOfBytes (utf8OfChars b) ++ "\t" ++ renderCps ('R' :: d :: b ++ [d])
    | _, _ => "bad-op"
  | ["parse", cps] =>
    match parseCps cps with
    | some cs =>
      (match Parse.parse cs with
        | .ok => "ok" | .err => "err" | .outOfFuel => "out-of-fuel") ++ "\treturns"
    | none => "bad-op"
  | ["fmt", cps] =>
    match parseCps cps with
    | some cs =>
      (match fmtScan cs with
        | .ok parts => "ok" ++ String.join (parts.map fun p => " " ++ renderFmtPart p)
        | .error .lexPanic => "panic"
        | .error e => "error:" ++ renderFmtErr e) ++ "\tok"
    | none => "bad-op"
  | ["cls", lo, hi] =>
    match lo.toNat?, hi.toNat? with
    | some lo, some hi => String.ofList ((List.range (hi + 1 - lo)).map fun i => classBits (lo + i)) ++ "\tok"
    | _, _ => "bad-op"
  | _ => "bad-op"

end Noulith.DriverC15
