/- Line-protocol handler for C15 (stub until the model exists). -/
import NoulithModel.Common
namespace Noulith.DriverC15
def handle (_args : List String) : String := "bad-op"
end Noulith.DriverC15
