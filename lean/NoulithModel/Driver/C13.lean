/- Line-protocol handler for C13.
Request: `<builtin> <arg> …` where an argument is a canonical value (`[1,s:61]`, `s:…`, `b:…`,
`v[…]`, `stream[…]`, `d[…]` = a dictionary seen as its keys in iteration order) or a closure
`f:<name>` / `f:<name>:<canonical constant>`.  `chain x0 op1 x1 op2 x2 …` evaluates a chained infix expression (merging as `try_chain` does);
`w<pos>[…]` is `stream(seq)` advanced to position `pos`.  Prefix `sorted!` before the builtin sorts the
top-level list of the result by rendered text (results whose order comes out of a `HashMap`).
Response: `<impl>\t<spec>`. -/
import NoulithModel.Spec.SeqLibCall

namespace Noulith.DriverC13
open Noulith Noulith.SeqLib

def parseArg (s : String) : Option Arg :=
  -- `f:<16 hex digits>` is a float, every other `f:…` a closure
  if s.startsWith "f:" && !(s.length == 18 && (s.drop 2).toString.toList.all Parse.isHex) then
    let rest := (s.drop 2).toString
    match rest.splitOn ":" with
    | [name] => some (.f ⟨name, .null⟩)
    | name :: ks =>
      match Parse.parseVal (String.intercalate ":" ks) with
      | some k => some (.f ⟨name, k⟩)
      | none => none
    | [] => none
  else (Parse.parseVal s).map .v

def parseArgs : List String → Option (List Arg)
  | [] => some []
  | s :: rest =>
    match parseArg s, parseArgs rest with
    | some a, some as => some (a :: as)
    | _, _ => none

def insertStr (e : String) : List String → List String
  | [] => [e]
  | h :: t => if e ≤ h then e :: h :: t else h :: insertStr e t

def renderSorted (v : Val) : String :=
  match v with
  | .list xs => "[" ++ joinWith "," ((Val.renderList xs).foldr insertStr []) ++ "]"
  | v => v.render

/-- `x0 op1 x1 op2 x2 …` -/
def parseChain : List String → Option (List (String × Arg))
  | [] => some []
  | op :: x :: rest =>
    match parseArg x, parseChain rest with
    | some a, some r => some ((op, a) :: r)
    | _, _ => none
  | _ => none

def handle (args : List String) : String :=
  match args with
  | "chain" :: x0 :: rest =>
    match parseArg x0, parseChain rest with
    | some a, some ops =>
      (evalChain implLib a ops).render Val.render ++ "\t" ++ (evalChain specLib a ops).render Val.render
    | _, _ => "bad-op"
  | "calls!" :: name :: rest =>
    -- `[result or "T" if it raised, number of calls of the function argument]`
    match parseArgs rest with
    | some [.v sq, .f fn] =>
      let show1 (r : Out Val) (n : Nat) : String :=
        match r with
        | .ok v => "ok [" ++ v.render ++ "," ++ toString n ++ "]"
        | .throw => "ok [s:54," ++ toString n ++ "]"
        | .panic => "panic"
      show1 (call implLib name [.v sq, .f fn]) (callsImpl name sq fn) ++ "\t" ++
        show1 (call specLib name [.v sq, .f fn]) (callsSpec name sq fn)
    | _ => "bad-op"
  | "sorted!" :: name :: rest =>
    match parseArgs rest with
    | some as => (call implLib name as).render renderSorted ++ "\t" ++ (call specLib name as).render renderSorted
    | none => "bad-op"
  | name :: rest =>
    match parseArgs rest with
    | some as => (call implLib name as).render Val.render ++ "\t" ++ (call specLib name as).render Val.render
    | none => "bad-op"
  | [] => "bad-op"

end Noulith.DriverC13
