/- Line-protocol handler for C13 (stub until the model exists). -/
import NoulithModel.Common
namespace Noulith.DriverC13
def handle (_args : List String) : String := "bad-op"
end Noulith.DriverC13
