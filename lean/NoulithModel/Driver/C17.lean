/- Line-protocol handler for C17 (stub until the model exists). -/
import NoulithModel.Common
namespace Noulith.DriverC17
def handle (_args : List String) : String := "bad-op"
end Noulith.DriverC17
