/- Line-protocol handler for C17: `run <fuel> <sexp…>` evaluates a core-language program containing
`(freeze …)` nodes with the Impl model of freeze (Impl/Freeze.lean wired into the evaluator); the
second column is the same program with every `freeze e` replaced by `e` (the property's reference:
freezing preserves meaning). -/
import NoulithModel.Driver.CoreSexp

namespace Noulith.DriverC17
open Noulith Noulith.Core

def render (r : Res × State) : String :=
  let outText := String.join (r.2.out.reverse.map (· ++ "\n"))
  canonRes r.1 ++ " out=" ++ hexOfString outText

mutual
  partial def erase : Expr → Expr
    | .freeze e => erase e
    | .list xs => .list (xs.map erase)
    | .op n a b => .op n (erase a) (erase b)
    | .index a i => .index (erase a) (erase i)
    | .call f args => .call (erase f) (args.map erase)
    | .and_ a b => .and_ (erase a) (erase b)
    | .or_ a b => .or_ (erase a) (erase b)
    | .coalesce a b => .coalesce (erase a) (erase b)
    | .seq xs s => .seq (xs.map erase) s
    | .ite c t e => .ite (erase c) (erase t) (e.map erase)
    | .while_ c b => .while_ (erase c) (erase b)
    | .for_ its body => .for_ (its.map eraseIt) (eraseBody body)
    | .declare p e => .declare p (erase e)
    | .assign x e => .assign x (erase e)
    | .opassign x o e => .opassign x o (erase e)
    | .lambda ps b =>
      .lambda (ps.map fun p => match p with | .mk n d sp a => .mk n (d.map erase) sp (a.map erase)) (erase b)
    | .brk n e => .brk n (e.map erase)
    | .ret e => .ret (e.map erase)
    | .throw_ e => .throw_ (erase e)
    | .try_ b p c => .try_ (erase b) p (erase c)
    | .switch_ sc arms => .switch_ (erase sc) (arms.map fun a => match a with | .mk p b => .mk p (erase b))
    | e => e
  partial def eraseIt : ForIt → ForIt
    | .iter k p e => .iter k p (erase e)
    | .guard e => .guard (erase e)
  partial def eraseBody : ForBody → ForBody
    | .exec e => .exec (erase e)
    | .yield e i => .yield (erase e) (i.map erase)
    | .yieldItem k v i => .yieldItem (erase k) (erase v) (i.map erase)
end

def handle (args : List String) : String :=
  match args with
  | "run" :: fuel :: rest =>
    match fuel.toNat?, readExpr rest with
    | some f, some e => render (runProgram f e) ++ "\t" ++ render (runProgram f (erase e))
    | _, _ => "bad-op"
  | _ => "bad-op"

end Noulith.DriverC17
