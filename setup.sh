#!/bin/sh
# Build the framework from files on disk only (offline): Lean models, theorems, drivers; Rust harness.
set -e
cd "$(dirname "$0")"
export CARGO_NET_OFFLINE=true
(cd harness && cp /repo/Cargo.lock Cargo.lock 2>/dev/null || true)
python3 tools/extract_tables.py || true
(cd lean && lake build)
(cd harness && cargo build --offline --profile checked)
