#!/bin/sh
# Build the framework from files on disk only (offline): Lean models, theorems, drivers; Rust harness.
set -e
cd "$(dirname "$0")"
export CARGO_NET_OFFLINE=true
(cd harness && cp /repo/Cargo.lock Cargo.lock 2>/dev/null || true)
for f in tools/extract_c*.py; do [ -f "$f" ] && python3 "$f"; done || true
TARGETS=$(python3 -c "import sys; sys.path.insert(0,'tools'); from props import PROPS; print(' '.join(sorted(set(t for c in PROPS.values() for t in c['theorem_modules']+[c['driver']]))))")
(cd lean && lake build $TARGETS)
BINS=$(python3 -c "import sys; sys.path.insert(0,'tools'); from props import PROPS; print(' '.join('--bin '+c['bin'] for c in PROPS.values()))")
(cd harness && cargo build --offline --profile checked $BINS)
