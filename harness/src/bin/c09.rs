//! C09 correspondence: dictionaries of the real interpreter vs the Impl model (association list
//! addressed through hasher-write equality + total_eq) vs the Spec (finite map on ≈-classes).
//! Random operation sequences over 1-3 dict variables; every step is sent to the model together
//! with the real pre-state, and after every step the touched dictionaries are observed (lookups of
//! pool keys, membership, len, keys/values/items, ==).
use noulith::{Obj, Seq};
use vharness::*;

const PR: &str = "pr := \\a, b -> [a, b]; lf := \\a, b -> a; rt := \\a, b -> b; fl := \\a, b -> throw \"no\"; idf := \\x -> x; d0 := null; d1 := null; d2 := null; tr := null; mf := null; rs := null; rm := null";

fn key_pool() -> Vec<&'static str> {
    vec![
        // the property's pool: numerically equal values of different levels and representations
        "1", "1.0", "(2/2)", "(1+0i)", "(7^1-6)", "2^64", "2.0^64", "(2^64/1)", "(2.0^64+0i)", "(1/2)", "0.5", "(0.5+0i)",
        "0.0", "(-0.0)", "0", "(0/1)", "(0.0/0.0)", "((0.0/0.0)+1i)", "(1+(0.0/0.0)*1i)", "2", "2.0", "(4/2)", "(1/3)",
        "0.3333333333333333", "float(\"inf\")", "float(\"-inf\")", "(2^53+1)", "9007199254740992.0", "2^53",
        "(3/2)", "1.5", "(1+1i)", "(0-1)", "(-1.0)", "10^30", "1e30", "(10^30/1)",
        // machine-word boundaries as integers AND as their float / rational / complex twins
        "2^63", "2.0^63", "(2^63/1)", "(2.0^63+0i)", "2^63-1", "9223372036854775807.0", "2^63+1", "2^63-1024",
        "9223372036854774784.0", "(0-2^63)", "(0-2.0^63)", "((0-2^63)/1)", "(0-2^63-1)", "(0-2^63-2048)",
        "(0-9223372036854777856.0)", "2^64-1", "2^64+1", "18446744073709549568.0", "2^64-2048", "2^53-1",
        "9007199254740991.0", "9007199254740993.0", "2^31", "2.0^31", "2^32", "2.0^32", "(0-2^31)", "(0-2.0^31)",
        "[2^63]", "[2.0^63]", "[0-2^63]", "[0-2.0^63]", "[2^63-1]", "[2^53]", "[9007199254740992.0]", "[2^53+1]",
        "V(2^63)", "V(2.0^63)", "V(0-2^63)", "V(0-2.0^63)", "V(2^64)", "V(2.0^64)", "V(2^53)", "V(9007199254740992.0)",
        "{2^63: 1}", "{2.0^63: 1}", "[[2^63, 2.0^64]]", "[[2.0^63, 2^64]]",
        // the same boundaries in the OTHER integer representation (literal = Small; `^`, `n^1`, big differences = Big)
        "(0-9223372036854775807-1)", "((0-2)^63)", "9223372036854775807", "(9223372036854775807^1)", "(0-9223372036854775807)",
        "(0-2^63+1)", "9007199254740992", "9007199254740993", "2147483648", "(0-2147483648)", "4294967296", "(2^70+0-2^70)",
        "(1^1)", "(2^70-1-2^70)", "[0-9223372036854775807-1]", "V(0-9223372036854775807-1)", "[9223372036854775807]",
        "V(9223372036854775807)", "{0-9223372036854775807-1: 1}", "{0-2^63: 1}",
        // complex numbers with NEGATIVE-zero parts (== to the real number; only negation produces them)
        "(-(1+0i))", "(0-(1+0i))", "(-(0.5+0i))", "(-(0.0+0i))", "(-(2.0^63+0i))", "(-(2+0i))", "(-(1/2+0i))", "(0-1/2)", "(-0.5)",
        "(-2.0)", "(0-2)", "[-(1+0i)]", "[0-1]", "[0, -(1+0i)]", "[0, 0-1]", "[-(0.0+0i)]", "V(-(1+0i))", "V(0-1)", "{-(1+0i): 1}",
        "{0-1: 1}", "(-(1+1i))", "(0-1-1i)",
        // dictionaries that carry a DEFAULT (which is not part of their identity as a key), depth 0-2
        "{:0, 1: 1}", "{:5, 1: 1}", "{1: 1}", "{1.0: 1}", "frequencies([1])", "{:0}", "{:\"x\"}", "{:0, 1: 2, 3: 4}",
        "[{:0, 1: 1}]", "[{1: 1}]", "[frequencies([1.0])]", "{7: {:0, 1: 1}}", "{7: {1: 1}}", "{{:0, 1: 1}: 2}", "{{1: 1}: 2}",
        "[1, [{:9}]]", "[1, [{}]]", "{:null, 1: 2}", "frequencies([1, 2, 2])", "{1: 1, 2: 2}",
        // other key kinds
        "null", "\"a\"", "\"1\"", "\"\"", "B\"a\"",
        // nested in lists, vectors, dicts
        "[1]", "[1.0]", "[2/2]", "[1+0i]", "[1/2]", "[0.5]", "[0.0/0.0]", "[1, [2.0, 1/2]]", "[1.0, [2, 0.5]]", "[]",
        "[2^64]", "[2.0^64]", "[0.0]", "[-0.0]", "[\"a\", 1]", "[\"a\", 1.0]",
        "V(1)", "V(1.0)", "V(2/2)", "V(1/2)", "V(0.5)", "V(1, 2)", "V(1.0, 4/2)", "V(0.0/0.0)", "V(1+0i)",
        "{1: 2}", "{1.0: 2}", "{2/2: 2.0}", "{1: 2, 3: 4}", "{3.0: 4, 1.0: 2}", "{}", "{0.5: [1]}", "{1/2: [1.0]}",
        "{1: {2: 3}}", "{1.0: {2.0: 3.0}}", "[{1: 2}]", "[{1.0: 2.0}]",
    ]
}
fn bad_keys() -> Vec<&'static str> {
    vec!["idf", "[1, idf]", "{1: idf}"]
}
fn value_pool() -> Vec<&'static str> {
    vec!["1", "2", "5", "\"a\"", "\"b\"", "null", "[1]", "1.0", "(1/2)", "2^64", "[]", "{1: 2}", "0",
        // values that are not == to themselves: NaN at depth 0, 1, 2
        "(0.0/0.0)", "[0.0/0.0]", "{1: 0.0/0.0}", "[[1, 0.0/0.0]]", "{1: [0.0/0.0]}"]
}

struct Elem {
    src: String,
    canon: String,
    class: String,
}

fn class_of(o: &Obj) -> String {
    use noulith::nnum::NNum;
    match o {
        Obj::Null => "null".into(),
        Obj::Num(NNum::Int(_)) => "int".into(),
        Obj::Num(NNum::Rational(_)) => "rat".into(),
        Obj::Num(NNum::Float(f)) => if f.is_nan() { "nan".into() } else { "float".into() },
        Obj::Num(NNum::Complex(z)) => if z.re.is_nan() || z.im.is_nan() { "cnan".into() } else { "complex".into() },
        Obj::Seq(Seq::String(_)) => "str".into(),
        Obj::Seq(Seq::Bytes(_)) => "bytes".into(),
        Obj::Seq(Seq::List(_)) => "list".into(),
        Obj::Seq(Seq::Vector(_)) => "vec".into(),
        Obj::Seq(Seq::Dict(..)) => "dict".into(),
        _ => "func".into(),
    }
}

fn mk(interp: &Interp, src: &str) -> Option<Elem> {
    match interp.eval_obj(src) {
        Ok(o) => Some(Elem { src: format!("({})", src), canon: canon(&o), class: class_of(&o) }),
        Err(_) => None,
    }
}

/// canonical text of a list result whose order comes out of a HashMap: elements sorted by text
fn canon_sorted_list(o: &Obj) -> String {
    match o {
        Obj::Seq(Seq::List(v)) => {
            let mut items: Vec<String> = v.iter().map(canon).collect();
            items.sort();
            format!("[{}]", items.join(","))
        }
        o => canon(o),
    }
}

struct Case {
    key: String,
    input: String,
    request: String,
    rust: String,
}

struct Gen<'a> {
    interp: &'a Interp,
    keys: &'a [Elem],
    bad: &'a [Elem],
    vals: &'a [Elem],
    cases: Vec<Case>,
    /// for every pool key the indices of the other pool keys that are == to it (NaNs: each other)
    twins: Vec<Vec<usize>>,
    /// source text that rebuilds the current sequence from scratch (for replay)
    script: Vec<String>,
}

impl<'a> Gen<'a> {
    fn eval_class(&self, src: &str, sorted: bool) -> String {
        match self.interp.eval_obj(src) {
            Ok(o) => format!("ok {}", if sorted { canon_sorted_list(&o) } else { canon(&o) }),
            Err(Outcome::Panic(_)) => "panic".into(),
            Err(Outcome::ParseErr(m)) => format!("parse-error {}", m),
            Err(_) => "throw".into(),
        }
    }
    fn state(&self, var: &str) -> String {
        match self.interp.eval_obj(var) {
            Ok(o) => canon(&o),
            Err(_) => "?".into(),
        }
    }
    fn push(&mut self, key: String, expr: &str, request: String, rust: String) {
        let input = format!("{}; {}", self.script.join("; "), expr);
        self.cases.push(Case { key, input, request, rust });
    }
    /// a pure expression over the current variables: evaluate, compare
    fn observe(&mut self, key: &str, expr: &str, request: String, sorted: bool) {
        let rust = self.eval_class(expr, sorted);
        self.push(key.to_string(), expr, request, rust);
    }
    /// a statement that mutates `var`: evaluate, read the variable back
    fn mutate(&mut self, key: &str, stmt: &str, var: &str, request: String) {
        let r = self.interp.eval(stmt);
        let rust = match r {
            Outcome::Ok(_) => format!("ok {}", self.state(var)),
            Outcome::Panic(_) => "panic".into(),
            _ => "throw".into(),
        };
        self.push(key.to_string(), &format!("{}; {}", stmt, var), request, rust);
        self.script.push(format!("try {} catch _ -> null", stmt));
    }
}

fn pick_key<'b>(rng: &mut Rng, keys: &'b [Elem], bad: &'b [Elem]) -> &'b Elem {
    if rng.chance(1, 25) {
        rng.pick(bad)
    } else {
        rng.pick(keys)
    }
}

fn run_sequence(g: &mut Gen, rng: &mut Rng, n_ops: usize) {
    let nvars = 1 + rng.below(3) as usize;
    g.script.clear();
    g.script.push(PR.to_string());
    // literal construction of every variable
    for vi in 0..nvars {
        let n = rng.below(5) as usize;
        let dflt = if rng.chance(1, 3) { Some(rng.pick(g.vals)) } else { None };
        let pairs: Vec<(&Elem, &Elem)> = (0..n).map(|_| (pick_key(rng, g.keys, g.bad), rng.pick(g.vals))).collect();
        let body: Vec<String> = pairs.iter().map(|(k, v)| format!("{}: {}", k.src, v.src)).collect();
        let lit = match dflt {
            Some(d) => format!("{{:{}{}{}}}", d.src, if body.is_empty() { "" } else { ", " }, body.join(", ")),
            None => format!("{{{}}}", body.join(", ")),
        };
        let req = format!(
            "lit {} [{}]",
            dflt.map(|d| d.canon.clone()).unwrap_or("-".into()),
            pairs.iter().map(|(k, v)| format!("[{},{}]", k.canon, v.canon)).collect::<Vec<_>>().join(",")
        );
        let var = format!("d{}", vi);
        // if the literal raises (bad key) fall back to an empty dict so that the variable exists
        let stmt = format!("{} = {}", var, lit);
        let r = g.interp.eval(&stmt);
        let rust = match r {
            Outcome::Ok(_) => format!("ok {}", g.state(&var)),
            Outcome::Panic(_) => "panic".into(),
            _ => "throw".into(),
        };
        g.push("literal".into(), &format!("{}; {}", stmt, var), req, rust.clone());
        if rust.starts_with("ok") {
            g.script.push(format!("try {} catch _ -> null", stmt));
        } else {
            let s2 = format!("{} = {{}}", var);
            g.interp.eval(&s2);
            g.script.push(s2);
        }
    }
    for _ in 0..n_ops {
        let vi = rng.below(nvars as u64) as usize;
        let wi = rng.below(nvars as u64) as usize;
        let var = format!("d{}", vi);
        let other = format!("d{}", wi);
        let k = pick_key(rng, g.keys, g.bad);
        let v = rng.pick(g.vals);
        let st = g.state(&var);
        let st2 = g.state(&other);
        let kc = k.class.clone();
        match rng.below(20) {
            0 | 1 | 2 => g.mutate(&format!("set({})", kc), &format!("{}[{}] = {}", var, k.src, v.src), &var, format!("set {} {} {}", st, k.canon, v.canon)),
            3 | 4 => {
                let (fname, f) = *rng.pick(&[("pr", "pair"), ("pr", "pair"), ("lf", "left"), ("rt", "right"), ("fl", "fail")]);
                let stmt = format!("{}[{}] {}= {}", var, k.src, fname, v.src);
                let r = g.interp.eval(&stmt);
                let flag = matches!(r, Outcome::Ok(_));
                let rust = if let Outcome::Panic(_) = r { "panic".to_string() } else { format!("ok [{},{}]", g.state(&var), if flag { 1 } else { 0 }) };
                g.push(format!("opassign-{}({})", f, kc), &format!("try {} catch _ -> null; {}", stmt, var), format!("opa {} {} {} {}", st, k.canon, f, v.canon), rust);
                g.script.push(format!("try {} catch _ -> null", stmt));
            }
            19 => {
                // op-assign whose RIGHT-HAND SIDE reads the dictionary being updated: the same entry through
                // an equal key of another spelling, another entry, membership, the size, the dict itself
                let (fname, f) = *rng.pick(&[("pr", "pair"), ("pr", "pair"), ("rt", "right"), ("lf", "left")]);
                // prefer a key that is present, so that the statement really updates
                let present: Vec<&Elem> = g.keys.iter().filter(|e| matches!(g.interp.eval(&format!("{} in {}", e.src, var)), Outcome::Ok(ref s) if s == "1")).collect();
                let k = if !present.is_empty() && rng.chance(4, 5) { *rng.pick(&present) } else { k };
                let kc = k.class.clone();
                let k2: &Elem = match g.keys.iter().position(|e| std::ptr::eq(e, k)) {
                    Some(ki) if !g.twins[ki].is_empty() && rng.chance(3, 4) => &g.keys[*rng.pick(&g.twins[ki])],
                    _ => if rng.chance(1, 2) { k } else { pick_key(rng, g.keys, g.bad) },
                };
                let (form, rhs) = match rng.below(6) {
                    0 | 1 | 2 => ("get", format!("{}[{}]", var, k2.src)),
                    3 => ("sget", format!("({} !? {})", var, k2.src)),
                    4 => ("len", format!("len({})", var)),
                    _ => if rng.chance(1, 2) { ("self", var.clone()) } else { ("in", format!("({} in {})", k2.src, var)) },
                };
                let stmt = format!("{}[{}] {}= {}", var, k.src, fname, rhs);
                let r = g.interp.eval(&stmt);
                let flag = matches!(r, Outcome::Ok(_));
                let rust = if let Outcome::Panic(_) = r { "panic".to_string() } else { format!("ok [{},{}]", g.state(&var), if flag { 1 } else { 0 }) };
                g.push(format!("opassign-rhs-{}-{}({})", form, f, kc), &format!("try {} catch _ -> null; {}", stmt, var), format!("opar {} {} {} {} {}", st, k.canon, f, form, k2.canon), rust);
                g.script.push(format!("try {} catch _ -> null", stmt));
            }
            5 => {
                let stmt = format!("rm = try remove {}[{}] catch _ -> \"absent\"", var, k.src);
                let r = g.interp.eval(&stmt);
                let removed = g.state("rm");
                let rust = match r {
                    Outcome::Panic(_) => "panic".to_string(),
                    _ if removed == "s:616273656e74" => "throw".to_string(),
                    _ => format!("ok [{},{}]", g.state(&var), removed),
                };
                g.push(format!("remove({})", kc), &format!("{}; [{}, rm]", stmt, var), format!("rem {} {}", st, k.canon), rust);
                g.script.push(stmt);
            }
            6 => g.mutate(&format!("|.({})", kc), &format!("{} = {} |. {}", var, var, k.src), &var, format!("addk {} {}", st, k.canon)),
            7 => g.mutate(&format!("-.({})", kc), &format!("{} = {} -. {}", var, var, k.src), &var, format!("delk {} {}", st, k.canon)),
            8 => g.mutate("||", &format!("{} = {} || {}", var, var, other), &var, format!("union {} {}", st, st2)),
            9 => g.mutate("&&", &format!("{} = {} && {}", var, var, other), &var, format!("inter {} {}", st, st2)),
            10 => g.mutate("--", &format!("{} = {} -- {}", var, var, other), &var, format!("diff {} {}", st, st2)),
            11 => {
                // ||+ on count dictionaries built by frequencies
                let n = 1 + rng.below(6) as usize;
                let xs: Vec<&Elem> = (0..n).map(|_| pick_key(rng, g.keys, g.bad)).collect();
                let m = 1 + rng.below(6) as usize;
                let ys: Vec<&Elem> = (0..m).map(|_| rng.pick(g.keys)).collect();
                let a = format!("frequencies([{}])", xs.iter().map(|e| e.src.clone()).collect::<Vec<_>>().join(", "));
                let b = format!("frequencies([{}])", ys.iter().map(|e| e.src.clone()).collect::<Vec<_>>().join(", "));
                let ra = g.eval_class(&a, false);
                let rb = g.eval_class(&b, false);
                g.push("frequencies".into(), &a, format!("freq [{}]", xs.iter().map(|e| e.canon.clone()).collect::<Vec<_>>().join(",")), ra.clone());
                if ra.starts_with("ok ") && rb.starts_with("ok ") {
                    g.observe("||+", &format!("({}) ||+ ({})", a, b), format!("uadd {} {}", &ra[3..], &rb[3..]), false);
                }
            }
            12 => g.mutate(&format!("insert({})", kc), &format!("{} = {} insert [{}, {}]", var, var, k.src, v.src), &var, format!("insp {} [{},{}]", st, k.canon, v.canon)),
            13 | 14 | 15 | 18 => {
                // builders from a list of keys
                let n = rng.below(7) as usize;
                let xs: Vec<&Elem> = (0..n).map(|_| pick_key(rng, g.keys, g.bad)).collect();
                let l = format!("[{}]", xs.iter().map(|e| e.src.clone()).collect::<Vec<_>>().join(", "));
                let lc = format!("[{}]", xs.iter().map(|e| e.canon.clone()).collect::<Vec<_>>().join(","));
                match rng.below(8) {
                    0 => g.mutate("set", &format!("{} = set({})", var, l), &var, format!("mkset {}", lc)),
                    1 => {
                        let ps: Vec<(&Elem, &Elem)> = xs.iter().map(|e| (*e, rng.pick(g.vals))).collect();
                        let l = format!("[{}]", ps.iter().map(|(k, v)| format!("[{}, {}]", k.src, v.src)).collect::<Vec<_>>().join(", "));
                        let lc = format!("[{}]", ps.iter().map(|(k, v)| format!("[{},{}]", k.canon, v.canon)).collect::<Vec<_>>().join(","));
                        g.mutate("dict", &format!("{} = dict({})", var, l), &var, format!("mkdict {}", lc))
                    }
                    2 => g.observe("unique", &format!("unique({})", l), format!("uniq {}", lc), false),
                    3 => g.observe("frequencies", &format!("frequencies({})", l), format!("freq {}", lc), false),
                    4 => g.observe("count_distinct", &format!("count_distinct({})", l), format!("cdist {}", lc), false),
                    5 => g.observe("group_all", &format!("group_all({}, idf)", l), format!("group {}", lc), true),
                    6 => g.observe("classify", &format!("classify({}, idf)", l), format!("classify {}", lc), false),
                    _ => {
                        if rng.chance(1, 2) {
                            let e = format!("(tr = []; mf = memoize(\\x -> (tr append= x; [x])); rs = {} map mf; [rs, tr])", l);
                            g.observe("memoize", &e, format!("memo {}", lc), false)
                        } else {
                            // ONE memoized variadic function called with argument tuples of every arity:
                            // f(), f(a), f(a, b), f([a, b]), f(...[a, b]), f([]) — the cache key is the tuple
                            let ncalls = 2 + rng.below(6) as usize;
                            let mut calls_src: Vec<String> = vec![];
                            let mut calls_can: Vec<String> = vec![];
                            let mut last: Vec<&Elem> = vec![];
                            for _ in 0..ncalls {
                                let reuse = !last.is_empty() && rng.chance(1, 2);
                                let args: Vec<&Elem> = if reuse { last.clone() } else { (0..rng.below(4) as usize).map(|_| pick_key(rng, g.keys, g.bad)).collect() };
                                let srcs: Vec<String> = args.iter().map(|e| e.src.clone()).collect();
                                let cans: Vec<String> = args.iter().map(|e| e.canon.clone()).collect();
                                match rng.below(4) {
                                    0 => {
                                        // the same values as ONE list argument
                                        calls_src.push(format!("mf([{}])", srcs.join(", ")));
                                        calls_can.push(format!("[[{}]]", cans.join(",")));
                                    }
                                    1 => {
                                        calls_src.push(format!("mf(...[{}])", srcs.join(", ")));
                                        calls_can.push(format!("[{}]", cans.join(",")));
                                    }
                                    _ => {
                                        calls_src.push(format!("mf({})", srcs.join(", ")));
                                        calls_can.push(format!("[{}]", cans.join(",")));
                                    }
                                }
                                last = args;
                            }
                            let e = format!("(tr = []; mf = memoize(\\...xs -> (tr append= xs; xs)); rs = [{}]; [rs, tr])", calls_src.join(", "));
                            g.observe("memoize-tuples", &e, format!("memoc [{}]", calls_can.join(",")), false)
                        }
                    }
                }
            }
            16 | 17 => {
                // `==` / `!=` / inside lists; `other` may be the SAME variable (identity must not matter)
                g.observe("==", &format!("{} == {}", var, other), format!("eq {} {}", st, st2), false);
                g.observe("!=", &format!("{} != {}", var, other), format!("ne {} {}", st, st2), false);
                g.observe("==in-list", &format!("[1, {}] == [1, {}]", var, other), format!("eq [1,{}] [1,{}]", st, st2), false);
            }
            _ => {}
        }
        // observations on the touched dictionary
        let st = g.state(&var);
        if st == "?" {
            continue;
        }
        g.observe("len", &format!("len({})", var), format!("len {}", st), false);
        if rng.chance(1, 3) {
            g.observe("keys", &format!("keys({})", var), format!("keys {}", st), true);
            g.observe("values", &format!("values({})", var), format!("values {}", st), true);
            g.observe("items", &format!("items({})", var), format!("items {}", st), true);
        }
        // lookups: the key just used, and a sample of the pool
        let mut probes: Vec<&Elem> = vec![k];
        // the same key through its equal twins of other levels / representations
        if let Some(ki) = g.keys.iter().position(|e| std::ptr::eq(e, k)) {
            let tw = &g.twins[ki];
            for _ in 0..3.min(tw.len()) {
                probes.push(&g.keys[*rng.pick(tw)]);
            }
        }
        for _ in 0..5 {
            probes.push(pick_key(rng, g.keys, g.bad));
        }
        for p in probes {
            let pc = p.class.clone();
            g.observe(&format!("index({})", pc), &format!("{}[{}]", var, p.src), format!("idx {} {}", st, p.canon), false);
            match rng.below(3) {
                0 => g.observe(&format!("in({})", pc), &format!("{} in {}", p.src, var), format!("in {} {}", p.canon, st), false),
                1 => g.observe(&format!("!?({})", pc), &format!("{} !? {}", var, p.src), format!("sidx {} {}", st, p.canon), false),
                _ => {}
            }
        }
    }
}

fn main() {
    let args = parse_args();
    install_quiet_panic_hook();
    let mut rep = Report::new("C09", &args);
    let interp = Interp::new();
    interp.eval(PR);

    if let Some(path) = &args.replay {
        let text = std::fs::read_to_string(path).expect("replay file");
        for line in text.lines() {
            if let Some(rest) = line.strip_prefix("input: ") {
                let it = Interp::new();
                println!("rust: {}", it.eval(rest).detail());
            }
            if let Some(rest) = line.strip_prefix("request: ") {
                let r = run_driver(&args.driver, &[rest.to_string()]);
                println!("model (impl, spec): {}", r[0]);
            }
        }
        return;
    }


    // ---- corpus first: minimised past disagreements, `<driver request> TAB <source>` per line
    {
        let dir = concat!(env!("CARGO_MANIFEST_DIR"), "/../corpus/C09");
        let mut reqs = vec![];
        let mut srcs = vec![];
        if let Ok(rd) = std::fs::read_dir(dir) {
            let mut files: Vec<_> = rd.filter_map(|e| e.ok()).map(|e| e.path()).collect();
            files.sort();
            for f in files {
                if let Ok(text) = std::fs::read_to_string(&f) {
                    for line in text.lines() {
                        if line.starts_with('#') || !line.contains('\t') {
                            continue;
                        }
                        let mut it = line.splitn(2, '\t');
                        reqs.push(it.next().unwrap().to_string());
                        srcs.push(it.next().unwrap().to_string());
                    }
                }
            }
        }
        let resp = run_driver(&args.driver, &reqs);
        for i in 0..reqs.len() {
            let rust = Interp::new().eval(&srcs[i]).class();
            rep.case(&srcs[i], true);
            rep.arm("corpus");
            let parts: Vec<&str> = resp[i].split('\t').collect();
            let full = format!("{}\nrequest: {}", srcs[i], reqs[i]);
            if parts.len() < 2 {
                rep.judge("corpus", &full, &rust, &resp[i], &resp[i]);
            } else {
                rep.judge("corpus", &full, &rust, parts[0], parts[1]);
            }
        }
    }

    let keys: Vec<Elem> = key_pool().iter().filter_map(|s| mk(&interp, s)).collect();
    let bad: Vec<Elem> = bad_keys().iter().filter_map(|s| mk(&interp, s)).collect();
    let vals: Vec<Elem> = value_pool().iter().filter_map(|s| mk(&interp, s)).collect();
    if keys.len() != key_pool().len() || bad.len() != bad_keys().len() {
        rep.notes.push(format!("some pool keys did not evaluate: {} of {}", keys.len(), key_pool().len()));
    }
    let (n_seq, max_ops) = if args.tier == "thorough" { (6_000usize, 40usize) } else { (500usize, 40usize) };
    rep.rule = format!(
        "{} random operation sequences (1-3 dict variables built by literals with/without default, then up to {} ops \
         drawn from d[k]=v, d[k] f= v (4 operators incl. a raising one), remove, |., -., ||, &&, --, ||+, insert, set, dict, \
         unique, frequencies, count_distinct, group_all, classify, memoize, ==) over a key pool of {} values (1, 1.0, 2/2, \
         1+0i, Big-held 1, 2^64, 2.0^64, 2^64/1, 1/2, 0.5, +-0.0, NaN and complex NaNs, infinities, values one ulp apart, \
         strings, bytes, null, and the same nested in lists, vectors and dicts) + 4% invalid keys (functions); every op is \
         sent to the model with the real pre-state; after every op: len, lookups / in / !? of the used key and 7 more \
         pool keys, and every third time keys/values/items; a case is non-trivial unless its key is a small int literal; \
         distinct = distinct (script, expression); before the sequences an EXHAUSTIVE twin sweep over all ordered pairs (a, b) of pool keys: {{a: 5}}[b], set([a, b]) and for a sixth of them b in {{a: 5}}, {{a: 5}} insert [b, 7]; pool includes +-2^63, 2^63-1, 2^53, 2^53+1, 2^64, 2^31, 2^32 as ints and float/rational/complex twins, also nested in lists/vectors/dicts; sequences probe every used key through up to 3 of its equal twins",
        n_seq, max_ops, keys.len()
    );

    // twin table from the real `==` (all NaN-containing numbers are twins of each other)
    let mut twins: Vec<Vec<usize>> = vec![vec![]; keys.len()];
    for i in 0..keys.len() {
        for j in 0..keys.len() {
            if i == j {
                continue;
            }
            let nanny = |c: &str| c == "nan" || c == "cnan";
            let eq = matches!(interp.eval(&format!("{} == {}", keys[i].src, keys[j].src)), Outcome::Ok(ref s) if s == "1")
                || (nanny(&keys[i].class) && nanny(&keys[j].class));
            if eq {
                twins[i].push(j);
            }
        }
    }
    let mut rng = Rng::new(args.seed);
    let mut g = Gen { interp: &interp, keys: &keys, bad: &bad, vals: &vals, cases: vec![], twins, script: vec![] };
    // ---- identity sweep: `==` must depend on the contents only. Dicts with a NaN among the VALUES at
    // depth 0-2 (not == to themselves) and without; both operands the same variable, an alias, an
    // un-shared copy (written to and restored), a separately built equal dict; plain, `!=`, inside
    // lists and as dict values.
    {
        let dict_srcs = [
            "{1: 0.0/0.0}", "{1: [0.0/0.0]}", "{1: {2: 0.0/0.0}}", "{1: [[0.0/0.0]]}", "{1: 2, 3: 0.0/0.0}", "{:0.0/0.0, 1: 2}",
            "{0.0/0.0: 1}", "{[0.0/0.0]: 1}", "{1: 2}", "{}", "{1: [2, {3: 4}]}", "{1.0: 0.0/0.0, \"a\": 1}", "{1: V(0.0/0.0)}",
            "{1: (0.0/0.0)+1i}",
        ];
        for (di, dsrc) in dict_srcs.iter().enumerate() {
            let it = Interp::new();
            let setup = format!("xa := {}; xb := xa; xc := xa; xc[99] = 0; remove xc[99]; xd := {}; la := [xa, 1]; lb := la", dsrc, dsrc);
            if !matches!(it.eval(&setup), Outcome::Ok(_)) {
                rep.notes.push(format!("identity sweep: setup failed for {}", dsrc));
                continue;
            }
            let st = match it.eval_obj("xa") {
                Ok(o) => canon(&o),
                Err(_) => continue,
            };
            let forms: [(&str, String, String); 9] = [
                ("same", "xa == xa".into(), format!("eq {} {}", st, st)),
                ("same", "xa != xa".into(), format!("ne {} {}", st, st)),
                ("alias", "xa == xb".into(), format!("eq {} {}", st, st)),
                ("alias", "xb != xa".into(), format!("ne {} {}", st, st)),
                ("unshared", "xa == xc".into(), format!("eq {} {}", st, st)),
                ("rebuilt", "xa == xd".into(), format!("eq {} {}", st, st)),
                ("in-list-same", "[xa] == [xa]".into(), format!("eq [{}] [{}]", st, st)),
                ("in-list-alias", "la == lb".into(), format!("eq [{},1] [{},1]", st, st)),
                ("as-value-alias", "{7: xa} == {7: xb}".into(), format!("eq {{7:{}}} {{7:{}}}", st, st)),
            ];
            for (name, expr, req) in forms.iter() {
                let rust = match it.eval_obj(expr) {
                    Ok(o) => format!("ok {}", canon(&o)),
                    Err(Outcome::Panic(_)) => "panic".into(),
                    Err(_) => "throw".into(),
                };
                g.cases.push(Case { key: format!("identity-{}(d{})", name, di), input: format!("{}; {}", setup, expr), request: req.clone(), rust });
            }
        }
    }
    // ---- op-assign sweep: `d[k] f= d[k']` for every pair of equal spellings (k, k') of a sample of keys
    {
        for (ki, k) in keys.iter().enumerate() {
            if g.twins[ki].is_empty() || !rng.chance(1, 2) {
                continue;
            }
            let k2 = &keys[*rng.pick(&g.twins[ki])];
            for dflt in ["", ":0, "] {
                let it = Interp::new();
                let setup = format!("{}; d0 = {{{}{}: 5, \"other\": 7}}", PR, dflt, k.src);
                if !matches!(it.eval(&setup), Outcome::Ok(_)) {
                    continue;
                }
                let st = match it.eval_obj("d0") { Ok(o) => canon(&o), Err(_) => continue };
                let stmt = format!("d0[{}] pr= d0[{}]", k.src, k2.src);
                let r = it.eval(&stmt);
                let flag = matches!(r, Outcome::Ok(_));
                let after = match it.eval_obj("d0") { Ok(o) => canon(&o), Err(_) => "?".into() };
                let rust = if let Outcome::Panic(_) = r { "panic".to_string() } else { format!("ok [{},{}]", after, if flag { 1 } else { 0 }) };
                g.cases.push(Case {
                    key: format!("opassign-rhs-sweep({},{})", k.class, k2.class),
                    input: format!("{}; try {} catch _ -> null; d0", setup, stmt),
                    request: format!("opar {} {} pair get {}", st, k.canon, k2.canon),
                    rust,
                });
            }
        }
    }
    // ---- memoize sweep: one variadic memoized function called in every shape with the same values
    {
        let mut picks: Vec<(usize, usize)> = vec![];
        for _ in 0..40 {
            picks.push((rng.below(keys.len() as u64) as usize, rng.below(keys.len() as u64) as usize));
        }
        for (i, j) in picks {
            let (a, b) = (&keys[i], &keys[j]);
            let e = format!(
                "(tr = []; mf = memoize(\\...xs -> (tr append= xs; xs)); rs = [mf({a}, {b}), mf([{a}, {b}]), mf(), mf([]), mf({a}), mf([{a}]), mf(...[{a}, {b}]), mf({b}, {a}), mf([[{a}, {b}]])]; [rs, tr])",
                a = a.src, b = b.src
            );
            let req = format!(
                "memoc [[{a},{b}],[[{a},{b}]],[],[[]],[{a}],[[{a}]],[{a},{b}],[{b},{a}],[[[{a},{b}]]]]",
                a = a.canon, b = b.canon
            );
            g.script.clear();
            g.script.push(PR.to_string());
            g.observe("memoize-shapes", &e, req, false);
        }
    }
    // ---- exhaustive twin sweep: EVERY ordered pair (a, b) of pool keys: a dictionary keyed by `a`
    // is read, tested and updated through `b`, and {a, b} is built as a set
    g.script.clear();
    g.script.push(PR.to_string());
    for a in keys.iter() {
        let d = format!("{{{}: 5}}", a.src);
        let st = match interp.eval_obj(&d) {
            Ok(o) => canon(&o),
            Err(_) => continue,
        };
        for b in keys.iter() {
            let kc = format!("{},{}", a.class, b.class);
            g.observe(&format!("twin-index({})", kc), &format!("{}[{}]", d, b.src), format!("idx {} {}", st, b.canon), false);
            g.observe(&format!("twin-set({})", kc), &format!("set([{}, {}])", a.src, b.src), format!("mkset [{},{}]", a.canon, b.canon), false);
            if g.twins.len() == keys.len() && std::ptr::eq(a, b) == false && rng.chance(1, 6) {
                g.observe(&format!("twin-in({})", kc), &format!("{} in {}", b.src, d), format!("in {} {}", b.canon, st), false);
                g.observe(&format!("twin-insert({})", kc), &format!("{} insert [{}, 7]", d, b.src), format!("insp {} [{},7]", st, b.canon), false);
            }
        }
    }
    for _ in 0..n_seq {
        let n_ops = 1 + rng.below(max_ops as u64) as usize;
        run_sequence(&mut g, &mut rng, n_ops);
    }
    let cases = g.cases;
    let requests: Vec<String> = cases.iter().map(|c| c.request.clone()).collect();
    let resp = run_driver(&args.driver, &requests);
    for (c, r) in cases.iter().zip(resp.iter()) {
        // distinctness on the request (pre-state + operands), which is what determines the case
        rep.case(&c.request, !c.key.ends_with("(int)"));
        rep.arm(&c.key);
        rep.outcome(if c.rust.starts_with("ok") { "ok" } else if c.rust == "throw" { "throw" } else { "panic" });
        let parts: Vec<&str> = r.split('\t').collect();
        // replay inputs can be long (the whole script); keep them, the orchestrator picks the shortest
        let full_input = format!("{}\nrequest: {}", c.input, c.request);
        if parts.len() < 2 {
            rep.judge("driver", &full_input, &c.rust, r, r);
            continue;
        }
        rep.judge(&c.key, &full_input, &c.rust, parts[0], parts[1]);
    }
    rep.write(&args.out);
}
