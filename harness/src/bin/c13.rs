//! C13 correspondence: the sequence builtins of the real interpreter vs the Impl model (lib.rs
//! loops transcribed to Lean) vs the Spec (one-line definitions), on generated calls.
//!
//! Every call is `builtin(args…)` where an argument is a sequence of one of the six kinds
//! (list, string, vector, bytes, dict, finite stream), a small number, an element value, or one
//! of ~30 named Noulith lambdas that the Lean driver knows by the same name.
//!
//! The real interpreter runs in a child process (`--worker`) fed one source line at a time, so
//! that a builtin that never returns (F19) or aborts is recorded as `hang` for that input instead
//! of taking the whole check down.
use std::io::{BufRead, BufReader, Write};
use std::process::{Child, ChildStdin, Command, Stdio};
use std::sync::mpsc::{channel, Receiver};
use std::time::Duration;
use vharness::*;

// ---------------------------------------------------------------------------------------------
// values
#[derive(Clone, Debug, PartialEq)]
enum V {
    Null,
    Int(i64),
    /// float with the exact value `twice / 2`
    Flt(i64),
    /// rational with the exact value `twice / 2` (`2/2` stays the rational `1/1`)
    Rat(i64),
    Str(String),
    List(Vec<V>),
    Bytes(Vec<u8>),
    Vector(Vec<i64>),
    /// finite stream given by its elements; the code says how it is written: 0 = `lazy_map` over
    /// indices, 1 = range `a to b`, >= 2 = `stream(seq)` (core.rs `WrappedVec`) over a list / string /
    /// vector / bytes, possibly advanced past a consumed prefix (see `wrapped_parts`)
    Stream(Vec<V>, u32),
    /// dictionary with these keys (generation order; the iteration order is observed at run time)
    Dict(Vec<V>),
    /// dictionary literal with values `{k: v, …}` (keys distinct)
    Map(Vec<(V, V)>),
}

#[derive(Clone, Debug)]
enum A {
    V(V),
    F(&'static str, Option<V>),
}

fn kind_of(v: &V) -> &'static str {
    match v {
        V::Null => "null",
        V::Int(_) => "int",
        V::Flt(_) => "float",
        V::Rat(_) => "rational",
        V::Str(_) => "string",
        V::List(_) => "list",
        V::Bytes(_) => "bytes",
        V::Vector(_) => "vector",
        V::Stream(..) => "stream",
        V::Dict(_) => "dict",
        V::Map(_) => "dict",
    }
}

/// decode a wrapped-stream code: (how it was advanced, base kind, length of the consumed prefix)
/// how: 0 fresh, 1 `drop(s, n)`, 2 `tail(s)`, 3 `s drop (== sentinel)`, 4 `uncons(s)[1]`
fn wrapped_parts(code: u32) -> (u32, u32, usize) {
    let c = code - 2;
    let (how, base, pl) = (c % 5, (c / 5) % 4, ((c / 20) % 3) as usize);
    let plen = match how {
        0 => 0,
        1 | 3 => pl + 1,
        _ => 1,
    };
    (how, base, plen)
}
/// the element that fills the consumed prefix (never occurs in generated data)
fn sentinel(base: u32) -> V {
    match base {
        1 => V::Str("#".into()),
        3 => V::Int(200),
        _ => V::Int(777),
    }
}
/// can these elements live in a sequence of that base kind (0 list, 1 string, 2 vector, 3 bytes)?
fn base_ok(base: u32, xs: &[V]) -> bool {
    match base {
        0 => true,
        1 => xs.iter().all(|x| matches!(x, V::Str(s) if s.chars().count() == 1)),
        2 => xs.iter().all(|x| matches!(x, V::Int(_))),
        _ => xs.iter().all(|x| matches!(x, V::Int(i) if (0..=255).contains(i))),
    }
}

fn len_of(v: &V) -> usize {
    match v {
        V::Str(s) => s.chars().count(),
        V::List(x) => x.len(),
        V::Bytes(x) => x.len(),
        V::Vector(x) => x.len(),
        V::Stream(x, _) => x.len(),
        V::Dict(x) => x.len(),
        V::Map(x) => x.len(),
        _ => 0,
    }
}

/// canonical text (driver request / comparison format); dict keys in the given order
fn canon_v(v: &V, dict_orders: &[(Vec<V>, String)]) -> String {
    match v {
        V::Null => "null".into(),
        V::Int(i) => i.to_string(),
        V::Flt(t) => canon_f64(*t as f64 / 2.0),
        V::Rat(t) => {
            if t % 2 == 0 {
                format!("{}/1", t / 2)
            } else {
                format!("{}/2", t)
            }
        }
        V::Str(s) => format!("s:{}", hex(s.as_bytes())),
        V::List(xs) => format!("[{}]", xs.iter().map(|x| canon_v(x, dict_orders)).collect::<Vec<_>>().join(",")),
        V::Bytes(b) => format!("b:{}", hex(b)),
        V::Vector(ns) => format!("v[{}]", ns.iter().map(|n| n.to_string()).collect::<Vec<_>>().join(",")),
        V::Stream(xs, code) if *code >= 2 => {
            // the model gets the whole underlying sequence and the read position
            let (_, base, plen) = wrapped_parts(*code);
            let mut all: Vec<String> = (0..plen).map(|_| canon_v(&sentinel(base), dict_orders)).collect();
            all.extend(xs.iter().map(|x| canon_v(x, dict_orders)));
            format!("w{}[{}]", plen, all.join(","))
        }
        V::Stream(xs, _) => format!("stream[{}]", xs.iter().map(|x| canon_v(x, dict_orders)).collect::<Vec<_>>().join(",")),
        V::Map(kvs) => format!(
            "m[{}]",
            kvs.iter()
                .flat_map(|(k, v)| [canon_v(k, dict_orders), canon_v(v, dict_orders)])
                .collect::<Vec<_>>()
                .join(",")
        ),
        V::Dict(ks) => {
            for (k2, observed) in dict_orders {
                if k2 == ks {
                    return observed.clone();
                }
            }
            format!("d[{}]", ks.iter().map(|x| canon_v(x, dict_orders)).collect::<Vec<_>>().join(","))
        }
    }
}

fn str_lit(s: &str) -> String {
    let mut o = String::from("\"");
    for c in s.chars() {
        match c {
            '"' => o.push_str("\\\""),
            '\\' => o.push_str("\\\\"),
            '\n' => o.push_str("\\n"),
            '\t' => o.push_str("\\t"),
            '\r' => o.push_str("\\r"),
            c if (c as u32) < 0x20 || matches!(c as u32, 0x7f..=0xa0 | 0x1680 | 0x2000..=0x200f | 0x2028..=0x202f | 0x205f | 0x3000 | 0xfeff) => {
                o.push_str(&format!("\\u{{{:x}}}", c as u32))
            }
            c => o.push(c),
        }
    }
    o.push('"');
    o
}

/// Noulith source of a value; dicts are referred to through the variables they were assigned to
fn src_v(v: &V, dict_vars: &[(Vec<V>, String)]) -> String {
    match v {
        V::Null => "null".into(),
        V::Int(i) => {
            if *i < 0 {
                format!("(0-{})", -i)
            } else {
                i.to_string()
            }
        }
        V::Flt(t) => {
            let f = (*t as f64) / 2.0;
            if f < 0.0 {
                format!("(0-{:?})", -f)
            } else {
                format!("{:?}", f)
            }
        }
        V::Rat(t) => {
            if *t < 0 {
                format!("((0-{})/2)", -t)
            } else {
                format!("({}/2)", t)
            }
        }
        V::Str(s) => str_lit(s),
        V::List(xs) => format!("[{}]", xs.iter().map(|x| src_v(x, dict_vars)).collect::<Vec<_>>().join(", ")),
        V::Bytes(b) => format!("B[{}]", b.iter().map(|x| x.to_string()).collect::<Vec<_>>().join(", ")),
        V::Vector(ns) => format!("V({})", ns.iter().map(|n| src_v(&V::Int(*n), dict_vars)).collect::<Vec<_>>().join(", ")),
        V::Stream(xs, code) if *code >= 2 => {
            let (how, base, plen) = wrapped_parts(*code);
            let mut all: Vec<V> = (0..plen).map(|_| sentinel(base)).collect();
            all.extend(xs.iter().cloned());
            let lit = match base {
                0 => src_v(&V::List(all), dict_vars),
                1 => str_lit(&all.iter().map(|x| if let V::Str(s) = x { s.clone() } else { String::new() }).collect::<String>()),
                2 => src_v(&V::Vector(all.iter().map(|x| if let V::Int(i) = x { *i } else { 0 }).collect()), dict_vars),
                _ => src_v(&V::Bytes(all.iter().map(|x| if let V::Int(i) = x { *i as u8 } else { 0 }).collect()), dict_vars),
            };
            let st = format!("stream({})", lit);
            match how {
                0 => st,
                1 => format!("drop({}, {})", st, plen),
                2 => format!("tail({})", st),
                3 => format!("({} drop (\\x -> x == {}))", st, src_v(&sentinel(base), dict_vars)),
                _ => format!("uncons({})[1]", st),
            }
        }
        V::Stream(xs, code) => {
            let as_range = &(*code == 1);
            if xs.is_empty() {
                "(1 til 1)".into()
            } else if *as_range {
                match (&xs[0], &xs[xs.len() - 1]) {
                    (V::Int(a), V::Int(b)) => format!("({} to {})", src_v(&V::Int(*a), dict_vars), src_v(&V::Int(*b), dict_vars)),
                    _ => unreachable!(),
                }
            } else {
                format!(
                    "lazy_map(0 til {}, \\i -> {}[i])",
                    xs.len(),
                    src_v(&V::List(xs.clone()), dict_vars)
                )
            }
        }
        V::Map(kvs) => format!(
            "{{{}}}",
            kvs.iter()
                .map(|(k, v)| format!("{}: {}", src_v(k, dict_vars), src_v(v, dict_vars)))
                .collect::<Vec<_>>()
                .join(", ")
        ),
        V::Dict(ks) => {
            for (k2, var) in dict_vars {
                if k2 == ks {
                    return var.clone();
                }
            }
            format!("set({})", src_v(&V::List(ks.clone()), dict_vars))
        }
    }
}

// ---------------------------------------------------------------------------------------------
// the closure family (same names in lean/NoulithModel/Impl/SeqLibVal.lean, `Fn.apply`)
fn fn_src(name: &str, k: &Option<V>) -> String {
    let kk = k.as_ref().map(|v| src_v(v, &[])).unwrap_or_else(|| "null".into());
    let t = match name {
        "k1" => "\\x -> 1",
        "k0" => "\\x -> 0",
        "id" => "\\x -> x",
        "nul" => "\\x -> null",
        "lt" => "\\x -> x < K",
        "eq" => "\\x -> x == K",
        "mod" => "\\x -> x %% K",
        "neg" => "\\x -> 0 - x",
        "wrap" => "\\x -> [x]",
        "dup" => "\\x -> [x, x]",
        "raise" => "\\x -> if (x == K) throw \"boom\" else x",
        "raise1" => "\\x -> if (x == K) throw \"boom\" else 1",
        "add" => "\\a, b -> a + b",
        "sub" => "\\a, b -> a - b",
        "pair" => "\\a, b -> [a, b]",
        "fst" => "\\a, b -> a",
        "snd" => "\\a, b -> b",
        "cmp" => "\\a, b -> a <=> b",
        "rcmp" => "\\a, b -> b <=> a",
        "cmpmod" => "\\a, b -> (a %% K) <=> (b %% K)",
        "eq2" => "\\a, b -> a == b",
        "lt2" => "\\a, b -> a < b",
        "le2" => "\\a, b -> a <= b",
        "b0" => "\\a, b -> 0",
        "b1" => "\\a, b -> 1",
        "bstr" => "\\a, b -> \"x\"",
        "raisecmp" => "\\a, b -> if (a == K or b == K) throw \"boom\" else a <=> b",
        "raisepair" => "\\a, b -> if (a == K or b == K) throw \"boom\" else [a, b]",
        "nlist" => "\\...xs -> xs",
        "nrev" => "\\...xs -> reverse(xs)",
        "nraise" => "\\...xs -> if (K in xs) throw \"boom\" else xs",
        _ => panic!("unknown closure {}", name),
    };
    format!("({})", t.replace('K', &kk))
}

fn arg_src(a: &A, dict_vars: &[(Vec<V>, String)]) -> String {
    match a {
        A::V(v) => {
            let s = src_v(v, dict_vars);
            if matches!(v, V::Int(_)) {
                s
            } else {
                format!("({})", s)
            }
        }
        A::F(n, k) => fn_src(n, k),
    }
}

fn arg_canon(a: &A, dict_orders: &[(Vec<V>, String)]) -> String {
    match a {
        A::V(v) => canon_v(v, dict_orders),
        A::F(n, None) => format!("f:{}", n),
        A::F(n, Some(k)) => format!("f:{}:{}", n, canon_v(k, dict_orders)),
    }
}

const INFIX: &[&str] = &["++", ".+", "+.", "..", ".*", "*.", "**", "^^", "in", "not_in", "contains"];

/// the Noulith expression of a call
fn call_src(name: &str, args: &[A], dict_vars: &[(Vec<V>, String)]) -> String {
    let parts: Vec<String> = args.iter().map(|a| arg_src(a, dict_vars)).collect();
    if INFIX.contains(&name) {
        parts.join(&format!(" {} ", name))
    } else if name == "each!" {
        // result of `each` (or "T" if it raised) and the elements the callback saw, in order
        format!(
            "(ACC = []; RES = (try each({}, \\x -> (ACC = ACC +. x; {}(x))) catch e -> \"T\"); [RES, ACC])",
            parts[0], parts[1]
        )
    } else {
        format!("{}({})", name, parts.join(", "))
    }
}

// ---------------------------------------------------------------------------------------------
// the worker: the real interpreter behind a pipe
fn worker_main() {
    install_quiet_panic_hook();
    let interp = Interp::new();
    let stdin = std::io::stdin();
    let mut out = std::io::stdout();
    for line in stdin.lock().lines() {
        let line = match line {
            Ok(l) => l,
            Err(_) => break,
        };
        let o = interp.eval(&line);
        let _ = interp.take_output();
        let detail: String = o.detail().replace('\n', " ").replace('\t', " ");
        let _ = writeln!(out, "{}\t{}", o.class(), detail);
        let _ = out.flush();
    }
}

struct Worker {
    child: Child,
    stdin: ChildStdin,
    rx: Receiver<String>,
    pub restarts: u64,
}
const PRELUDE: &str =
    "ACC := []; RES := null; RES2 := null; CNT := 0; D0 := null; D1 := null; D2 := null; D3 := null; 0";
impl Worker {
    fn spawn() -> Worker {
        let exe = std::env::current_exe().expect("current_exe");
        let mut child = Command::new(exe)
            .arg("--worker")
            .stdin(Stdio::piped())
            .stdout(Stdio::piped())
            .stderr(Stdio::null())
            .spawn()
            .expect("cannot start worker");
        let stdin = child.stdin.take().unwrap();
        let stdout = child.stdout.take().unwrap();
        let (tx, rx) = channel();
        std::thread::spawn(move || {
            for l in BufReader::new(stdout).lines() {
                match l {
                    Ok(l) => {
                        if tx.send(l).is_err() {
                            break;
                        }
                    }
                    Err(_) => break,
                }
            }
        });
        let mut w = Worker { child, stdin, rx, restarts: 0 };
        let _ = w.eval_raw(PRELUDE);
        w
    }
    fn eval_raw(&mut self, src: &str) -> Option<(String, String)> {
        if writeln!(self.stdin, "{}", src).is_err() {
            return None;
        }
        let _ = self.stdin.flush();
        match self.rx.recv_timeout(Duration::from_millis(2500)) {
            Ok(l) => {
                let mut p = l.splitn(2, '\t');
                let a = p.next().unwrap_or("").to_string();
                let b = p.next().unwrap_or("").to_string();
                Some((a, b))
            }
            Err(_) => None,
        }
    }
    /// (class, detail); a call that does not answer within 2.5 s (or kills the worker) is `hang`
    fn eval(&mut self, src: &str) -> (String, String) {
        match self.eval_raw(src) {
            Some(x) => x,
            None => {
                let died = matches!(self.child.try_wait(), Ok(Some(_)));
                let _ = self.child.kill();
                let _ = self.child.wait();
                let n = self.restarts + 1;
                *self = Worker::spawn();
                self.restarts = n;
                if died {
                    ("panic".into(), "worker process died (abort)".into())
                } else {
                    ("hang".into(), "no answer within 2.5 s".into())
                }
            }
        }
    }
}
impl Drop for Worker {
    fn drop(&mut self) {
        let _ = self.child.kill();
        let _ = self.child.wait();
    }
}

// ---------------------------------------------------------------------------------------------
// canonical-text helpers
/// items of a canonical list text `[a,b,…]` (top level only)
fn top_items(s: &str) -> Option<Vec<String>> {
    let inner = s.strip_prefix('[')?.strip_suffix(']')?;
    let mut items = vec![];
    let mut depth = 0i32;
    let mut cur = String::new();
    for c in inner.chars() {
        match c {
            '[' | '{' => {
                depth += 1;
                cur.push(c)
            }
            ']' | '}' => {
                depth -= 1;
                cur.push(c)
            }
            ',' if depth == 0 => items.push(std::mem::take(&mut cur)),
            c => cur.push(c),
        }
    }
    if !cur.is_empty() {
        items.push(cur);
    }
    Some(items)
}

fn sort_top(class: &str) -> String {
    if let Some(body) = class.strip_prefix("ok ") {
        if let Some(mut items) = top_items(body) {
            items.sort();
            return format!("ok [{}]", items.join(","));
        }
    }
    class.to_string()
}

/// parse canonical text back into a value (replay files); `dict[…]` = dict in generation order
fn parse_v(s: &str) -> Option<V> {
    fn items(s: &str) -> Option<Vec<V>> {
        top_items(&format!("[{}", s))?.iter().map(|t| parse_v(t)).collect()
    }
    if s == "null" {
        Some(V::Null)
    } else if let Some(h) = s.strip_prefix("f:") {
        let bits = u64::from_str_radix(h, 16).ok()?;
        Some(V::Flt((f64::from_bits(bits) * 2.0) as i64))
    } else if let Some((n, d)) = s.split_once('/') {
        let n: i64 = n.parse().ok()?;
        Some(V::Rat(if d == "1" { 2 * n } else { n }))
    } else if let Some(h) = s.strip_prefix("s:") {
        String::from_utf8(unhex(h)).ok().map(V::Str)
    } else if let Some(h) = s.strip_prefix("b:") {
        Some(V::Bytes(unhex(h)))
    } else if let Some(r) = s.strip_prefix("v[") {
        let inner = r.strip_suffix(']')?;
        if inner.is_empty() {
            return Some(V::Vector(vec![]));
        }
        inner.split(',').map(|t| t.parse().ok()).collect::<Option<Vec<i64>>>().map(V::Vector)
    } else if let Some(r) = s.strip_prefix("stream[") {
        items(r).map(|x| V::Stream(x, 0))
    } else if let Some(r) = s.strip_prefix("range[") {
        items(r).map(|x| V::Stream(x, 1))
    } else if let Some(r) = s.strip_prefix("m[") {
        let xs = items(r)?;
        Some(V::Map(xs.chunks(2).filter(|c| c.len() == 2).map(|c| (c[0].clone(), c[1].clone())).collect()))
    } else if let Some(r) = s.strip_prefix("wrapped") {
        let digits: String = r.chars().take_while(|c| c.is_ascii_digit()).collect();
        let code: u32 = digits.parse().ok()?;
        let rest = r[digits.len()..].strip_prefix('[')?;
        items(rest).map(|x| V::Stream(x, code.max(2)))
    } else if let Some(r) = s.strip_prefix("dict[") {
        items(r).map(V::Dict)
    } else if let Some(r) = s.strip_prefix('[') {
        items(r).map(V::List)
    } else {
        s.parse().ok().map(V::Int)
    }
}

/// replayable text of a case (like the driver request, but dicts in generation order and
/// range-streams marked)
fn case_text(name: &str, args: &[A]) -> String {
    fn cv(v: &V) -> String {
        match v {
            V::Dict(ks) => format!("dict[{}]", ks.iter().map(cv).collect::<Vec<_>>().join(",")),
            V::Stream(xs, 1) => format!("range[{}]", xs.iter().map(cv).collect::<Vec<_>>().join(",")),
            V::Stream(xs, 0) => format!("stream[{}]", xs.iter().map(cv).collect::<Vec<_>>().join(",")),
            V::Stream(xs, code) => format!("wrapped{}[{}]", code, xs.iter().map(cv).collect::<Vec<_>>().join(",")),
            V::List(xs) => format!("[{}]", xs.iter().map(cv).collect::<Vec<_>>().join(",")),
            v => canon_v(v, &[]),
        }
    }
    let mut parts = vec![name.to_string()];
    for a in args {
        parts.push(match a {
            A::V(v) => cv(v),
            A::F(n, None) => format!("f:{}", n),
            A::F(n, Some(k)) => format!("f:{}:{}", n, cv(k)),
        });
    }
    parts.join(" ")
}

const FN_NAMES: &[&str] = &[
    "k1", "k0", "id", "nul", "lt", "eq", "mod", "neg", "wrap", "dup", "raise", "raise1", "add", "sub", "pair", "fst",
    "snd", "cmp", "rcmp", "cmpmod", "eq2", "lt2", "le2", "b0", "b1", "bstr", "raisecmp", "raisepair", "nlist", "nrev",
    "nraise",
];

fn parse_case(line: &str) -> Option<(String, Vec<A>)> {
    let mut toks = line.split(' ').filter(|t| !t.is_empty());
    let name = toks.next()?.to_string();
    let mut args = vec![];
    for t in toks {
        let is_float = t.len() == 18 && t.starts_with("f:") && t[2..].chars().all(|c| c.is_ascii_hexdigit());
        if let (Some(r), false) = (t.strip_prefix("f:"), is_float) {
            let mut p = r.splitn(2, ':');
            let n = p.next()?;
            let n: &'static str = FN_NAMES.iter().find(|x| **x == n)?;
            let k = match p.next() {
                Some(kt) => Some(parse_v(kt)?),
                None => None,
            };
            args.push(A::F(n, k));
        } else {
            args.push(A::V(parse_v(t)?));
        }
    }
    Some((name, args))
}

// ---------------------------------------------------------------------------------------------
// generators
const KINDS: &[&str] = &["list", "string", "vector", "bytes", "dict", "stream"];

fn small_int(rng: &mut Rng) -> i64 {
    match rng.below(10) {
        0 => rng.range(-3, -1),
        1 => 0,
        _ => rng.range(0, 6),
    }
}
fn elem_mixed(rng: &mut Rng) -> V {
    match rng.below(12) {
        0 => V::Null,
        1 => V::Str("a".into()),
        2 => V::Str("b".into()),
        3 => V::Str("".into()),
        4 => V::Str("ab".into()),
        5 => V::List(vec![]),
        6 => V::List(vec![V::Int(1)]),
        7 => V::List(vec![V::Int(1), V::Int(2)]),
        _ => V::Int(small_int(rng)),
    }
}
const CHARS: &[char] = &['a', 'b', 'c', 'a', 'b', 'é', '𝄞', ' ', '\n', 'z', 'A', ','];

#[derive(Clone, Copy, PartialEq)]
enum Profile {
    Ints,
    Mixed,
    Strs,
    Lists,
    /// numbers (and lists of numbers) that are `==` but print differently: 1, 1.0, 1/1, 3/2, 1.5 …
    Ties,
}

/// an element of the tie pool
fn elem_tie(rng: &mut Rng) -> V {
    match rng.below(14) {
        0 | 1 => V::Int(1),
        2 | 3 => V::Flt(2),
        4 => V::Rat(2),
        5 => V::Int(2),
        6 => V::Flt(4),
        7 => V::Rat(3),
        8 => V::Flt(3),
        9 => V::Flt(1),
        10 => V::List(vec![V::Int(1)]),
        11 => V::List(vec![V::Flt(2)]),
        12 => V::List(vec![V::Int(1), if rng.chance(1, 2) { V::Flt(4) } else { V::Int(2) }]),
        _ => V::Int(rng.range(0, 3)),
    }
}

fn has_frac(v: &V) -> bool {
    match v {
        V::Flt(_) | V::Rat(_) => true,
        V::List(xs) | V::Stream(xs, _) | V::Dict(xs) => xs.iter().any(has_frac),
        V::Map(kvs) => kvs.iter().any(|(k, v)| has_frac(k) || has_frac(v)),
        _ => false,
    }
}
/// replace floats / rationals by integers (for the builtins whose arithmetic or text output on
/// floats is outside the model)
fn strip_frac(v: &V) -> V {
    match v {
        V::Flt(t) | V::Rat(t) => V::Int(t / 2),
        V::List(xs) => V::List(xs.iter().map(strip_frac).collect()),
        V::Stream(xs, c) => V::Stream(xs.iter().map(strip_frac).collect(), *c),
        V::Dict(xs) => V::Dict(dedup(xs.iter().map(strip_frac).collect())),
        V::Map(kvs) => V::Map(kvs.iter().map(|(k, v)| (strip_frac(k), strip_frac(v))).collect()),
        v => v.clone(),
    }
}
/// numeric-aware equality of dictionary keys (1, 1.0 and 1/1 are one key)
fn key_eq(a: &V, b: &V) -> bool {
    fn twice(v: &V) -> Option<i64> {
        match v {
            V::Int(i) => Some(2 * i),
            V::Flt(t) | V::Rat(t) => Some(*t),
            _ => None,
        }
    }
    match (a, b) {
        (V::List(x), V::List(y)) => x.len() == y.len() && x.iter().zip(y.iter()).all(|(p, q)| key_eq(p, q)),
        _ => match (twice(a), twice(b)) {
            (Some(p), Some(q)) => p == q,
            (None, None) => a == b,
            _ => false,
        },
    }
}

const UNARY_FNS: &[&str] = &["k1", "k0", "id", "nul", "lt", "eq", "mod", "neg", "wrap", "dup", "raise", "raise1"];
const FORMABLE: &[&str] = &[
    "filter", "reject", "partition", "take", "drop", "find", "find?", "locate", "locate?", "count", "any", "all", "map",
    "flat_map", "sum", "product", "sort", "sort_on", "group", "classify", "pairwise", "fold", "scan", "min", "max",
    "count_distinct", "vector_map", "mapmap", "mapply",
];
const COUNTABLE: &[&str] =
    &["any", "all", "find", "find?", "locate", "locate?", "take", "drop", "filter", "reject", "map", "count", "partition"];

/// write `name(seq, f)` in one of the other call forms, and / or count the calls of `f`
fn apply_forms(rng: &mut Rng, c: &mut Case) {
    if c.chain.is_some() || c.sorted || c.args.len() != 2 || !FORMABLE.contains(&c.name) {
        return;
    }
    let seq_ok = matches!(&c.args[0], A::V(V::List(_) | V::Str(_) | V::Bytes(_) | V::Vector(_) | V::Stream(..) | V::Dict(_)));
    let fname = match &c.args[1] {
        A::F(n, _) => *n,
        _ => return,
    };
    if !seq_ok {
        return;
    }
    if rng.chance(3, 5) {
        c.form = 1 + rng.below(5) as u8;
        if c.form == 5 && !c.name.chars().all(|ch| ch.is_ascii_alphabetic() || ch == '_') {
            c.form = 1;
        }
    }
    if COUNTABLE.contains(&c.name) && UNARY_FNS.contains(&fname) && rng.chance(2, 5) {
        c.counted = true;
    }
}

/// keep floats away from what the model does not cover: arithmetic lambdas become structural ones,
/// and the arithmetic / text builtins get integer inputs
fn tame_fracs(c: &mut Case) {
    if !c.args.iter().any(|a| match a {
        A::V(v) => has_frac(v),
        A::F(_, Some(k)) => has_frac(k),
        _ => false,
    }) {
        return;
    }
    let strip_all = matches!(c.name, "sum" | "product" | "join" | "unwords" | "unlines" | "vector_map" | ".+" | "+.");
    for a in c.args.iter_mut() {
        match a {
            A::V(v) if strip_all => *v = strip_frac(v),
            A::F(n, k) => {
                let sub: &'static str = match *n {
                    "mod" | "neg" => "id",
                    "add" | "sub" => "pair",
                    "cmpmod" => "cmp",
                    other => other,
                };
                *n = sub;
                if strip_all {
                    if let Some(kv) = k {
                        *kv = strip_frac(kv);
                    }
                }
            }
            _ => {}
        }
    }
}

fn gen_len(rng: &mut Rng, max: usize) -> usize {
    match rng.below(10) {
        0 => 0,
        1 => 1,
        2 => 2,
        _ => rng.below(max as u64 + 1) as usize,
    }
}

fn gen_elems(rng: &mut Rng, n: usize, profile: Profile) -> Vec<V> {
    (0..n)
        .map(|_| match profile {
            Profile::Ints => V::Int(small_int(rng)),
            Profile::Mixed => elem_mixed(rng),
            Profile::Strs => V::Str(rng.pick(&["a", "b", "ab", "", "ba", "é", "a"]).to_string()),
            Profile::Ties => elem_tie(rng),
            Profile::Lists => match rng.below(6) {
                0 => V::Str(rng.pick(&["ab", "", "c"]).to_string()),
                1 => V::Vector((0..rng.below(3)).map(|_| small_int(rng)).collect()),
                _ => {
                    let m = rng.below(4) as usize;
                    V::List(gen_elems(rng, m, Profile::Ints))
                }
            },
        })
        .collect()
}

fn dedup(xs: Vec<V>) -> Vec<V> {
    let mut out: Vec<V> = vec![];
    for x in xs {
        if !out.iter().any(|y| key_eq(y, &x)) {
            out.push(x)
        }
    }
    out
}

/// a sequence of the given kind; `profile` only matters for kinds that hold arbitrary elements
fn gen_seq(rng: &mut Rng, kind: &str, profile: Profile, max_len: usize) -> V {
    let n = gen_len(rng, max_len);
    match kind {
        "list" => V::List(gen_elems(rng, n, profile)),
        "string" => V::Str((0..n).map(|_| *rng.pick(CHARS)).collect()),
        "vector" => V::Vector((0..n).map(|_| small_int(rng)).collect()),
        "bytes" => V::Bytes((0..n).map(|_| *rng.pick(&[0u8, 1, 2, 2, 97, 98, 255, 3])).collect()),
        "dict" => V::Dict(dedup(gen_elems(rng, n, profile))),
        _ => {
            if profile == Profile::Ints && rng.chance(1, 2) {
                let a = rng.range(-2, 3);
                V::Stream((0..n as i64).map(|i| V::Int(a + i)).collect(), if n > 0 { 1 } else { 0 })
            } else {
                // half of the remaining streams are `stream(seq)`, most of them already advanced
                let xs = if rng.chance(1, 6) {
                    (0..n).map(|_| V::Str(rng.pick(CHARS).to_string())).collect()
                } else {
                    gen_elems(rng, n, profile)
                };
                if rng.chance(3, 5) {
                    let bases: Vec<u32> = (0..4).filter(|b| base_ok(*b, &xs)).collect();
                    let base = *rng.pick(&bases);
                    let how = if rng.chance(1, 6) { 0 } else { 1 + rng.below(4) as u32 };
                    let pl = rng.below(3) as u32;
                    V::Stream(xs, 2 + how + 5 * base + 20 * pl)
                } else {
                    V::Stream(xs, 0)
                }
            }
        }
    }
}

fn pick_kind(rng: &mut Rng) -> &'static str {
    // lists half of the time, the other kinds share the rest
    if rng.chance(2, 5) {
        "list"
    } else {
        KINDS[1 + rng.below(5) as usize]
    }
}
fn pick_profile(rng: &mut Rng) -> Profile {
    match rng.below(10) {
        0 | 1 => Profile::Mixed,
        2 => Profile::Strs,
        3 | 4 => Profile::Ties,
        _ => Profile::Ints,
    }
}
/// a value that is likely to occur in `s` (or not)
fn elem_for(rng: &mut Rng, s: &V) -> V {
    let from: Vec<V> = match s {
        V::List(x) | V::Stream(x, _) | V::Dict(x) => x.clone(),
        V::Str(t) => t.chars().map(|c| V::Str(c.to_string())).collect(),
        V::Bytes(b) => b.iter().map(|x| V::Int(*x as i64)).collect(),
        V::Vector(n) => n.iter().map(|x| V::Int(*x)).collect(),
        _ => vec![],
    };
    if !from.is_empty() && rng.chance(3, 4) {
        rng.pick(&from).clone()
    } else {
        elem_mixed(rng)
    }
}
fn int_for(rng: &mut Rng, s: &V) -> V {
    match elem_for(rng, s) {
        V::Int(i) => V::Int(i),
        _ => V::Int(small_int(rng)),
    }
}

fn pred(rng: &mut Rng, s: &V) -> A {
    match rng.below(12) {
        0 => A::F("k1", None),
        1 => A::F("k0", None),
        2 => A::F("id", None),
        3 | 4 => A::F("lt", Some(int_for(rng, s))),
        5 | 6 => A::F("eq", Some(elem_for(rng, s))),
        7 => A::F("mod", Some(V::Int(rng.range(0, 3)))),
        8 | 9 => A::F("raise", Some(elem_for(rng, s))),
        10 => A::F("raise1", Some(elem_for(rng, s))),
        _ => A::F("nul", None),
    }
}
fn keyf(rng: &mut Rng, s: &V) -> A {
    match rng.below(10) {
        0 => A::F("k0", None),
        1 | 2 => A::F("id", None),
        3 | 4 => A::F("mod", Some(V::Int(rng.range(1, 3)))),
        5 => A::F("neg", None),
        6 => A::F("eq", Some(elem_for(rng, s))),
        7 => A::F("raise", Some(elem_for(rng, s))),
        8 => A::F("wrap", None),
        _ => A::F("lt", Some(int_for(rng, s))),
    }
}
fn mapf(rng: &mut Rng, s: &V) -> A {
    match rng.below(10) {
        0 => A::F("id", None),
        1 => A::F("wrap", None),
        2 => A::F("dup", None),
        3 => A::F("neg", None),
        4 => A::F("mod", Some(V::Int(rng.range(0, 3)))),
        5 => A::F("raise", Some(elem_for(rng, s))),
        6 => A::F("nul", None),
        7 => A::F("lt", Some(int_for(rng, s))),
        8 => A::F("eq", Some(elem_for(rng, s))),
        _ => A::F("k1", None),
    }
}
fn comb(rng: &mut Rng, s: &V) -> A {
    match rng.below(9) {
        0 | 1 => A::F("add", None),
        2 => A::F("sub", None),
        3 | 4 => A::F("pair", None),
        5 => A::F("fst", None),
        6 => A::F("snd", None),
        7 => A::F("raisepair", Some(elem_for(rng, s))),
        _ => A::F("id", None), // wrong arity
    }
}
fn cmpf(rng: &mut Rng, s: &V) -> A {
    match rng.below(10) {
        0 | 1 => A::F("cmp", None),
        2 | 3 => A::F("rcmp", None),
        4 | 5 => A::F("cmpmod", Some(V::Int(rng.range(1, 3)))),
        6 => A::F("b0", None),
        7 => A::F("raisecmp", Some(elem_for(rng, s))),
        8 => A::F("bstr", None),
        _ => A::F("sub", None),
    }
}
fn relf(rng: &mut Rng, s: &V) -> A {
    match rng.below(8) {
        0 | 1 => A::F("eq2", None),
        2 => A::F("lt2", None),
        3 => A::F("le2", None),
        4 => A::F("b0", None),
        5 => A::F("b1", None),
        6 => A::F("raisecmp", Some(elem_for(rng, s))),
        _ => A::F("cmpmod", Some(V::Int(2))),
    }
}
fn small_num(rng: &mut Rng, s: &V) -> V {
    let n = len_of(s) as i64;
    V::Int(match rng.below(8) {
        0 => 0,
        1 => -1,
        2 => n,
        3 => n + 1,
        4 => 1,
        _ => rng.range(1, 4),
    })
}

struct Case {
    name: &'static str,
    args: Vec<A>,
    sorted: bool,
    /// `Some(ops)`: the call is written as the chained infix expression `a0 op1 a1 op2 a2 …`
    chain: Option<Vec<&'static str>>,
    /// how the two-argument call `name(seq, f)` is written: 0 `name(s, f)`, 1 `s name f` (one
    /// operator), 2 `s then id name f` (two operators), 3 `name(f)(s)` (partial application),
    /// 4 `flip(name)(f, s)`, 5 `X = s; X name= f; X` (op-assign)
    form: u8,
    /// wrap the function argument in a call counter and compare `[result, calls]`
    counted: bool,
}

fn gen_case(rng: &mut Rng, which: usize, max_len: usize) -> Case {
    let kind = pick_kind(rng);
    let profile = pick_profile(rng);
    let s = gen_seq(rng, kind, profile, max_len);
    let sa = A::V(s.clone());
    let mk = |name: &'static str, args: Vec<A>| Case { name, args, sorted: false, chain: None, form: 0, counted: false };
    match which {
        0 => mk("filter", vec![sa, pred(rng, &s)]),
        1 => mk("reject", vec![sa, pred(rng, &s)]),
        2 => mk("partition", vec![sa, pred(rng, &s)]),
        3 => mk("take", vec![sa, pred(rng, &s)]),
        4 => mk("drop", vec![sa, pred(rng, &s)]),
        5 => mk(*rng.pick(&["find", "find?", "locate", "locate?"]), vec![sa, pred(rng, &s)]),
        6 => {
            let mut e = elem_for(rng, &s);
            if matches!(s, V::Str(_)) && matches!(e, V::Str(_)) {
                e = V::Int(1) // string/string `locate` is substring search: not part of this model
            }
            mk(*rng.pick(&["locate", "locate?"]), vec![sa, A::V(e)])
        }
        7 => match rng.below(3) {
            0 => mk("count", vec![sa]),
            1 => mk("count", vec![sa, pred(rng, &s)]),
            _ => {
                let e = elem_for(rng, &s);
                mk("count", vec![sa, A::V(e)])
            }
        },
        8 => {
            let n = *rng.pick(&["any", "all"]);
            if rng.chance(1, 4) {
                mk(n, vec![sa])
            } else {
                mk(n, vec![sa, pred(rng, &s)])
            }
        }
        9 => mk("map", vec![sa, mapf(rng, &s)]),
        10 => mk("flat_map", vec![sa, mapf(rng, &s)]),
        11 => {
            let n = gen_len(rng, 4);
            let p = if rng.chance(1, 6) { Profile::Mixed } else { Profile::Lists };
            let l = V::List(gen_elems(rng, n, p));
            mk("flatten", vec![A::V(l)])
        }
        12 => mk("each!", vec![sa, mapf(rng, &s)]),
        13 => {
            let n = *rng.pick(&["sum", "product"]);
            if rng.chance(1, 2) {
                mk(n, vec![sa])
            } else {
                mk(n, vec![sa, mapf(rng, &s)])
            }
        }
        14 => {
            let n = *rng.pick(&["min", "max"]);
            if rng.chance(1, 4) {
                // several values instead of one sequence: `min(a, b, c[, f])`
                let m = 2 + rng.below(3) as usize;
                let p = if rng.chance(1, 5) { Profile::Mixed } else if rng.chance(1, 4) { Profile::Lists } else { Profile::Ints };
                let mut args: Vec<A> = gen_elems(rng, m, p).into_iter().map(A::V).collect();
                if rng.chance(1, 3) {
                    args.push(cmpf(rng, &s));
                }
                mk(n, args)
            } else if rng.chance(1, 2) {
                mk(n, vec![sa])
            } else {
                mk(n, vec![sa, cmpf(rng, &s)])
            }
        }
        15 => {
            if rng.chance(1, 2) {
                mk("sort", vec![sa])
            } else {
                mk("sort", vec![sa, cmpf(rng, &s)])
            }
        }
        16 => mk("sort_on", vec![sa, keyf(rng, &s)]),
        17 => mk("reverse", vec![sa]),
        18 => mk("unique", vec![sa]),
        19 => match rng.below(3) {
            0 => mk("group", vec![sa]),
            1 => {
                let n = small_num(rng, &s);
                mk(*rng.pick(&["group", "group'"]), vec![sa, A::V(n)])
            }
            _ => mk("group", vec![sa, relf(rng, &s)]),
        },
        20 => Case { name: "group_all", args: vec![sa, keyf(rng, &s)], sorted: true, chain: None, form: 0, counted: false },
        21 => mk("classify", vec![sa, keyf(rng, &s)]),
        22 => {
            let n = small_num(rng, &s);
            mk("window", vec![sa, A::V(n)])
        }
        23 => mk(*rng.pick(&["prefixes", "suffixes"]), vec![sa]),
        24 => mk("frequencies", vec![sa]),
        25 => {
            let n = *rng.pick(&["fold", "scan"]);
            if rng.chance(1, 2) {
                mk(n, vec![sa, comb(rng, &s)])
            } else {
                let seed = if rng.chance(3, 4) { V::Int(small_int(rng)) } else { elem_mixed(rng) };
                mk(n, vec![sa, comb(rng, &s), A::V(seed)])
            }
        }
        26 => mk("pairwise", vec![sa, comb(rng, &s)]),
        27 | 28 => {
            let name = if which == 27 { "zip" } else { "ziplongest" };
            let m = 1 + rng.below(3) as usize;
            let mut args = vec![sa];
            for _ in 0..m {
                let k2 = pick_kind(rng);
                let p2 = pick_profile(rng);
                args.push(A::V(gen_seq(rng, k2, p2, max_len)));
            }
            if rng.chance(1, 10) {
                // a non-sequence argument
                args[1] = A::V(V::Int(3));
            }
            match rng.below(4) {
                0 => {
                    if which == 27 {
                        args.push(A::F(*rng.pick(&["nlist", "nrev", "nraise", "add", "pair"]), Some(elem_for(rng, &s))))
                    } else {
                        args.push(comb(rng, &s))
                    }
                }
                _ => {}
            }
            // a third of the calls are written as a chained infix expression `a zip b zip c [with f]`
            // (merged into one n-ary call by try_chain); some chains mix the two operators (no merge)
            if rng.chance(2, 5) {
                let has_f = matches!(args.last(), Some(A::F(..)));
                let n_seq = args.len() - if has_f { 1 } else { 0 };
                let other = if which == 27 { "ziplongest" } else { "zip" };
                let mixed = rng.chance(1, 4);
                let mut ops: Vec<&'static str> = (1..n_seq)
                    .map(|_| if mixed && rng.chance(1, 2) { other } else { name })
                    .collect();
                if has_f {
                    ops.push("with");
                }
                return Case { name: "chain", args, sorted: false, chain: Some(ops), form: 0, counted: false };
            }
            mk(name, args)
        }
        29 => {
            let n = gen_len(rng, 4);
            let rows: Vec<V> = (0..n)
                .map(|_| {
                    if rng.chance(1, 12) {
                        V::Int(1)
                    } else {
                        let k2 = *rng.pick(&["list", "list", "string", "vector", "bytes"]);
                        gen_seq(rng, k2, Profile::Ints, 4)
                    }
                })
                .collect();
            mk("transpose", vec![A::V(V::List(rows))])
        }
        30 => mk("enumerate", vec![sa]),
        31 => {
            // cartesian product of 2-3 short sequences, or with a number
            let short = |rng: &mut Rng| {
                let k2 = pick_kind(rng);
                gen_seq(rng, k2, Profile::Ints, 3)
            };
            match rng.below(4) {
                0 => {
                    let a = short(rng);
                    mk("**", vec![A::V(a), A::V(V::Int(rng.range(-1, 3)))])
                }
                1 => {
                    let a = short(rng);
                    mk("**", vec![A::V(V::Int(rng.range(-1, 3))), A::V(a)])
                }
                2 => mk("**", vec![A::V(short(rng)), A::V(short(rng))]),
                _ => {
                    // 3-4 factors; half of them checked against the chain-merging model
                    let m = 3 + rng.below(2) as usize;
                    let args: Vec<A> = (0..m).map(|_| { let k2 = pick_kind(rng); A::V(gen_seq(rng, k2, Profile::Ints, 2)) }).collect();
                    if rng.chance(1, 2) {
                        Case { name: "chain", args, sorted: false, chain: Some(vec!["**"; m - 1]), form: 0, counted: false }
                    } else {
                        mk("**", args)
                    }
                }
            }
        }
        32 => {
            let k2 = pick_kind(rng);
            let a = gen_seq(rng, k2, profile, 3);
            let n = if rng.chance(1, 10) { -1 } else { rng.range(0, 3) };
            mk("^^", vec![A::V(a), A::V(V::Int(n))])
        }
        33 => {
            let k2 = pick_kind(rng);
            let a = gen_seq(rng, k2, profile, 5);
            mk("subsequences", vec![A::V(a)])
        }
        34 => {
            let k2 = pick_kind(rng);
            let a = gen_seq(rng, k2, profile, 6);
            let k = small_num(rng, &a);
            mk("combinations", vec![A::V(a), A::V(k)])
        }
        35 => {
            let k2 = pick_kind(rng);
            let a = gen_seq(rng, k2, profile, 4);
            mk("permutations", vec![A::V(a)])
        }
        36 => {
            // `++`: same kind mostly
            let k2 = *rng.pick(&["list", "vector", "bytes", "string", "stream"]);
            let a = gen_seq(rng, k2, profile, max_len);
            let k3 = if rng.chance(4, 5) { k2 } else { pick_kind(rng) };
            let b = gen_seq(rng, k3, profile, max_len);
            mk("++", vec![A::V(a), A::V(b)])
        }
        37 => {
            let e = if rng.chance(1, 6) { V::Int(300) } else { elem_for(rng, &s) };
            if rng.chance(1, 2) {
                mk(".+", vec![A::V(e), sa])
            } else {
                mk("+.", vec![sa, A::V(e)])
            }
        }
        38 => {
            let e = elem_mixed(rng);
            match rng.below(3) {
                0 => mk("..", vec![A::V(e), A::V(elem_mixed(rng))]),
                1 => mk(".*", vec![A::V(e), A::V(V::Int(rng.range(-1, 4)))]),
                _ => mk("*.", vec![A::V(V::Int(rng.range(-1, 4))), A::V(e)]),
            }
        }
        39 => {
            let p = if rng.chance(1, 2) { Profile::Strs } else { Profile::Ints };
            let k2 = *rng.pick(&["list", "list", "string", "stream", "dict", "vector"]);
            let a = gen_seq(rng, k2, p, max_len);
            if rng.chance(1, 3) {
                // bytes separator: every piece is converted to bytes; empty pieces at every position
                let n = gen_len(rng, 5);
                let pieces: Vec<V> = (0..n)
                    .map(|_| match rng.below(10) {
                        0 | 1 => V::Bytes(vec![]),
                        2 => V::List(vec![]),
                        3 | 4 => V::Bytes((0..1 + rng.below(2)).map(|_| *rng.pick(&[0u8, 1, 2, 255])).collect()),
                        5 => V::List((0..1 + rng.below(2)).map(|_| V::Int(rng.range(0, 3))).collect()),
                        6 => V::Vector(vec![rng.range(0, 5)]),
                        7 => V::Str(rng.pick(&["", "", "a"]).to_string()),
                        8 => if rng.chance(1, 3) { V::List(vec![V::Int(300)]) } else { V::Stream(vec![V::Int(1), V::Int(2)], 1) },
                        _ => if rng.chance(1, 3) { V::Int(1) } else { V::Bytes(vec![7]) },
                    })
                    .collect();
                let whole = if rng.chance(1, 8) { V::Bytes(vec![1, 2]) } else { V::List(pieces) };
                let sep: Vec<u8> = (0..rng.below(3)).map(|_| *rng.pick(&[0u8, 9, 255])).collect();
                return mk("join", vec![A::V(whole), A::V(V::Bytes(sep))]);
            }
            let sep = rng.pick(&[",", "", ", ", "é"]).to_string();
            mk("join", vec![A::V(a), A::V(V::Str(sep))])
        }
        40 => {
            let n = gen_len(rng, 10);
            let t: String = (0..n).map(|_| *rng.pick(&['a', 'b', ',', ',', 'a', 'é', ' '])).collect();
            let sep = rng.pick(&[",", "a", "aa", "ab", "", ",,", "é", "a,"]).to_string();
            mk("split", vec![A::V(V::Str(t)), A::V(V::Str(sep))])
        }
        41 => {
            let n = gen_len(rng, 12);
            let t: String = (0..n).map(|_| *rng.pick(&['a', 'b', ' ', '\n', ' ', '\t', 'é', '\n', '\r'])).collect();
            mk(*rng.pick(&["words", "lines"]), vec![A::V(V::Str(t))])
        }
        42 => mk(*rng.pick(&["uncons", "uncons?", "unsnoc", "unsnoc?"]), vec![sa]),
        43 => match rng.below(3) {
            0 => mk("count_distinct", vec![sa]),
            1 => mk("count_distinct", vec![sa, keyf(rng, &s)]),
            _ => mk("set", vec![sa]),
        },
        44 => match rng.below(3) {
            0 => {
                let n = gen_len(rng, 4);
                let p = if rng.chance(1, 6) { Profile::Mixed } else { Profile::Lists };
                let l = V::List(gen_elems(rng, n, p));
                mk("mapmap", vec![A::V(l.clone()), mapf(rng, &l)])
            }
            1 => {
                // rows of (mostly) two entries applied to a binary function
                let n = gen_len(rng, 4);
                let rows: Vec<V> = (0..n)
                    .map(|_| {
                        let m = if rng.chance(1, 6) { rng.below(4) as usize } else { 2 };
                        if rng.chance(1, 8) {
                            V::Str("ab".into())
                        } else {
                            { let pp = if rng.chance(1, 6) { Profile::Mixed } else { Profile::Ints }; V::List(gen_elems(rng, m, pp)) }
                        }
                    })
                    .collect();
                let l = V::List(rows);
                mk("mapply", vec![A::V(l.clone()), comb(rng, &l)])
            }
            _ => mk("vector_map", vec![sa, mapf(rng, &s)]),
        },
        45 => {
            let p = if rng.chance(1, 2) { Profile::Strs } else { Profile::Ints };
            let k2 = *rng.pick(&["list", "list", "string", "stream", "dict", "vector", "bytes"]);
            let a = gen_seq(rng, k2, p, max_len);
            mk(*rng.pick(&["unwords", "unlines"]), vec![A::V(a)])
        }
        46 => {
            let name = *rng.pick(&["in", "not_in", "contains"]);
            let (needle, hay) = if rng.chance(1, 4) {
                // text in text: substring search
                let n = gen_len(rng, 6);
                let t: String = (0..n).map(|_| *rng.pick(&['a', 'b', 'a', 'é', 'c'])).collect();
                let p = rng.pick(&["", "a", "ab", "ba", "é", "aa", "éa", "abc"]).to_string();
                (V::Str(p), V::Str(t))
            } else if rng.chance(1, 12) {
                (elem_mixed(rng), V::Int(5))
            } else {
                (elem_for(rng, &s), s.clone())
            };
            if name == "contains" {
                mk(name, vec![A::V(hay), A::V(needle)])
            } else {
                mk(name, vec![A::V(needle), A::V(hay)])
            }
        }
        47 => {
            let n = gen_len(rng, 7);
            let t: String = (0..n).map(|_| *rng.pick(&['a', 'b', 'a', 'é', '𝄞', 'c'])).collect();
            let p = rng.pick(&["", "a", "ab", "ba", "é", "aa", "𝄞a", "c", "bc"]).to_string();
            mk(*rng.pick(&["locate", "locate?"]), vec![A::V(V::Str(t)), A::V(V::Str(p))])
        }
        48 => mk(*rng.pick(&["keys", "values"]), vec![sa]),
        49 => {
            let n = gen_len(rng, 10);
            let t: String = (0..n).map(|_| *rng.pick(&['a', 'b', ',', ',', 'a', 'é', ' '])).collect();
            let sep = rng.pick(&[",", "a", "aa", "ab", "", ",,", "é", "a,"]).to_string();
            let lim = V::Int(rng.range(-1, 5));
            match rng.below(3) {
                0 => mk("split", vec![A::V(V::Str(t)), A::V(V::Str(sep)), A::V(lim)]),
                1 => mk("rsplit", vec![A::V(V::Str(t)), A::V(V::Str(sep))]),
                _ => mk("rsplit", vec![A::V(V::Str(t)), A::V(V::Str(sep)), A::V(lim)]),
            }
        }
        51 => {
            // LONG inputs (33..=max) with ==-equal but distinguishable values, for everything order-sensitive
            let hi = if max_len > 8 { 200 } else { 120 };
            let n = match rng.below(4) {
                0 => 33 + rng.below(4) as usize,
                1 => 60 + rng.below(10) as usize,
                _ => 33 + rng.below(hi - 32) as usize,
            };
            let nums = rng.chance(3, 4);
            let xs: Vec<V> = (0..n)
                .map(|_| {
                    if nums {
                        match rng.below(9) {
                            0 | 1 => V::Int(1),
                            2 => V::Flt(2),
                            3 => V::Rat(2),
                            4 => V::Int(2),
                            5 => V::Flt(4),
                            6 => V::Rat(3),
                            7 => V::Flt(3),
                            _ => V::Int(rng.range(0, 4)),
                        }
                    } else {
                        match rng.below(5) {
                            0 => V::List(vec![V::Int(1)]),
                            1 => V::List(vec![V::Flt(2)]),
                            2 => V::List(vec![V::Int(1), V::Flt(4)]),
                            3 => V::List(vec![V::Rat(2), V::Int(2)]),
                            _ => V::List(vec![V::Int(rng.range(0, 2))]),
                        }
                    }
                })
                .collect();
            let sq = match rng.below(5) {
                0 => V::Stream(xs, 0),
                1 => V::Stream(xs, 2 + rng.below(5) as u32),
                _ => V::List(xs),
            };
            let sa = A::V(sq);
            match rng.below(10) {
                0 | 1 | 2 => mk("sort", vec![sa]),
                3 => mk("sort", vec![sa, A::F(*rng.pick(&["cmp", "rcmp", "b0"]), None)]),
                4 => mk("sort_on", vec![sa, A::F(*rng.pick(&["id", "k0", "wrap"]), None)]),
                5 => mk("unique", vec![sa]),
                6 => mk("group", vec![sa]),
                7 => mk(*rng.pick(&["min", "max"]), vec![sa]),
                8 => mk("frequencies", vec![sa]),
                _ => mk(*rng.pick(&["min", "max"]), vec![sa, A::F(*rng.pick(&["cmp", "rcmp"]), None)]),
            }
        }
        52 => {
            // text builtins over an alphabet with every Unicode whitespace and the ASCII control blanks
            const WS: &[char] = &[
                ' ', '\t', '\n', '\r', '\u{b}', '\u{c}', '\u{85}', '\u{a0}', '\u{1680}', '\u{2000}', '\u{2003}', '\u{200a}',
                '\u{2028}', '\u{2029}', '\u{202f}', '\u{205f}', '\u{3000}',
            ];
            const NOT_WS: &[char] = &['a', 'b', 'é', '\u{200b}', '\u{feff}', '\u{1c}', '\u{1f}', '\u{180e}', 'x', ','];
            let n = gen_len(rng, 10);
            let t: String = (0..n).map(|_| if rng.chance(1, 2) { *rng.pick(WS) } else { *rng.pick(NOT_WS) }).collect();
            match rng.below(8) {
                0 | 1 | 2 => mk("words", vec![A::V(V::Str(t))]),
                3 => mk("lines", vec![A::V(V::Str(t))]),
                4 => mk(*rng.pick(&["strip", "trim", "strip_start", "trim_start", "strip_end", "trim_end"]), vec![A::V(V::Str(t))]),
                5 => mk("is_space", vec![A::V(V::Str(t))]),
                6 => {
                    let sep = rng.pick(WS).to_string();
                    mk("split", vec![A::V(V::Str(t)), A::V(V::Str(sep))])
                }
                _ => {
                    let sep = rng.pick(WS).to_string();
                    let pieces: Vec<V> = t.chars().map(|c| V::Str(c.to_string())).collect();
                    mk("join", vec![A::V(V::List(pieces)), A::V(V::Str(sep))])
                }
            }
        }
        _ => {
            // merge of 2-4 dictionaries, optionally with a combining function; call or chained form
            let m = 2 + rng.below(3) as usize;
            let mut args: Vec<A> = (0..m)
                .map(|_| {
                    let n = gen_len(rng, 4);
                    let pp = match rng.below(6) {
                        0 => Profile::Mixed,
                        1 | 2 => Profile::Ties,
                        _ => Profile::Ints,
                    };
                    let keys = dedup(gen_elems(rng, n, pp));
                    let kvs: Vec<(V, V)> = keys.into_iter().map(|k| (k, if rng.chance(1, 6) { elem_mixed(rng) } else { V::Int(small_int(rng)) })).collect();
                    A::V(V::Map(kvs))
                })
                .collect();
            if rng.chance(1, 12) {
                args[1] = A::V(V::List(vec![V::Int(1)]));
            }
            let has_f = rng.chance(1, 2);
            if has_f {
                args.push(comb(rng, &s));
            }
            if rng.chance(1, 3) {
                let mut ops: Vec<&'static str> = vec!["merge"; m - 1];
                if has_f {
                    ops.push("with");
                }
                Case { name: "chain", args, sorted: false, chain: Some(ops), form: 0, counted: false }
            } else {
                mk("merge", args)
            }
        }
    }
}
const N_FAMILIES: usize = 53;

/// hand-picked boundary cases (past findings first)
fn corpus() -> Vec<Case> {
    let l = |xs: &[i64]| V::List(xs.iter().map(|x| V::Int(*x)).collect());
    let mk = |name: &'static str, args: Vec<A>| Case { name, args, sorted: false, chain: None, form: 0, counted: false };
    vec![
        mk("^^", vec![A::V(l(&[])), A::V(V::Int(0))]),                         // F21
        mk("^^", vec![A::V(V::Str("".into())), A::V(V::Int(0))]),
        mk("^^", vec![A::V(l(&[])), A::V(V::Int(2))]),
        mk("drop", vec![A::V(V::Stream((1..=5).map(V::Int).collect(), 1)), A::F("lt", Some(V::Int(3)))]), // F19
        mk("drop", vec![A::V(V::Stream((1..=3).map(V::Int).collect(), 1)), A::F("k0", None)]),
        mk("drop", vec![A::V(V::Stream((1..=3).map(V::Int).collect(), 1)), A::F("k1", None)]),
        // `stream(seq)` advanced past a prefix, then forced (seeded change C13-b2)
        mk("sort", vec![A::V(V::Stream(vec![V::Int(3), V::Int(1), V::Int(2)], 2 + 1))]),
        mk("reverse", vec![A::V(V::Stream(vec![V::Int(3), V::Int(1)], 2 + 2))]),
        mk("filter", vec![A::V(V::Stream(vec![V::Int(3), V::Int(1)], 2 + 3)), A::F("k1", None)]),
        mk("unique", vec![A::V(V::Stream(vec![V::Str("a".into()), V::Str("b".into())], 2 + 4 + 5))]),
        mk("suffixes", vec![A::V(V::Stream(vec![V::Int(0), V::Int(2)], 2 + 1 + 15 + 20))]),
        // Unicode whitespace (seeded change C13-b5)
        mk("words", vec![A::V(V::Str("a\u{b}b\u{85}c\u{a0}d\u{2003}e\u{3000}f\u{200b}g".into()))]),
        // early exit of any / all in the call forms that reach run2 (seeded change C13-a4)
        Case { name: "any", args: vec![A::V(V::List(vec![V::Int(1), V::Str("a".into())])), A::F("lt", Some(V::Int(5)))], sorted: false, chain: None, form: 1, counted: false },
        Case { name: "all", args: vec![A::V(V::List(vec![V::Int(9), V::Str("a".into())])), A::F("lt", Some(V::Int(5)))], sorted: false, chain: None, form: 3, counted: false },
        Case { name: "any", args: vec![A::V(l(&[0, 2, 3, 4])), A::F("id", None)], sorted: false, chain: None, form: 4, counted: true },
        Case { name: "all", args: vec![A::V(l(&[1, 0, 3, 4])), A::F("id", None)], sorted: false, chain: None, form: 5, counted: true },
        Case { name: "any", args: vec![A::V(l(&[0, 2, 3, 4])), A::F("id", None)], sorted: false, chain: None, form: 2, counted: true },
        // bytes join with leading empty pieces (seeded change C13-a3)
        mk("join", vec![A::V(V::List(vec![V::Bytes(vec![]), V::Bytes(vec![1])])), A::V(V::Bytes(vec![0]))]),
        mk("join", vec![A::V(V::List(vec![V::List(vec![]), V::Bytes(vec![]), V::Bytes(vec![1]), V::Bytes(vec![])])), A::V(V::Bytes(vec![9]))]),
        // ties between == numbers of different representation (seeded change C13-b3)
        mk("max", vec![A::V(V::List(vec![V::Int(1), V::Flt(2)]))]),
        mk("min", vec![A::V(V::List(vec![V::Flt(3), V::Rat(3)]))]),
        mk("max", vec![A::V(V::List(vec![V::List(vec![V::Int(1)]), V::List(vec![V::Flt(2)])]))]),
        mk("max", vec![A::V(V::Int(1)), A::V(V::Flt(2))]),
        mk("max", vec![A::V(V::List(vec![V::Int(1), V::Flt(2)])), A::F("cmp", None)]),
        mk("sort", vec![A::V(V::List(vec![V::Flt(2), V::Int(1), V::Rat(2), V::Flt(1)]))]),
        mk("unique", vec![A::V(V::List(vec![V::Flt(2), V::Int(1), V::Rat(3), V::Flt(3)]))]),
        mk("frequencies", vec![A::V(V::List(vec![V::Flt(2), V::Int(1), V::Int(1)]))]),
        // chained infix forms (seeded change C13-a2)
        Case { name: "chain", args: vec![A::V(l(&[1, 2, 3])), A::V(l(&[4, 5])), A::V(l(&[6]))], sorted: false, chain: Some(vec!["ziplongest", "ziplongest"]), form: 0, counted: false },
        Case { name: "chain", args: vec![A::V(l(&[10, 20])), A::V(l(&[1, 2])), A::V(l(&[5])), A::F("sub", None)], sorted: false, chain: Some(vec!["ziplongest", "ziplongest", "with"]), form: 0, counted: false },
        Case { name: "chain", args: vec![A::V(l(&[1, 2])), A::V(l(&[3, 4])), A::V(l(&[5, 6])), A::V(l(&[7]))], sorted: false, chain: Some(vec!["zip", "zip", "zip"]), form: 0, counted: false },
        Case { name: "chain", args: vec![A::V(l(&[1, 2])), A::V(l(&[3])), A::V(l(&[5, 6]))], sorted: false, chain: Some(vec!["ziplongest", "zip"]), form: 0, counted: false },
        Case { name: "chain", args: vec![A::V(l(&[1, 2])), A::V(l(&[3])), A::V(l(&[4, 5])), A::V(l(&[6]))], sorted: false, chain: Some(vec!["**", "**", "**"]), form: 0, counted: false },
        mk("permutations", vec![A::V(l(&[]))]),                                  // F14
        mk("permutations", vec![A::V(l(&[1, 2, 3, 4]))]),
        mk("combinations", vec![A::V(l(&[1, 2])), A::V(V::Int(3))]),
        mk("combinations", vec![A::V(l(&[1, 2, 3, 4, 5])), A::V(V::Int(3))]),
        mk("subsequences", vec![A::V(l(&[]))]),
        mk("sort", vec![A::V(l(&[3, 1, 2, 1, 3])), A::F("cmpmod", Some(V::Int(2)))]),
        mk("sort_on", vec![A::V(l(&[5, 3, 4, 1, 2, 6])), A::F("mod", Some(V::Int(2)))]),
        mk("group'", vec![A::V(l(&[1, 2, 3, 4])), A::V(V::Int(2))]),
        mk("group'", vec![A::V(l(&[1, 2, 3, 4, 5])), A::V(V::Int(2))]),
        mk("window", vec![A::V(l(&[1, 2, 3])), A::V(V::Int(3))]),
        mk("window", vec![A::V(l(&[1, 2, 3])), A::V(V::Int(4))]),
        mk("zip", vec![A::V(l(&[1, 2, 3])), A::V(l(&[])), A::V(l(&[4]))]),
        mk("ziplongest", vec![A::V(l(&[])), A::V(l(&[]))]),
        mk("transpose", vec![A::V(V::List(vec![]))]),
        mk("min", vec![A::V(l(&[2, 1, 1, 2]))]),
        mk("max", vec![A::V(V::List(vec![l(&[1]), l(&[1, 0]), l(&[1])]))]),
        mk("fold", vec![A::V(l(&[])), A::F("add", None)]),
        mk("scan", vec![A::V(l(&[])), A::F("add", None)]),
        mk("unique", vec![A::V(V::List(vec![V::Int(1), V::Str("a".into()), V::Int(1), V::Null, V::Null]))]),
    ]
}

// ---------------------------------------------------------------------------------------------
fn run_case(w: &mut Worker, c: &Case) -> (String, String, String, String) {
    // dictionaries: assign to a variable, then read the iteration order of that very value
    let mut dict_vars: Vec<(Vec<V>, String)> = vec![];
    let mut dict_orders: Vec<(Vec<V>, String)> = vec![];
    fn dicts_in<'a>(v: &'a V, out: &mut Vec<&'a Vec<V>>) {
        match v {
            V::Dict(ks) => out.push(ks),
            V::List(xs) | V::Stream(xs, _) => xs.iter().for_each(|x| dicts_in(x, out)),
            _ => {}
        }
    }
    let mut ds = vec![];
    for a in &c.args {
        if let A::V(v) = a {
            dicts_in(v, &mut ds)
        }
    }
    let mut setup = String::new();
    for ks in ds {
        if dict_vars.iter().any(|(k2, _)| k2 == ks) {
            continue;
        }
        let var = format!("D{}", dict_vars.len().min(3));
        let assign = format!("{} = set({}); list({})", var, src_v(&V::List(ks.clone()), &[]), var);
        let (cls, _) = w.eval(&assign);
        setup.push_str(&assign);
        setup.push_str("; ");
        let order = cls
            .strip_prefix("ok ")
            .and_then(top_items)
            .map(|items| format!("d[{}]", items.join(",")))
            .unwrap_or_else(|| "d[?]".into());
        dict_vars.push((ks.clone(), var));
        dict_orders.push((ks.clone(), order));
    }
    let src = match &c.chain {
        Some(ops) => {
            let parts: Vec<String> = c.args.iter().map(|a| arg_src(a, &dict_vars)).collect();
            let mut e = parts[0].clone();
            for (op, p) in ops.iter().zip(parts[1..].iter()) {
                e.push_str(&format!(" {} {}", op, p));
            }
            e
        }
        None if c.form != 0 || c.counted => {
            let sq = arg_src(&c.args[0], &dict_vars);
            let mut f = arg_src(&c.args[1], &dict_vars);
            if c.counted {
                f = format!("(\\x -> (CNT += 1; {}(x)))", f);
            }
            let e = match c.form {
                1 => format!("{} {} {}", sq, c.name, f),
                2 => format!("{} then id {} {}", sq, c.name, f),
                3 => format!("{}({})({})", c.name, f, sq),
                4 => format!("flip({})({}, {})", c.name, f, sq),
                5 => format!("(RES = {}; RES {}= {}; RES)", sq, c.name, f),
                _ => format!("{}({}, {})", c.name, sq, f),
            };
            if c.counted {
                format!("(CNT = 0; RES2 = (try {} catch e -> \"T\"); [RES2, CNT])", e)
            } else {
                e
            }
        }
        None => call_src(c.name, &c.args, &dict_vars),
    };
    let (mut cls, detail) = w.eval(&src);
    if c.sorted {
        cls = sort_top(&cls);
    }
    let mut req = String::new();
    if c.sorted {
        req.push_str("sorted! ");
    }
    if c.counted {
        req.push_str("calls! ");
    }
    match &c.chain {
        Some(ops) => {
            req.push_str("chain ");
            req.push_str(&arg_canon(&c.args[0], &dict_orders));
            for (op, a) in ops.iter().zip(c.args[1..].iter()) {
                req.push_str(&format!(" {} {}", op, arg_canon(a, &dict_orders)));
            }
        }
        None => {
            req.push_str(c.name);
            for a in &c.args {
                req.push(' ');
                req.push_str(&arg_canon(a, &dict_orders));
            }
        }
    }
    (format!("{}{}", setup, src), cls, detail, req)
}

/// call-site key: builtin name, arity, kind of the first sequence argument, "f" if a function is passed
fn key_of(c: &Case) -> String {
    let kind = c
        .args
        .iter()
        .find_map(|a| match a {
            A::V(v @ (V::List(_) | V::Str(_) | V::Bytes(_) | V::Vector(_) | V::Stream(..) | V::Dict(_) | V::Map(_))) => Some(kind_of(v)),
            _ => None,
        })
        .unwrap_or("none");
    let has_f = c.args.iter().any(|a| matches!(a, A::F(..)));
    let name = match &c.chain {
        Some(ops) => format!("chain:{}", ops.join(":")),
        None => c.name.to_string(),
    };
    format!("{}({}{})", name, kind, if has_f { ",f" } else { "" })
}

fn main() {
    if std::env::args().any(|a| a == "--worker") {
        worker_main();
        return;
    }
    let args = parse_args();
    let mut rep = Report::new("C13", &args);
    rep.rule = "calls builtin(args) for 60 sequence builtins x 6 input kinds (list, string incl. non-ASCII, vector, \
                bytes, dict keys, finite stream as range or lazy_map) x lengths 0..8 (0, 1, 2 over-sampled) with \
                repeated / mixed-type elements, numeric parameters {0, -1, len, len+1, 1..4}, function arguments \
                from 31 named lambdas (constant, identity, comparison, modulo, raising at a chosen element, \
                wrong arity, non-numeric comparator ...); a case is non-trivial when the input has >= 2 elements \
                or is not a list; distinct = distinct (call, arguments)"
        .into();
    let mut w = Worker::spawn();

    if let Some(path) = &args.replay {
        let text = std::fs::read_to_string(path).expect("replay file");
        for line in text.lines() {
            let line = line.trim();
            let rest = match line.strip_prefix("case: ").or_else(|| line.strip_prefix("input: case: ")) {
                Some(r) => r,
                None => continue,
            };
            let (sorted, rest) = match rest.strip_prefix("sorted! ") {
                Some(r) => (true, r),
                None => (false, rest),
            };
            const OPS: &[&str] = &["zip", "ziplongest", "with", "**", "merge"];
            let (chain, rest): (Option<Vec<&'static str>>, &str) = match rest.strip_prefix("chain!") {
                Some(r) => {
                    let mut p = r.splitn(2, ' ');
                    let ops = p.next().unwrap_or("");
                    let ops: Vec<&'static str> =
                        ops.split(',').filter_map(|o| OPS.iter().find(|x| **x == o).copied()).collect();
                    (Some(ops), p.next().unwrap_or(""))
                }
                None => (None, rest),
            };
            let (form, counted, rest): (u8, bool, &str) = match rest.strip_prefix("form!") {
                Some(r) => {
                    let mut p = r.splitn(2, ' ');
                    let tag = p.next().unwrap_or("0");
                    let counted = tag.ends_with('c');
                    let form = tag.trim_end_matches('c').parse().unwrap_or(0);
                    (form, counted, p.next().unwrap_or(""))
                }
                None => (0, false, rest),
            };
            match parse_case(rest) {
                Some((name, cargs)) => {
                    let name: &'static str = Box::leak(name.into_boxed_str());
                    let c = Case { name, args: cargs, sorted, chain, form, counted };
                    let (src, cls, detail, req) = run_case(&mut w, &c);
                    println!("source: {}", src);
                    println!("rust: {}   ({})", cls, detail);
                    println!("request: {}", req);
                    let r = run_driver(&args.driver, &[req]);
                    println!("model (impl <tab> spec): {}", r[0]);
                }
                None => println!("cannot parse case line: {}", rest),
            }
        }
        return;
    }

    let (n_cases, max_len) = match args.tier.as_str() {
        "thorough" => (480_000usize, 9usize),
        _ => (12_000usize, 8usize),
    };
    let mut rng = Rng::new(args.seed);
    let mut cases = corpus();
    let mut i = 0usize;
    while cases.len() < n_cases {
        let mut c = gen_case(&mut rng, i % N_FAMILIES, max_len);
        tame_fracs(&mut c);
        apply_forms(&mut rng, &mut c);
        cases.push(c);
        i += 1;
    }

    let mut srcs = vec![];
    let mut rust = vec![];
    let mut reqs = vec![];
    for c in &cases {
        let (src, cls, detail, req) = run_case(&mut w, c);
        let first_kind = c
            .args
            .iter()
            .find_map(|a| match a {
                A::V(v @ (V::List(_) | V::Str(_) | V::Bytes(_) | V::Vector(_) | V::Stream(..) | V::Dict(_) | V::Map(_))) => Some(v),
                _ => None,
            })
            .map(|v| (if matches!(v, V::Stream(_, c) if *c >= 2) { "stream(seq)" } else { kind_of(v) }, len_of(v)))
            .unwrap_or(("none", 0));
        rep.case(&req, first_kind.1 >= 2 || (first_kind.0 != "list" && first_kind.0 != "none"));
        rep.arm(&format!(
            "{}:{}",
            match &c.chain {
                Some(ops) => format!("chain {}", ops.join(" ")),
                None => c.name.to_string(),
            },
            first_kind.0
        ));
        rep.outcome(cls.split(' ').next().unwrap_or("?"));
        srcs.push((src, detail));
        rust.push(cls);
        reqs.push(req);
    }
    let resp = run_driver(&args.driver, &reqs);
    for i in 0..cases.len() {
        let (impl_, spec) = split_resp(&resp[i]);
        let input = format!(
            "case: {}{}\nsource: {}\nrequest: {}\nrust-detail: {}",
            if cases[i].sorted { "sorted! " } else { "" },
            format!(
                "{}{}",
                match &cases[i].chain {
                    Some(ops) => format!("chain!{} ", ops.join(",")),
                    None if cases[i].form != 0 || cases[i].counted => {
                        format!("form!{}{} ", cases[i].form, if cases[i].counted { "c" } else { "" })
                    }
                    None => String::new(),
                },
                case_text(cases[i].name, &cases[i].args)
            ),
            srcs[i].0,
            reqs[i],
            srcs[i].1
        );
        rep.judge(&key_of(&cases[i]), &input, &rust[i], &impl_, &spec);
    }
    rep.notes.push(format!("worker restarts (hang / abort of the interpreter): {}", w.restarts));
    rep.notes.push(
        "dict inputs: iteration order is unspecified in Rust; the harness reads the order of the very same dict \
         value (`list(D)`) in the same interpreter and gives that order to the model; results that are dicts \
         (frequencies, classify) are compared sorted by key; group_all (HashMap::into_values) is compared as a \
         multiset of groups (both sides sorted by rendered text)"
            .into(),
    );
    rep.write(&args.out);
}
