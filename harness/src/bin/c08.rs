//! C08 correspondence: equality / ordering of the real interpreter vs the Impl model
//! (NNumCmp.lean + ObjCmp.lean) vs the Spec (exact values), over pool x pool for the six comparison
//! operators, `<=>`, `>=<`, `min`, `max`, over sampled lists for `sort`/`min`/`max`, and for the
//! Rust API `NNum::min` / `NNum::max` / `NNum::total_eq` directly.
use noulith::nnum::NNum;
use noulith::{Obj, Seq};
use num::bigint::BigInt;
use num::rational::BigRational;
use num::{One, Signed, Zero};
use vharness::*;

const OPS: &[&str] = &["==", "!=", "<", "<=", ">", ">=", "<=>", ">=<"];

#[derive(Clone)]
struct Elem {
    src: String,
    canon: String,
    class: String,
    kind: &'static str, // num | str | bytes | list | vec | dict | null | func
    sort_family: &'static str,
    obj: Obj,
}

fn f64_nan_free(n: &NNum) -> bool {
    match n {
        NNum::Float(f) => !f.is_nan(),
        NNum::Complex(z) => !z.re.is_nan() && !z.im.is_nan(),
        _ => true,
    }
}

fn classify(o: &Obj) -> (String, &'static str, &'static str) {
    match o {
        Obj::Null => ("null".into(), "null", "other"),
        Obj::Num(n) => {
            let c = match n {
                NNum::Int(_) => "int",
                NNum::Rational(_) => "rat",
                NNum::Float(f) => {
                    if f.is_nan() {
                        "nan"
                    } else if f.is_infinite() {
                        "inf"
                    } else {
                        "float"
                    }
                }
                NNum::Complex(z) => {
                    if z.re.is_nan() || z.im.is_nan() {
                        "cnan"
                    } else {
                        "complex"
                    }
                }
            };
            (c.into(), "num", if f64_nan_free(n) { "num" } else { "other" })
        }
        Obj::Seq(Seq::String(_)) => ("str".into(), "str", "str"),
        Obj::Seq(Seq::Bytes(_)) => ("bytes".into(), "bytes", "bytes"),
        Obj::Seq(Seq::Vector(v)) => ("vec".into(), "vec", if v.iter().all(f64_nan_free) { "vec" } else { "other" }),
        Obj::Seq(Seq::List(v)) => {
            let flat = v.iter().all(|e| matches!(e, Obj::Num(n) if f64_nan_free(n)));
            ("list".into(), "list", if flat { "numlist" } else { "other" })
        }
        Obj::Seq(Seq::Dict(..)) => ("dict".into(), "dict", "other"),
        Obj::Seq(Seq::Stream(_)) => ("stream".into(), "func", "other"),
        Obj::Func(..) => ("func".into(), "func", "other"),
        Obj::Instance(..) => ("inst".into(), "func", "other"),
    }
}

fn int_src(v: &BigInt) -> String {
    if v.is_negative() {
        format!("(0-{})", -v)
    } else {
        format!("{}", v)
    }
}
fn rat_src(n: &BigInt, d: &BigInt) -> String {
    format!("({}/{})", int_src(n), d)
}
fn float_src(f: f64) -> String {
    if f.is_nan() {
        "(0.0/0.0)".into()
    } else if f.is_infinite() {
        if f > 0.0 { "float(\"inf\")".into() } else { "float(\"-inf\")".into() }
    } else if f == 0.0 && f.is_sign_negative() {
        "(-0.0)".into()
    } else {
        format!("float(\"{:e}\")", f)
    }
}

fn base_pool_srcs() -> Vec<String> {
    let mut v: Vec<String> = vec![];
    let s = |x: &str| x.to_string();
    // integers around 2^53, 2^63 and far beyond, both representations
    for x in [
        "0", "1", "(0-1)", "2", "3", "(7^1)", "(2^70+5-2^70)", "2^53-1", "2^53", "2^53+1", "2^53+2", "2^63-1", "2^63",
        "2^63+1", "(0-2^63)", "(0-2^63-1)", "2^64", "2^64+1", "2^100", "2^100+1", "10^30", "2^1024", "(0-2^1024)",
        "2^1023", "(2^1024-2^970)", "(2^1024-2^970+1)",
        // every machine-word boundary in BOTH representations: literals are Small, `^`, differences of
        // big values and `n^1` are Big (also when the value fits an i64)
        "(0-9223372036854775807-1)", "((0-2)^63)", "((0-9223372036854775807-1)^1)", "9223372036854775807",
        "(9223372036854775807^1)", "(0-9223372036854775807)", "(0-2^63+1)", "9223372036854775806", "(2^63-2)",
        "9007199254740992", "9007199254740993", "9007199254740991", "2147483648", "(2147483648^1)", "(0-2147483648)",
        "((0-2147483648)^1)", "2147483647", "(2^31-1)", "4294967296", "(0^1)", "(2^70+0-2^70)", "(1^1)", "(2^70-1-2^70)",
        "((0-1)^1)", "(2^1)", "(2^63-1024)", "(0-2^63-2048)", "2^64-1", "2^64-2048", "2^31", "2^32",
    ] {
        v.push(s(x));
    }
    // floats incl. +-0, +-inf, NaN, extremes
    for x in [
        "0.0", "(-0.0)", "1.0", "(-1.0)", "0.5", "1.5", "2.5", "0.1", "0.3333333333333333", "9007199254740992.0",
        "9007199254740994.0", "9223372036854775808.0", "(-9223372036854775808.0)", "18446744073709551616.0",
        "float(\"1267650600228229401496703205376\")", "1e30", "1.7976931348623157e308", "5e-324",
        "float(\"inf\")", "float(\"-inf\")", "(0.0/0.0)", "7.0", "5.0", "9223372036854774784.0", "(0-9223372036854777856.0)",
        "18446744073709549568.0", "2147483648.0", "4294967296.0",
    ] {
        v.push(s(x));
    }
    // fractions: integral-valued, exactly a float's value, one "ulp of the fraction" away from it
    for x in [
        "(2^63/1)", "((0-2^63)/1)", "((2^63-1)/1)", "(1/2)", "(1/3)", "(2/2)", "(3/2)", "(5/2)", "((0-1)/2)", "(1/10)", "(0/5)",
        "(3602879701896397/36028797018963968)",     // the exact value of 0.1
        "(6004799503160661/18014398509481984)",     // the exact value of 0.3333333333333333
        "(6004799503160661000001/18014398509481984000000)",
        "(6004799503160660999999/18014398509481984000000)",
        "((2^54+1)/2)", "(2^64/1)", "(10^30/1)", "((2^53+1)/1)", "(7/1)", "((2^1024*3+1)/3)",
    ] {
        v.push(s(x));
    }
    // complex
    for x in ["(1+0i)", "(1+1i)", "(1+2i)", "1i", "(2.5+0i)", "(0.5+0i)", "((0.0/0.0)+1i)", "(1+(0.0/0.0)*1i)", "(2+1i)", "(1-1i)", "(7+0i)", "(9223372036854775808.0+0i)", "(0-9223372036854775808.0+0i)",
        "(-(1+0i))", "(-(0.0+0i))", "(-(0.5+0i))", "(0-(1+0i))", "(-(1+1i))"] {
        v.push(s(x));
    }
    // other kinds
    for x in [
        "null", "(\\x -> x)", "\"\"", "\"a\"", "\"ab\"", "\"b\"", "\"\u{e9}\"", "\"z\"", "\"\u{10000}\"", "\"\u{ffff}\"",
        "B\"\"", "B\"a\"", "B\"ab\"", "[]", "[1]", "[1, 2]", "[1, 2.0]", "[1.0, 2]", "[1, [2]]", "[1, \"a\"]",
        "[0.0/0.0]", "[1, 0.0/0.0]", "[2, 0.0/0.0]", "[\"a\"]", "[[1]]", "[[1.0]]", "[1/2]", "[0.5]", "[2^53+1]",
        "[9007199254740992.0]", "[1, 2, 3]", "[2]", "[0-9223372036854775807-1]", "[0-2^63]", "[0-9223372036854775808.0]",
        "[9223372036854775807]", "[2^63-1]", "[1, 0-9223372036854775807-1]", "[1.0, 0-2^63]", "V(0-9223372036854775807-1)", "V(0-2^63)",
        "V(0-9223372036854775808.0)", "V(9223372036854775807)", "V(2^63-1)", "V()", "V(1, 2)", "V(1.0, 2)", "V(1, 3)", "V(1/2)", "V(0.5)",
        "V(0.0/0.0)", "{}", "{1: 0.0/0.0}", "{1: [0.0/0.0]}", "{1: {2: 0.0/0.0}}", "[{1: 0.0/0.0}]", "[1, {2: [0.0/0.0]}]", "{0.0/0.0: 1}", "{1: 2}", "{1.0: 2}", "{1: 3}", "{1: 2, \"a\": 3}",
    ] {
        v.push(s(x));
    }
    v
}

/// random numbers aimed at the boundaries: a float, its integer neighbours, its exact fraction and
/// fractions infinitesimally close to it; powers of two +-1 and their floats
fn random_number_srcs(rng: &mut Rng, n: usize) -> Vec<String> {
    let mut v = vec![];
    while v.len() < n {
        match rng.below(7) {
            0 | 1 | 2 => {
                // random float with a chosen exponent class
                let ex: u64 = match rng.below(6) {
                    0 => 1023 + rng.below(4),            // around 1
                    1 => 1023 + 50 + rng.below(6),       // around 2^53
                    2 => 1023 + 61 + rng.below(5),       // around 2^63
                    3 => rng.below(2047),                // anywhere
                    4 => 0,                              // subnormal
                    _ => 1023 - rng.below(8),
                };
                let mant = if rng.chance(1, 4) { rng.below(4) } else { rng.below(1 << 52) };
                let bits = (rng.below(2) << 63) | (ex << 52) | mant;
                let f = f64::from_bits(bits);
                v.push(float_src(f));
                if let Some(r) = BigRational::from_float(f) {
                    let fl = r.floor().to_integer();
                    match rng.below(6) {
                        0 => v.push(int_src(&fl)),
                        1 => v.push(int_src(&(fl + 1))),
                        2 => v.push(rat_src(r.numer(), r.denom())),
                        3 => {
                            let k = BigInt::from(1000003u64);
                            v.push(rat_src(&(r.numer() * &k + 1), &(r.denom() * &k)));
                        }
                        4 => {
                            let k = BigInt::from(1000003u64);
                            v.push(rat_src(&(r.numer() * &k - 1), &(r.denom() * &k)));
                        }
                        _ => {
                            if r.is_integer() {
                                v.push(format!("({}+0i)", float_src(f)));
                            }
                        }
                    }
                }
            }
            3 => {
                let k = rng.below(1100) as usize;
                let p = num::pow(BigInt::from(2), k);
                let d = rng.range(-1, 1);
                let x = if rng.chance(1, 2) { p + d } else { -(p + d) };
                v.push(if rng.chance(1, 3) { format!("({}^1)", int_src(&x)) } else { int_src(&x) });
                if k < 1024 {
                    v.push(if rng.chance(1, 2) { format!("2.0^{}", k) } else { format!("(0-2.0^{})", k) });
                }
            }
            4 => {
                let n = BigInt::from(rng.range(-40, 40));
                let d = BigInt::from(rng.range(1, 12));
                v.push(rat_src(&n, &d));
            }
            5 => {
                let a = rng.range(-3, 3);
                let b = rng.range(-2, 2);
                let re = if rng.chance(1, 2) { format!("{}.5", a.abs()) } else { format!("{}", a.abs()) };
                v.push(format!("({}{}{}{}i)", if a < 0 { "0-" } else { "" }, re, if b < 0 { "-" } else { "+" }, b.abs()));
            }
            _ => {
                v.push(format!("{}", rng.range(-5, 5)));
            }
        }
    }
    v.into_iter().map(|s| if s.starts_with('-') { format!("(0{})", s) } else { s }).collect()
}

fn random_seq_srcs(rng: &mut Rng, nums: &[String], n: usize) -> Vec<String> {
    let mut v = vec![];
    let strs = ["a", "b", "ab", "", "z", "\u{e9}", "\u{10000}", "aa", "A"];
    for _ in 0..n {
        let len = rng.below(4) as usize;
        match rng.below(5) {
            0 | 1 => {
                let items: Vec<String> = (0..len).map(|_| rng.pick(nums).clone()).collect();
                v.push(format!("[{}]", items.join(", ")));
            }
            2 => {
                let items: Vec<String> = (0..len).map(|_| rng.pick(nums).clone()).collect();
                v.push(format!("V({})", items.join(", ")));
            }
            3 => {
                let s: String = (0..len).map(|_| *rng.pick(&strs)).collect::<Vec<_>>().join("");
                v.push(format!("{:?}", s).replace("\\u{e9}", "\u{e9}"));
            }
            _ => {
                let items: Vec<String> = (0..len)
                    .map(|_| if rng.chance(1, 2) { rng.pick(nums).clone() } else { format!("{:?}", rng.pick(&strs)) })
                    .collect();
                v.push(format!("[{}]", items.join(", ")));
            }
        }
    }
    v
}

fn out_class(o: &Outcome) -> &'static str {
    match o {
        Outcome::Ok(_) => "ok",
        Outcome::Throw(_) => "throw",
        Outcome::Panic(_) => "panic",
        _ => "other",
    }
}

struct Case {
    key: String,
    input: String,
    request: String,
    rust: String,
    nontrivial: bool,
}

fn api_call(which: &str, a: &Obj, b: &Obj) -> String {
    match (a, b) {
        (Obj::Num(x), Obj::Num(y)) => {
            let r = std::panic::catch_unwind(std::panic::AssertUnwindSafe(|| match which {
                "nmin" => canon_num(x.min(y)),
                "nmax" => canon_num(x.max(y)),
                _ => (if x.total_eq(y) { "1" } else { "0" }).to_string(),
            }));
            match r {
                Ok(s) => format!("ok {}", s),
                Err(_) => "panic".into(),
            }
        }
        _ => "throw".into(),
    }
}

fn main() {
    let args = parse_args();
    install_quiet_panic_hook();
    let mut rep = Report::new("C08", &args);
    let interp = Interp::new();

    if let Some(path) = &args.replay {
        let text = std::fs::read_to_string(path).expect("replay file");
        for line in text.lines() {
            if let Some(rest) = line.strip_prefix("input: ") {
                if let Some(api) = rest.strip_prefix("#api ") {
                    let parts: Vec<&str> = api.splitn(2, ' ').collect();
                    let ops: Vec<&str> = parts[1].split(" ;; ").collect();
                    let a = interp.eval_obj(ops[0]);
                    let b = interp.eval_obj(ops[1]);
                    if let (Ok(a), Ok(b)) = (a, b) {
                        println!("rust: {}", api_call(parts[0], &a, &b));
                    }
                } else {
                    println!("rust: {}", interp.eval(rest).detail());
                }
            }
            if let Some(rest) = line.strip_prefix("request: ") {
                let r = run_driver(&args.driver, &[rest.to_string()]);
                println!("model (impl, spec): {}", r[0]);
            }
        }
        return;
    }


    // ---- corpus first: minimised past disagreements, `<driver request> TAB <source>` per line
    {
        let dir = concat!(env!("CARGO_MANIFEST_DIR"), "/../corpus/C08");
        let mut reqs = vec![];
        let mut srcs = vec![];
        if let Ok(rd) = std::fs::read_dir(dir) {
            let mut files: Vec<_> = rd.filter_map(|e| e.ok()).map(|e| e.path()).collect();
            files.sort();
            for f in files {
                if let Ok(text) = std::fs::read_to_string(&f) {
                    for line in text.lines() {
                        if line.starts_with('#') || !line.contains('\t') {
                            continue;
                        }
                        let mut it = line.splitn(2, '\t');
                        reqs.push(it.next().unwrap().to_string());
                        srcs.push(it.next().unwrap().to_string());
                    }
                }
            }
        }
        let resp = run_driver(&args.driver, &reqs);
        for i in 0..reqs.len() {
            let rust = Interp::new().eval(&srcs[i]).class();
            rep.case(&srcs[i], true);
            rep.arm("corpus");
            let parts: Vec<&str> = resp[i].split('\t').collect();
            let full = format!("{}\nrequest: {}", srcs[i], reqs[i]);
            if parts.len() < 2 {
                rep.judge("corpus", &full, &rust, &resp[i], &resp[i]);
            } else {
                rep.judge("corpus", &full, &rust, parts[0], parts[1]);
            }
        }
    }

    let thorough = args.tier == "thorough";
    let mut rng = Rng::new(args.seed);
    let (n_rand_nums, n_rand_seqs, n_sorts, n_ext) = if thorough { (230, 60, 200_000, 60_000) } else { (24, 10, 4_500, 2_000) };
    rep.rule = format!(
        "pool = {} hand-picked values (ints around 2^53/2^63/2^64/2^1024 in both representations, floats incl. +-0, \
         +-inf, NaN, max, min subnormal, fractions equal to / one part in 10^6 ulp away from floats, integral fractions, \
         complex incl. NaN parts, strings incl. non-ASCII, bytes, lists, vectors, dicts, null, a function) + {} seeded random \
         boundary numbers (random floats with their integer neighbours, exact fractions and near fractions; 2^k+-1 and \
         2.0^k) + {} random lists/vectors/strings of them; ALL ordered pairs x (== != < <= > >= <=> >=< min max) + \
         NNum::min/max/total_eq through the Rust API on all numeric pairs; {} sort and {} sort_on / sort-with-comparator cases (key functions id, neg, abs, len, first, const, pair, raising; comparators <=>, reversed, >=<, halved, by len, const, non-number, raising; lists from one comparable \
         family, 15% with one incomparable intruder; strings, bytes, vectors, dict keys) and {} n-ary min/max cases; \
         non-trivial = operands of different numeric levels / nested / non-finite or an error outcome",
        base_pool_srcs().len(), n_rand_nums, n_rand_seqs, n_sorts, n_sorts, n_ext
    );

    // ---- the pool
    let mut srcs = base_pool_srcs();
    let rn = random_number_srcs(&mut rng, n_rand_nums);
    let numeric_srcs: Vec<String> = {
        let mut x: Vec<String> = srcs.iter().take_while(|s| s.as_str() != "null").cloned().collect();
        x.extend(rn.iter().cloned());
        x
    };
    srcs.extend(rn);
    srcs.extend(random_seq_srcs(&mut rng, &numeric_srcs, n_rand_seqs));
    let mut pool: Vec<Elem> = vec![];
    let mut seen = std::collections::HashSet::new();
    for src in srcs {
        if !seen.insert(src.clone()) {
            continue;
        }
        match interp.eval_obj(&src) {
            Ok(obj) => {
                let c = canon(&obj);
                let (class, kind, fam) = classify(&obj);
                let idx = pool.len();
                if let Outcome::Ok(_) = interp.eval(&format!("p{} := {}", idx, src)) {
                    pool.push(Elem { src, canon: c, class, kind, sort_family: fam, obj });
                } else {
                    rep.notes.push(format!("could not bind pool element {}", src));
                }
            }
            Err(e) => rep.notes.push(format!("pool element {} does not evaluate: {}", src, e.detail())),
        }
    }
    rep.notes.push(format!("pool size {}", pool.len()));

    let mut cases: Vec<Case> = vec![];
    // ---- all ordered pairs
    for (i, a) in pool.iter().enumerate() {
        for (j, b) in pool.iter().enumerate() {
            let nontrivial = a.class != b.class || a.kind != "num" || a.class == "inf" || a.class == "nan";
            for op in OPS {
                let out = interp.eval(&format!("p{} {} p{}", i, op, j));
                cases.push(Case {
                    key: format!("{}({},{})", op, a.class, b.class),
                    input: format!("{} {} {}", a.src, op, b.src),
                    request: format!("op {} {} {}", op, a.canon, b.canon),
                    rust: out.class(),
                    nontrivial,
                });
            }
            if a.kind != "func" && b.kind != "func" {
                for which in ["min", "max"] {
                    let out = interp.eval(&format!("{}(p{}, p{})", which, i, j));
                    cases.push(Case {
                        key: format!("{}({},{})", which, a.class, b.class),
                        input: format!("{}({}, {})", which, a.src, b.src),
                        request: format!("ext {} [{},{}]", which, a.canon, b.canon),
                        rust: out.class(),
                        nontrivial,
                    });
                }
            }
            if a.kind == "num" && b.kind == "num" {
                for which in ["nmin", "nmax", "teq"] {
                    cases.push(Case {
                        key: format!("{}({},{})", which, a.class, b.class),
                        input: format!("#api {} {} ;; {}", which, a.src, b.src),
                        request: format!("{} {} {}", which, a.canon, b.canon),
                        rust: api_call(which, &a.obj, &b.obj),
                        nontrivial,
                    });
                }
            }
        }
    }

    // ---- sort
    let fams = ["num", "str", "bytes", "vec", "numlist"];
    let by_fam: Vec<Vec<usize>> = fams.iter().map(|f| (0..pool.len()).filter(|&i| pool[i].sort_family == *f).collect()).collect();
    for _ in 0..n_sorts {
        let fi = if rng.chance(3, 5) { 0 } else { rng.below(fams.len() as u64) as usize };
        let members = &by_fam[fi];
        if members.is_empty() {
            continue;
        }
        let len = match rng.below(10) {
            0 => rng.below(2),
            1 => 3,
            2..=6 => 3 + rng.below(4),
            _ => 6 + rng.below(if thorough { 30 } else { 12 }),
        } as usize;
        let mut idx: Vec<usize> = (0..len).map(|_| *rng.pick(members)).collect();
        // many equal-valued elements of different levels make stability observable
        if rng.chance(1, 3) && len >= 2 {
            let k = idx[0];
            let twins: Vec<usize> = members.iter().cloned().filter(|&m| matches!(interp.eval(&format!("p{} == p{}", m, k)), Outcome::Ok(ref s) if s == "1")).collect();
            for slot in idx.iter_mut().skip(1) {
                if rng.chance(1, 2) {
                    *slot = *rng.pick(&twins);
                }
            }
        }
        let mut intruder = false;
        if len >= 2 && rng.chance(15, 100) {
            // one element incomparable with everything: another kind, or a float NaN among numbers
            let cands: Vec<usize> = (0..pool.len())
                .filter(|&i| pool[i].kind != pool[members[0]].kind || (fams[fi] == "num" && pool[i].class == "nan"))
                .collect();
            let pos = rng.below(len as u64) as usize;
            idx[pos] = *rng.pick(&cands);
            intruder = true;
        }
        let out = interp.eval(&format!("sort([{}])", idx.iter().map(|i| format!("p{}", i)).collect::<Vec<_>>().join(", ")));
        cases.push(Case {
            key: format!("sort({}{})", fams[fi], if intruder { "+intruder" } else { "" }),
            input: format!("sort([{}])", idx.iter().map(|&i| pool[i].src.clone()).collect::<Vec<_>>().join(", ")),
            request: format!("sort [{}]", idx.iter().map(|&i| pool[i].canon.clone()).collect::<Vec<_>>().join(",")),
            rust: out.class(),
            nontrivial: true,
        });
    }
    // sort applied to strings / bytes / vectors / dicts of the pool themselves
    for (i, e) in pool.iter().enumerate() {
        if matches!(e.kind, "str" | "bytes" | "vec" | "dict" | "list" | "null" | "num") && (e.sort_family != "other" || e.kind == "dict" || e.kind == "null") {
            let out = interp.eval(&format!("sort(p{})", i));
            cases.push(Case {
                key: format!("sort-whole({})", e.class),
                input: format!("sort({})", e.src),
                request: format!("sort {}", e.canon),
                rust: out.class(),
                nontrivial: true,
            });
        }
    }

    // ---- sort_on(xs, f) / sort(xs, f) with f from the finite tables the model knows
    let key_fns: [(&str, &str); 8] = [
        ("id", "\\x -> x"), ("neg", "\\x -> -x"), ("abs", "abs"), ("len", "len"), ("first", "first"),
        ("const0", "\\x -> 0"), ("pair0", "\\x -> [x, 0]"), ("fail", "\\x -> throw \"no\""),
    ];
    let cmp_fns: [(&str, &str); 8] = [
        ("cmp", "\\a, b -> a <=> b"), ("rcmp", "\\a, b -> b <=> a"), ("revop", "\\a, b -> a >=< b"),
        ("half", "\\a, b -> (a <=> b) / 2"), ("bylen", "\\a, b -> len(a) <=> len(b)"), ("const0", "\\a, b -> 0"),
        ("str", "\\a, b -> \"x\""), ("fail", "\\a, b -> throw \"no\""),
    ];
    let real_members: Vec<usize> = by_fam[0].iter().cloned().filter(|&i| pool[i].class != "complex").collect();
    for _ in 0..n_sorts {
        let on = rng.chance(3, 5);
        let (fname, fsrc) = if on { *rng.pick(&key_fns) } else { *rng.pick(&cmp_fns) };
        // a family the function is meaningful on
        let fi = match fname {
            "abs" | "neg" | "half" => if rng.chance(4, 5) { 0 } else { 3 },
            "len" | "bylen" => *rng.pick(&[1usize, 2, 3, 4]),
            "first" => *rng.pick(&[3usize, 4]),
            _ => if rng.chance(1, 2) { 0 } else { rng.below(fams.len() as u64) as usize },
        };
        let members: &Vec<usize> = if fname == "abs" && fi == 0 { &real_members } else { &by_fam[fi] };
        if members.is_empty() {
            continue;
        }
        let len = match rng.below(8) {
            0 => rng.below(2),
            1..=5 => 2 + rng.below(5),
            _ => 6 + rng.below(if thorough { 24 } else { 10 }),
        } as usize;
        let mut idx: Vec<usize> = (0..len).map(|_| *rng.pick(members)).collect();
        // vectors holding complex numbers are outside the modelled fragment of abs
        if fname == "abs" && idx.iter().any(|&i| pool[i].canon.contains("c:")) {
            continue;
        }
        let mut intruder = false;
        if len >= 2 && rng.chance(12, 100) {
            let cands: Vec<usize> = (0..pool.len())
                .filter(|&i| pool[i].kind != pool[members[0]].kind && pool[i].kind != "func" && !(fname == "abs" && pool[i].canon.contains("c:")))
                .collect();
            let pos = rng.below(len as u64) as usize;
            idx[pos] = *rng.pick(&cands);
            intruder = true;
        }
        // sort_on / sort also on a vector / bytes / string as a whole
        let whole = len >= 1 && rng.chance(1, 6) && !intruder && (fi == 1 || fi == 2 || fi == 3);
        let (expr_vars, expr_src, req_seq) = if whole {
            let i = idx[0];
            (format!("p{}", i), pool[i].src.clone(), pool[i].canon.clone())
        } else {
            (
                format!("[{}]", idx.iter().map(|i| format!("p{}", i)).collect::<Vec<_>>().join(", ")),
                format!("[{}]", idx.iter().map(|&i| pool[i].src.clone()).collect::<Vec<_>>().join(", ")),
                format!("[{}]", idx.iter().map(|&i| pool[i].canon.clone()).collect::<Vec<_>>().join(",")),
            )
        };
        if whole && (fname == "first" || fname == "len" || fname == "bylen" || ((fname == "abs" || fname == "neg") && fi != 3)) {
            continue; // elements of a string / bytes / vector are not sequences (and abs of a char raises trivially)
        }
        let builtin = if on { "sort_on" } else { "sort" };
        let out = interp.eval(&format!("{}({}, {})", builtin, expr_vars, fsrc));
        cases.push(Case {
            key: format!("{}-{}({}{}{})", builtin, fname, fams[fi], if intruder { "+intruder" } else { "" }, if whole { ",whole" } else { "" }),
            input: format!("{}({}, {})", builtin, expr_src, fsrc),
            request: format!("{} {} {}", if on { "sorton" } else { "sortby" }, fname, req_seq),
            rust: out.class(),
            nontrivial: true,
        });
    }

    // ---- incomparable pairs HIDDEN behind an equal prefix: nested lists / vectors / complex numbers in
    // which two elements are incomparable only after an equal first component, the others compare
    // with both; every 3-element and 4-element selection in every order, sampled 5-element ones.
    // `sort`, `sort_on`, `sort` with a comparator must raise iff SOME pair is incomparable (the
    // property: incomparable values raise, never an arbitrary answer); `min`/`max` compare each element
    // with the running result only (the model mirrors that loop).
    {
        let groups: Vec<Vec<&str>> = vec![
            vec!["[1, \"a\"]", "[1, 5]", "[2, 3]", "[0, 1]", "[1, 5.0]", "[2, \"b\"]"],
            vec!["[1, 0.0/0.0]", "[1, 0]", "[2, 0]", "[0, 0]", "[1, 0.0/0.0]", "[1]"],
            vec!["V(1, 0.0/0.0)", "V(1, 0)", "V(2, 0)", "V(0, 7)", "V(1)", "V(1, 1/2)"],
            vec!["[1, [2, \"a\"]]", "[1, [2, 3]]", "[1, [3]]", "[2]", "[1, [2, null]]", "[0, [\"z\"]]"],
            vec!["(1+(0.0/0.0)*1i)", "((0.0/0.0)+1i)", "(1+0i)", "(2+1i)", "1", "0.5"],
            vec!["[[1, 2], \"a\"]", "[[1, 2.0], 5]", "[[1, 3], 0]", "[[0], 9]", "[[1, 2], \"b\"]", "[[1, 2]]"],
            vec!["[\"k\", 1]", "[\"k\", \"x\"]", "[\"j\", 0]", "[\"l\", null]", "[\"k\", 2.5]", "[\"k\"]"],
        ];
        let ops: [(&str, &str, &str); 9] = [
            ("sort", "sort({L})", "sort {C}"),
            ("sort_on-id", "sort_on({L}, \\x -> x)", "sorton id {C}"),
            ("sort_on-pair0", "sort_on({L}, \\x -> [x, 0])", "sorton pair0 {C}"),
            ("sort-cmp", "sort({L}, \\a, b -> a <=> b)", "sortby cmp {C}"),
            ("sort-rcmp", "sort({L}, \\a, b -> b <=> a)", "sortby rcmp {C}"),
            ("sort-half", "sort({L}, \\a, b -> (a <=> b) / 2)", "sortby half {C}"),
            ("max", "max({L})", "ext max {C}"),
            ("min", "min({L})", "ext min {C}"),
            ("sort_on-const0", "sort_on({L}, \\x -> 0)", "sorton const0 {C}"),
        ];
        fn perms(items: &[usize]) -> Vec<Vec<usize>> {
            if items.len() <= 1 {
                return vec![items.to_vec()];
            }
            let mut out = vec![];
            for i in 0..items.len() {
                let mut rest = items.to_vec();
                let x = rest.remove(i);
                for mut p in perms(&rest) {
                    p.insert(0, x);
                    out.push(p);
                }
            }
            out
        }
        let mut hidden = 0u64;
        for (gi, g) in groups.iter().enumerate() {
            let elems: Vec<(String, String)> = g
                .iter()
                .filter_map(|src| interp.eval_obj(src).ok().map(|o| (src.to_string(), canon(&o))))
                .collect();
            if elems.len() != g.len() {
                rep.notes.push(format!("hidden-incomparability group {} has elements that do not evaluate", gi));
            }
            let n = elems.len();
            for mask in 1u32..(1 << n) {
                let sel: Vec<usize> = (0..n).filter(|i| mask & (1 << i) != 0).collect();
                if sel.len() < 3 || sel.len() > 5 {
                    continue;
                }
                for (pi, p) in perms(&sel).into_iter().enumerate() {
                    // all orders of 3 and 4 elements; of the 120 orders of 5 elements a sample
                    if sel.len() == 5 && !(thorough || (pi + mask as usize) % 6 == 0) {
                        continue;
                    }
                    let l_src = format!("[{}]", p.iter().map(|&i| elems[i].0.clone()).collect::<Vec<_>>().join(", "));
                    let l_can = format!("[{}]", p.iter().map(|&i| elems[i].1.clone()).collect::<Vec<_>>().join(","));
                    for (oi, (name, tmpl, req)) in ops.iter().enumerate() {
                        // every order gets sort; the other operations rotate
                        if oi != 0 && (pi + oi) % 3 != 0 && !thorough {
                            continue;
                        }
                        let src = tmpl.replace("{L}", &l_src);
                        let out = interp.eval(&src);
                        cases.push(Case {
                            key: format!("hidden-{}(g{})", name, gi),
                            input: src,
                            request: req.replace("{C}", &l_can),
                            rust: out.class(),
                            nontrivial: true,
                        });
                        hidden += 1;
                    }
                }
            }
        }
        let raised = cases.iter().filter(|c| c.key.starts_with("hidden-") && c.rust == "throw").count();
        rep.notes.push(format!("hidden-incomparability cases: {} ({} raised)", hidden, raised));
    }

    // ---- ARGUMENT FORMS: comparison operators called with 0-5 operands (plain and splat), infix
    // chains (same and mixed operators), `sort(xs) == xs`; and every form that reaches an extremum
    {
        let n_forms = if thorough { 60_000 } else { 4_000 };
        interp.eval("zz := null");
        let six = ["==", "!=", "<", "<=", ">", ">="];
        let nums = &by_fam[0];
        let any: Vec<usize> = (0..pool.len()).filter(|&i| pool[i].kind != "func").collect();
        for it in 0..n_forms {
            let len = rng.below(6) as usize;
            let fam = if rng.chance(3, 4) { nums } else { &by_fam[rng.below(fams.len() as u64) as usize] };
            if fam.is_empty() {
                continue;
            }
            let mut idx: Vec<usize> = (0..len).map(|_| *rng.pick(fam)).collect();
            // runs of equal values of different levels, ascending stretches, and an incomparable
            // operand at a random position
            if len >= 2 && rng.chance(1, 3) {
                let mut sorted_idx = idx.clone();
                sorted_idx.sort_by(|&a, &b| {
                    match interp.eval(&format!("p{} <=> p{}", a, b)) {
                        Outcome::Ok(s) if s == "-1" => std::cmp::Ordering::Less,
                        Outcome::Ok(s) if s == "1" => std::cmp::Ordering::Greater,
                        _ => std::cmp::Ordering::Equal,
                    }
                });
                idx = sorted_idx;
                if rng.chance(1, 2) && len >= 3 {
                    // out of order only relative to the FIRST operand's neighbour: x1 < x3 < x2 pattern
                    idx.swap(len - 1, len - 2);
                }
            }
            if len >= 1 && rng.chance(1, 6) {
                let pos = rng.below(len as u64) as usize;
                idx[pos] = *rng.pick(&any);
            }
            let vars: Vec<String> = idx.iter().map(|i| format!("p{}", i)).collect();
            let srcs: Vec<String> = idx.iter().map(|&i| pool[i].src.clone()).collect();
            let can = format!("[{}]", idx.iter().map(|&i| pool[i].canon.clone()).collect::<Vec<_>>().join(","));
            let op = *rng.pick(&six);
            let mut push = |key: String, expr_v: String, expr_s: String, req: String, cases: &mut Vec<Case>| {
                let out = interp.eval(&expr_v);
                cases.push(Case { key, input: expr_s, request: req, rust: out.class(), nontrivial: true });
            };
            match it % 4 {
                0 => {
                    // call form, plain and splat
                    push(format!("call{}({})", len, op), format!("{}({})", op, vars.join(", ")), format!("{}({})", op, srcs.join(", ")), format!("call {} {}", op, can), &mut cases);
                    push(format!("call-splat{}({})", len, op), format!("{}(...[{}])", op, vars.join(", ")), format!("{}(...[{}])", op, srcs.join(", ")), format!("call {} {}", op, can), &mut cases);
                    if op == "<=" {
                        push("sort(xs)==xs".into(), format!("sort([{}]) == [{}]", vars.join(", "), vars.join(", ")), format!("sort([{}]) == [{}]", srcs.join(", "), srcs.join(", ")), format!("sortedeq {}", can), &mut cases);
                    }
                }
                1 => {
                    if len >= 2 {
                        // infix chain: the same operator, and mixed operators
                        let same = vars.join(&format!(" {} ", op));
                        push(format!("chain-same{}({})", len, op), same, srcs.join(&format!(" {} ", op)), format!("chain {} {}", vec![op; len - 1].join(","), can), &mut cases);
                        let ops: Vec<&str> = (0..len - 1).map(|_| *rng.pick(&six)).collect();
                        let mut ev = vars[0].clone();
                        let mut es = srcs[0].clone();
                        for k in 1..len {
                            ev = format!("{} {} {}", ev, ops[k - 1], vars[k]);
                            es = format!("{} {} {}", es, ops[k - 1], srcs[k]);
                        }
                        push(format!("chain-mixed{}", len), ev, es, format!("chain {} {}", ops.join(","), can), &mut cases);
                    }
                }
                2 => {
                    // extremum forms over the same operands
                    let which = if rng.chance(1, 2) { "min" } else { "max" };
                    let l_v = format!("[{}]", vars.join(", "));
                    let l_s = format!("[{}]", srcs.join(", "));
                    push(format!("{}-fold{}", which, len), format!("{} fold {}", l_v, which), format!("{} fold {}", l_s, which), format!("extfold {} {}", which, can), &mut cases);
                    push(format!("{}-cata{}", which, len), format!("for (x <- {}) yield x into {}", l_v, which), format!("for (x <- {}) yield x into {}", l_s, which), format!("cata {} {}", which, can), &mut cases);
                    push(format!("{}-list{}", which, len), format!("{}({})", which, l_v), format!("{}({})", which, l_s), format!("ext {} {}", which, can), &mut cases);
                    if len >= 2 {
                        push(format!("{}-args{}", which, len), format!("{}({})", which, vars.join(", ")), format!("{}({})", which, srcs.join(", ")), format!("ext {} {}", which, can), &mut cases);
                    }
                    if len == 2 {
                        push(format!("{}-infix", which), format!("{} {} {}", vars[0], which, vars[1]), format!("{} {} {}", srcs[0], which, srcs[1]), format!("extfold {} {}", which, can), &mut cases);
                        push(format!("{}-opassign", which), format!("(zz = {}; zz {}= {}; zz)", vars[0], which, vars[1]), format!("(zz := {}; zz {}= {}; zz)", srcs[0], which, srcs[1]), format!("extfold {} {}", which, can), &mut cases);
                    }
                    let (cname, csrc) = *rng.pick(&[("cmp", "\\a, b -> a <=> b"), ("rcmp", "\\a, b -> b <=> a"), ("half", "\\a, b -> (a <=> b) / 2"), ("const0", "\\a, b -> 0"), ("str", "\\a, b -> \"x\"")]);
                    push(format!("{}-by-{}{}", which, cname, len), format!("{}({}, {})", which, l_v, csrc), format!("{}({}, {})", which, l_s, csrc), format!("extby {} {} {}", which, cname, can), &mut cases);
                }
                _ => {
                    // per-key catamorphism: keys from a small set of equal spellings, values = the operands
                    let which = if rng.chance(1, 2) { "min" } else { "max" };
                    let kpool = ["0", "1", "1.0", "(2/2)", "\"a\"", "[1]", "[1.0]"];
                    let ks: Vec<&str> = (0..len).map(|_| *rng.pick(&kpool)).collect();
                    let kc: Vec<String> = ks.iter().map(|k| match interp.eval_obj(k) { Ok(o) => canon(&o), Err(_) => "null".into() }).collect();
                    let pv = format!("[{}]", (0..len).map(|k| format!("[{}, {}]", ks[k], vars[k])).collect::<Vec<_>>().join(", "));
                    let ps = format!("[{}]", (0..len).map(|k| format!("[{}, {}]", ks[k], srcs[k])).collect::<Vec<_>>().join(", "));
                    let pc = format!("[{}]", (0..len).map(|k| format!("[{},{}]", kc[k], pool[idx[k]].canon)).collect::<Vec<_>>().join(","));
                    push(format!("{}-cata-dict{}", which, len), format!("for (q <- {}) yield q[0]: q[1] into {}", pv, which), format!("for (q <- {}) yield q[0]: q[1] into {}", ps, which), format!("catad {} {}", which, pc), &mut cases);
                }
            }
        }
    }

    // ---- n-ary min / max
    let non_func: Vec<usize> = (0..pool.len()).filter(|&i| pool[i].kind != "func").collect();
    for _ in 0..n_ext {
        let which = if rng.chance(1, 2) { "min" } else { "max" };
        let len = 1 + rng.below(6) as usize;
        let fi = rng.below(fams.len() as u64 + 1) as usize;
        let idx: Vec<usize> = (0..len)
            .map(|_| if fi < fams.len() && !by_fam[fi].is_empty() && !rng.chance(1, 12) { *rng.pick(&by_fam[fi]) } else { *rng.pick(&non_func) })
            .collect();
        let as_list = rng.chance(1, 2) || len < 2;
        let vars = idx.iter().map(|i| format!("p{}", i)).collect::<Vec<_>>().join(", ");
        let srcs = idx.iter().map(|&i| pool[i].src.clone()).collect::<Vec<_>>().join(", ");
        let (e, inp) = if as_list { (format!("{}([{}])", which, vars), format!("{}([{}])", which, srcs)) } else { (format!("{}({})", which, vars), format!("{}({})", which, srcs)) };
        let out = interp.eval(&e);
        cases.push(Case {
            key: format!("{}-nary({})", which, if fi < fams.len() { fams[fi] } else { "mixed" }),
            input: inp,
            request: format!("ext {} [{}]", which, idx.iter().map(|&i| pool[i].canon.clone()).collect::<Vec<_>>().join(",")),
            rust: out.class(),
            nontrivial: true,
        });
    }

    // ---- the model
    let requests: Vec<String> = cases.iter().map(|c| c.request.clone()).collect();
    let resp = run_driver(&args.driver, &requests);
    for (c, r) in cases.iter().zip(resp.iter()) {
        let nontrivial = c.nontrivial || c.rust != "ok 0" && c.rust != "ok 1";
        rep.case(&c.input, nontrivial);
        let op = c.key.split('(').next().unwrap_or("");
        let group = match op {
            "==" | "!=" | "<" | "<=" | ">" | ">=" | "<=>" | ">=<" => "cmp",
            "min" | "max" => "ext",
            "nmin" | "nmax" | "teq" => "api",
            _ => "",
        };
        if group.is_empty() {
            rep.arm(&c.key);
        } else {
            let inner = c.key[op.len() + 1..c.key.len() - 1].to_string();
            let mut cl: Vec<&str> = inner.split(',').collect();
            cl.sort();
            rep.arm(&format!("{}:{}", group, cl.join(",")));
        }
        rep.outcome(if c.rust.starts_with("ok") { "ok" } else if c.rust == "throw" { "throw" } else { "panic" });
        let parts: Vec<&str> = r.split('\t').collect();
        let full_input = format!("{}\nrequest: {}", c.input, c.request);
        if parts.len() < 2 {
            rep.judge("driver", &full_input, &c.rust, r, r);
            continue;
        }
        rep.judge(&c.key, &full_input, &c.rust, parts[0], parts[1]);
    }
    let _ = out_class;
    {
        let mut ok = 0u64;
        let mut thr = 0u64;
        let mut moved = 0u64;
        for c in cases.iter().filter(|c| c.key.starts_with("sort_on-") || c.key.starts_with("sort-")) {
            if c.rust.starts_with("ok") {
                ok += 1;
                // did sorting change the order at all?
                let inp = c.request.splitn(3, ' ').nth(2).unwrap_or("");
                if c.rust[3..] != *inp {
                    moved += 1;
                }
            } else {
                thr += 1;
            }
        }
        rep.notes.push(format!("sort_on / sort-with-comparator cases: {} returned ({} of them reordered the input), {} raised", ok, moved, thr));
    }
    let _ = (BigInt::zero(), BigInt::one());
    rep.write(&args.out);
}
