//! C17 correspondence and property check: `(freeze L)(a)` vs `L(a)` for generated closed lambdas over the
//! core vocabulary, before and after every outer variable is reassigned; plus lambdas that must fail
//! to freeze.  Rust vs Impl model of freeze (Lean) on the whole program; the property verdict is read
//! off the real interpreter's own answers: [hf, r1, u1, r2] must have hf = 1 (0 for must-fail cases),
//! r1 = u1 (frozen ≡ unfrozen) and r2 = r1 (free variables were resolved at freeze time), and the three
//! output segments must be equal.
use vharness::coregen::*;
use vharness::*;

const RUST_FUEL: u64 = 300_000;
const LEAN_FUEL: u64 = 700;

fn run_rust(src: &str) -> (Outcome, String, bool) {
    let it = Interp::new();
    noulith::verif_set_fuel(RUST_FUEL);
    let out = it.eval(src);
    let exhausted = noulith::verif_get_fuel() == 0;
    noulith::verif_set_fuel(u64::MAX);
    (out, it.take_output(), exhausted)
}

/// split a canonical list "[a,b,c]" at depth 0
fn split_top(s: &str) -> Vec<String> {
    let inner = &s[1..s.len() - 1];
    let (mut depth, mut cur, mut out) = (0i32, String::new(), vec![]);
    for c in inner.chars() {
        match c {
            '[' | '{' => {
                depth += 1;
                cur.push(c)
            }
            ']' | '}' => {
                depth -= 1;
                cur.push(c)
            }
            ',' if depth == 0 => {
                out.push(std::mem::take(&mut cur));
            }
            _ => cur.push(c),
        }
    }
    if !cur.is_empty() {
        out.push(cur);
    }
    out
}

/// the property's reference answer, derived from the real interpreter's own unfrozen run
fn expected_from(actual_val: &str, printed: &str, expect_fail: bool) -> Option<(String, String)> {
    if !actual_val.starts_with('[') {
        return None;
    }
    let parts = split_top(actual_val);
    if parts.len() != 4 {
        return None;
    }
    let u1 = &parts[2];
    let segs: Vec<&str> = printed.split("#").collect(); // "", "1\n<seg1>", "2\n<seg2>", "3\n<seg3>"
    if segs.len() != 4 {
        return None;
    }
    let seg2 = &segs[2][2..];
    if expect_fail {
        // freeze must fail at freeze time: h is never bound, so both frozen calls raise
        let e = "s:45";
        return Some((format!("[0,{},{},{}]", e, u1, e), format!("#1\n#2\n{}#3\n", seg2)));
    }
    Some((format!("[1,{},{},{}]", u1, u1, u1), format!("#1\n{}#2\n{}#3\n{}", seg2, seg2, seg2)))
}


/// CONSTRUCT CORPUS (reference-only: the real interpreter against itself, no Lean model involved): one or
/// more lambdas per syntactic construct that `freeze` / `freeze_lvalue` has an arm for, including the
/// constructs outside the core AST of the model (format strings with flags, operator / comparison /
/// struct / or / and / literally patterns, update expressions, every-assignments, pop / remove / consume /
/// swap, slices, dict literals with defaults, symbols, structs, nested freeze, annotations on
/// declarations).  For each entry the harness builds
///   frozen:   SETUP; h := freeze (LAMBDA); r1 := CALLS; MUTATE; r2 := CALLS; [r1, r2]
///   unfrozen: SETUP; h :=        (LAMBDA); r1 := CALLS;         r2 := CALLS; [r1, r2]
/// and requires the same value and the same output: the frozen code behaves like the unfrozen one
/// (first half) and is not affected by the later reassignment of its free variables (second half).
/// (name, setup, lambda, calls, mutate)
const CONSTRUCTS: &[(&str, &str, &str, &[&str], &str)] = &[
    ("literals", "o := 1", "\\x -> [null, 1, 18446744073709551616, 1.5, 2i, \"s\", 'c', B\"ab\", x]", &["1"], "o = 2"),
    ("format-flags", "w := 12", "\\n -> [F\"{n #x}\", F\"{n #b}\", F\"{n #o}\", F\"{n #X}\", F\"{n + w}|{w #x}\", F\"{n:5}|{n:<5}|{n:05}\"]", &["255", "7"], "w = 99"),
    ("format-nested", "w := \"q\"", "\\n -> F\"{n}{w}{[n, w]}{w $ w}{n #x}\"", &["10"], "w = \"z\""),
    ("unary-operators", "o := 6", "\\x -> [~5, ~(0), ~x, -(3), -x, ~o, not x, not o]", &["4", "0"], "o = 0"),
    ("unary-fold-big", "o := 1", "\\x -> [~18446744073709551616, -18446744073709551616, ~(-1), -(1/2), -(1.5), x]", &["1"], "o = 2"),
    ("constant-lists", "o := 1", "\\x -> [[2i, 1], [1, 18446744073709551616, 1.5, 2i], [-2i, -(2i), -1.5, -18446744073709551616], x * (-2i), x * -(2i), [[1, [2i]], [\"s\", 'c']], [null, 0], o]", &["1", "2i"], "o = 2"),
    ("constant-dicts-and-nested", "o := 1", "\\x -> [{1: 2i, \"k\": [1.5, -3]}, [{}], [[-1, -2.5], [-(1), -(2.5)]], o + x]", &["1"], "o = 2"),
    ("index-slice", "xs := [10, 20, 30, 40]; k := 1", "\\i -> [xs[i], xs[k], xs[i:], xs[:k], xs[k:i], xs[-1], xs[k:][0:1]]", &["2", "3"], "xs = [0]; k = 0"),
    ("update-expression", "xs := [1, 2, 3]; k := 0", "\\v -> [xs{k = v}, xs{-1 = v}, xs]", &["9"], "xs = [7, 7, 7]; k = 2"),
    ("chain-outer-operator", "op := +", "\\a, b -> [a op b, a op b op a, (op)(a, b)]", &["2, 3"], "op = *"),
    ("chain-precedence", "f := \\a, b -> [a, b]; g := \\a, b -> [b, a]; f::precedence = 5; g::precedence = 4", "\\x -> [x f 2 g 3, x g 2 f 3]", &["1"], "f::precedence = 3"),
    ("comparison-chain", "lo := 1; hi := 9", "\\x -> [lo < x < hi, lo <= x <= hi == hi, lo < x > hi, x == lo != hi]", &["5", "1", "10"], "lo = 100"),
    ("and-or-coalesce", "t := 1; z := 0; n := null", "\\x -> [x and t, x or z, n coalesce x, x coalesce t, (x and z) or t]", &["0", "5", "null"], "t = 0; z = 9; n = 3"),
    ("declare-annotated", "ty := int; o := 2", "\\x -> (y: ty = x + o; z: int = y * 2; y = y + 1; [y, z])", &["1", "5"], "ty = str; o = 50"),
    ("declare-annotated-mismatch", "ty := str", "\\x -> (y: ty = x; y)", &["1", "\"s\""], "ty = int"),
    ("every-assign", "o := 7", "\\n -> (xs := [1, 2, 3, 4]; every xs[1:3] = o; every xs[:1] += n; xs)", &["5"], "o = 0"),
    ("pop-remove-consume-swap", "o := 1", "\\n -> (xs := [1, 2, 3, 4, 5]; a := pop xs; b := remove xs[o]; c := consume xs[0]; ys := [n, 8]; swap xs[1], ys[0]; [a, b, c, xs, ys])", &["6"], "o = 0"),
    ("opassign-forms", "o := 3; f := \\a, b -> a * b", "\\n -> (x := n; x += o; x f= o; x .= (\\v -> v + o); xs := [1, 2]; xs append= o; xs[0] -= o; [x, xs])", &["2"], "o = 100; f = +"),
    ("opassign-every", "o := 2", "\\n -> (xs := [1, 2, 3]; every xs[0:2] *= o; every xs[2:] += n; xs)", &["5"], "o = 9"),
    ("call-splat", "xs := [1, 2]; f := \\a, b, c -> [a, b, c]", "\\n -> [f(...xs, n), f(n, ...xs), f(...[n, n, n])]", &["7"], "xs = [8, 9]; f = \\a, b, c -> 0"),
    ("call-section", "k := 10; f := \\a, b -> a - b", "\\n -> [(f(_, k))(n), (f(k, _))(n), (_ - k)(n), (k - _)(n), (_[k - 9])([n, n + 1]), (_(n, k))(f)]", &["3"], "k = 0; f = +"),
    ("list-splat-dict", "xs := [1, 2]; d := {1: 2}", "\\n -> [[0, ...xs, n], {n: xs, ...d}, {:n, 1: xs}, {n, 2}]", &["5"], "xs = []; d = {}"),
    ("dict-default", "o := 4", "\\n -> (d := {:o, n: 1}; [d[n], d[99], d])", &["3"], "o = 0"),
    ("sequence-if", "a := 1; b := 2", "\\x -> (y := x; if (y > a) (y = y + b) else (y = y - b); if (y == 0) (y = a); y)", &["5", "0", "2"], "a = 50; b = 60"),
    ("for-all-clauses", "xs := [1, 2, 3]; d := {1: 10, 2: 20}; m := 2", "\\n -> [for (x <- xs; if x != m; y := x * n) yield y, sort(for (k, v <<- d) yield k + v + n), for (x <- xs) yield x: x * m, (for (x <- xs; y <- xs; if x < y) yield [x, y]), for (x <- xs) yield x into sum]", &["3"], "xs = [9]; d = {}; m = 0"),
    ("for-yield-into", "xs := [3, 1, 2]; f := max", "\\n -> [for (x <- xs) yield x + n into f, for (x <- xs) yield x % 2: x into f, for (x <- xs) yield x into first, for (x <- xs) yield x into count]", &["1"], "xs = [0]; f = min"),
    ("for-exec-break", "xs := [1, 2, 3, 4]; lim := 3", "\\n -> (acc := 0; r := for (x <- xs) (if (x == lim) break x * n; if (x == 1) continue; acc += x); [r, acc])", &["2"], "xs = []; lim = 0"),
    ("while-loop", "lim := 3; st := 1", "\\n -> (i := 0; acc := []; while (i < lim) (i += st; if (i == n) continue; acc append= i); acc)", &["2", "9"], "lim = 0; st = 5"),
    ("while-cond-declares", "k := 3", "\\n -> (c := 0; acc := []; while ((m := c; c += 1; m < k)) (acc append= m + n); acc)", &["10"], "k = 0"),
    ("switch-literals", "a := 1; b := \"s\"", "\\x -> switch (x) case 1 -> [a, \"one\"] case \"s\" -> b case null -> 0 case [1, y] -> y case _ -> [x, a]", &["1", "\"s\"", "null", "[1, 7]", "5"], "a = 100; b = 0"),
    ("switch-literally", "k := 5", "\\x -> switch (x) case literally k -> \"k\" case _ -> x", &["5", "6"], "k = 6"),
    ("switch-operator-patterns", "o := 100", "\\x -> switch (x) case n + 1 -> [\"succ\", n, o] ", &["5", "0"], "o = 0"),
    ("switch-operator-patterns-2", "o := 100", "\\x -> switch (x) case a * 2 + 1 -> [\"odd\", a] case a * 2 -> [\"even\", a, o]", &["7", "8"], "o = 0"),
    ("switch-prefix-suffix-patterns", "o := 1", "\\x -> switch (x) case h .+ t -> [h, t, o] case _ -> \"e\"", &["[1, 2, 3]", "[]"], "o = 2"),
    ("switch-snoc-pattern", "o := 1", "\\x -> switch (x) case i +. l -> [i, l, o] case _ -> \"e\"", &["[1, 2, 3]", "[]"], "o = 2"),
    ("switch-negation-division-patterns", "o := 1", "\\x -> switch (x) case -n -> [n, o]", &["5", "-5"], "o = 2"),
    ("switch-comparison-patterns", "lo := 1; hi := 9", "\\x -> switch (x) case 1 < _ < 9 -> [\"in\", lo] case a < b -> [a, b, hi] case _ -> \"out\"", &["5", "10", "[1, 2]", "[2, 1]"], "lo = 100"),
    ("switch-type-patterns", "ty := int", "\\x -> switch (x) case n: ty -> [\"t\", n] case s: str -> [\"s\", s] case _ -> \"o\"", &["1", "\"a\"", "[1]"], "ty = list"),
    ("switch-or-and-patterns", "o := 1", "\\x -> switch (x) case 1 or 2 -> \"a\" case (n: int) and (m: number) -> [n, m, o] case _ -> \"z\"", &["1", "2", "7", "\"s\""], "o = 2"),
    ("switch-struct-pattern", "struct Pt(px, py); o := 1", "\\x -> switch (x) case Pt(a, b) -> [a, b, o] case _ -> \"n\"", &["Pt(1, 2)", "5"], "o = 2"),
    ("struct-access", "struct Pt(px, py); o := Pt(1, 2)", "\\q -> [px(q), q[py], px(o), (q{px = 9})[px], Pt(3, 4)[py]]", &["Pt(5, 6)"], "o = Pt(0, 0)"),
    ("struct-definition-inside", "o := 1", "\\n -> (struct Qt(qa, qb = n); q := Qt(o); [q[qa], q[qb], qb(Qt(1, 2))])", &["7"], "o = 5"),
    ("declare-patterns", "o := [1, [2, 3]]", "\\x -> (a, [b, c] := o; d, ...e := x; n + 1 := 6; [a, b, c, d, e, n])", &["[7, 8, 9]"], "o = [0, [0, 0]]"),
    ("assign-patterns", "o := 1", "\\x -> (a := 0; b := 0; a, b = x; a, b = [b, a + o]; [a, b])", &["[1, 2]"], "o = 100"),
    ("try-patterns", "o := 2", "\\x -> [try (throw x) catch 1 -> \"one\" , try (try (throw x) catch 99 -> 0) catch e -> [e, o], try (throw [x, o]) catch a, b -> a + b, try x catch _ -> 0]", &["1", "5"], "o = 100"),
    ("try-local-in-handler", "o := 10", "\\x -> (try (q := x + o; r := 10 // x; q + r) catch e -> q)", &["0", "2"], "o = 0"),
    ("nested-lambdas", "o := 2", "\\x -> (add := \\a -> \\b -> a + b + o; inc := add(x); [inc(1), add(1)(1), (\\...r -> r)(x, o), (\\a, b = o -> a * b)(x)])", &["3"], "o = 100"),
    ("lambda-defaults-annotations", "ty := int; dv := 5", "\\x -> (f := \\a: ty, b: ty = dv, ...c: list -> [a, b, c]; [f(x), f(x, 1), f(x, 1, 2, 3), try f(\"s\") catch _ -> \"E\"])", &["2"], "ty = str; dv = \"q\""),
    ("recursive-local-function", "base := 1; fact := \\n -> 0 - n", "\\n -> (fact := \\k -> if (k <= 1) base else k * fact(k - 1); fact(n))", &["5", "1"], "base = 0"),
    ("closure-counter", "step := 2", "\\n -> (c := 0; bump := \\ -> (c += step; c); [bump(), bump(), c + n])", &["1"], "step = 50"),
    ("nested-freeze", "o := 1", "\\x -> (y := x; g := freeze \\ -> y + o; y = 5; [g(), y])", &["1"], "o = 100"),
    ("nested-freeze-loop", "o := 0", "\\n -> (acc := 0; gs := []; for (i <- 1 to n) (acc += i; gs append= freeze \\ -> acc + o); for (g <- gs) yield g())", &["4"], "o = 100"),
    ("nested-freeze-must-fail", "o := 0", "\\n -> (c := 0; try (h := freeze \\ -> (c = 1); h(); c) catch e -> \"refused\")", &["1"], "o = 1"),
    ("literally-expression", "k := 3", "\\x -> (switch (x) case literally (k + 1) -> \"four\" case _ -> \"other\")", &["4", "3"], "k = 2"),
    ("break-continue-return-throw", "lim := 2", "\\n -> (r := []; for (i <- 1 to 5) (if (i > lim + n) break; if (i == 1) continue; r append= i); if (n == 9) return \"nine\"; if (n == 8) throw \"eight\"; r)", &["1", "9", "8"], "lim = 0"),
    ("symbols-and-strings", "o := \"x\"", "\\s -> [s $ o, o $* 2, s in \"xyz\", upper(s), [s, o] join \"-\"]", &["\"y\""], "o = \"q\""),
    ("builtins-shadowed-later", "xs := [3, 1, 2]", "\\n -> [len(xs), sum(xs), sort(xs), max(xs) + n, xs map (_ + n), xs filter (_ > 1), xs fold +]", &["1"], "xs = []; len = \\x -> 0; sum = len; sort = len; max = len; map = \\a, b -> 0; filter = map; fold = map"),
    ("operators-shadowed-later", "xs := [1, 2]", "\\n -> [n + 1, n - 1, n * 2, n // 2, n % 2, n == 1, n < 2, [n] ++ xs, n max 3, n min 3]", &["5"], "plus := +; + = -; - = plus; * = plus; == = <; ++ = \\a, b -> 0"),
    ("comma-seq-and-tuples", "o := 9", "\\a, b -> (x := (a, b, o); y, z := b, a; [x, y, z])", &["1, 2"], "o = 0"),
    ("assert-debug-vars", "o := 4", "\\n -> (v := [n, o]; w := v; w[0] = 0; [v, w, vars == vars])", &["1"], "o = 0"),
    ("generators-ranges", "hi := 5; st := 2", "\\n -> [1 to hi, n til hi, 1 to hi by st, (n to hi) map (* st), iota(n) take 3]", &["2"], "hi = 0; st = 1"),
];

fn main() {
    let args = parse_args();
    install_quiet_panic_hook();
    let mut rep = Report::new("C17", &args);
    rep.rule = "generated closed lambdas over the core vocabulary (sequences, if, for/while with declarations and guards, \
                try, nested lambdas, local declarations shadowing outer names, operator chains, list literals, negative \
                literals, type-annotated parameters on the lambda under test and on nested lambdas) reading 2-4 outer \
                variables, 0-2 outer variables holding TYPES (used in parameter annotations) and one outer function; \
                program = freeze it, call frozen and unfrozen twin, reassign every outer variable (type variables to a type \
                the argument does not have) and the outer function, call the frozen one again; 15% must-fail lambdas \
                (unbound free variable, assignment / op-assignment to an outer variable, each in a dead branch; unbound \
                name in a parameter annotation of the lambda itself or of a nested lambda in a dead branch). \
                non-trivial = lambda body has >= 3 distinct features; distinct = distinct program text"
        .into();

    if let Some(path) = &args.replay {
        let text = std::fs::read_to_string(path).expect("replay file");
        for line in text.lines() {
            if let Some(rest) = line.strip_prefix("input: ") {
                let (o, p, _) = run_rust(rest);
                println!("rust: {} out={:?}", o.detail(), p);
            }
            if let Some(rest) = line.strip_prefix("request: ") {
                let r = run_driver(&args.driver, &[rest.to_string()]);
                println!("model (frozen, freeze-erased): {}", r[0]);
            }
        }
        return;
    }

    let n_cases = match args.tier.as_str() {
        "thorough" => 30_000u64,
        _ => 1_200u64,
    };
    let mut rng = Rng::new(args.seed);
    let mut cases = vec![];
    for i in 0..n_cases {
        let mut g = Gen::new(rng.fork(), if i % 4 == 0 { 3 } else { 2 });
        let kind = if g.rng.chance(15, 100) { 1 + g.rng.below(5) } else { 0 };
        let fc = g.gen_freeze_case(kind);
        cases.push((fc.program(), fc.expect_fail, g.features.clone()));
    }
    // hand-written cases: forms the generator's AST cannot express
    let handwritten: Vec<(&str, &str, &str)> = vec![
        ("import", "ok := 1; try (h := freeze (\\ -> (if (0) (import \"nonexistent\")))) catch _ -> (ok = 0); ok", "ok 0"),
        ("bare-underscore", "ok := 1; try (h := freeze (\\ -> (if (0) _))) catch _ -> (ok = 0); ok", "ok 0"),
        ("section-underscore-ok", "h := freeze (\\x -> ((_ + 1)(x))); h(4)", "ok 5"),
        ("operator-frozen", "h := freeze (\\a, b -> (a + b)); r1 := h(2, 3); plus := +; + = *; r2 := h(2, 3); + = plus; [r1, r2]", "ok [5,5]"),
        ("precedence-frozen", "f := \\a, b -> [a, b]; g := \\a, b -> [a, b]; f::precedence = 5; g::precedence = 4; h := freeze (\\ -> (1 f 2 g 3)); r1 := h(); f::precedence = 3; r2 := h(); [r1, r2]", "ok [[[1,2],3],[[1,2],3]]"),
        ("negative-literal", "h := freeze (\\ -> [-1, -2.5, -(3)]); h()", "ok [-1,f:c004000000000000,-3]"),
        ("switch-arm-scope", "o := 7; h := freeze (\\x -> (switch (x) case 1 -> (y := o; y + 1) case y -> (y + o))); r1 := [h(1), h(5)]; o = 100; [r1, [h(1), h(5)]]", "ok [[8,12],[8,12]]"),
        ("default-param-outer", "o := 5; h := freeze (\\a, b = o -> a + b); r1 := h(1); o = 50; [r1, h(1)]", "ok [6,6]"),
        ("for-iteratee-shadow", "x := [1,2]; h := freeze (\\ -> (for (x <- x) yield x)); r1 := h(); x = [3]; [r1, h()]", "ok [[1,2],[1,2]]"),
        // known findings (F20, F27): a declaration binds its name before its right-hand side / later uses are frozen
        ("forward-ref", "g := \\ -> 100; h := freeze \\y -> (f := \\ -> g(); g := \\ -> y; f()); h(7)", "ok 7"),
        ("forward-ref-unbound", "h := freeze \\y -> (f := \\ -> g(); g := \\ -> y; f()); h(7)", "ok 7"),
        ("self-shadow-init", "x := 5; h := freeze (\\ -> ((\\ -> (x := x + 1; x))())); r1 := h(); x = 50; [r1, h()]", "ok [6,6]"),
        ("switch-arms-separate-scopes", "a := 10; f := freeze \\x -> (switch (x) case (a: int) -> a * 2 case _ -> a); r1 := [f(7), f(\"s\")]; a = 100; [r1, [f(7), f(\"s\")]]", "ok [[14,10],[14,10]]"),
        ("switch-later-arm-unbound", "ok := 1; try (f := freeze \\x -> (switch (x) case (zz: int) -> zz case _ -> zz)) catch _ -> (ok = 0); ok", "ok 0"),
        ("switch-later-arm-assigns-outer", "a := 1; ok := 1; try (f := freeze \\x -> (switch (x) case (a: int) -> a case _ -> (a = 5; 0))) catch _ -> (ok = 0); ok", "ok 0"),
        ("minus-call-form", "h := freeze (\\x -> -(10, x)); [h(3), h(10)]", "ok [7,0]"),
        ("minus-call-form-outer", "base := 100; h := freeze (\\x -> -(base, x)); r := h(1); base = 5; [r, h(1)]", "ok [99,99]"),
        ("minus-call-form-raises", "h := freeze (\\x -> -(1, x)); try h(\"s\") catch _ -> \"E\"", "ok s:45"),
        ("unary-minus-folded", "h := freeze (\\x -> [-(3), -(2.5), -x]); h(4)", "ok [-3,f:c004000000000000,-4]"),
        ("iteratee-declaration-leaks", "h := freeze \\ -> ((for (x <- [(y := 5; y)]) 0); y); h()", "ok 5"),
        // F30 family: the part of a `for` header that runs in the ENCLOSING scope (leading guards, the expression of
        // the first binding clause; with no binding clause also the body) declares into that scope, freeze treats
        // the declaration as loop-local
        ("for-guard-declaration-leaks", "h := freeze \\ -> ((for (if (1)) (y := 5)); y); h()", "ok 5"),
        ("for-declare-clause-rhs-declaration-leaks", "h := freeze \\ -> ((for (x := (y := 5; y)) 0); y); h()", "ok 5"),
        // F32: freeze accepts an assignment as soon as the name is in its bound set, also when the declaration
        // sits in a branch that is not taken; at run time the assignment reaches the OUTER variable, and after
        // the loop the name is free for freeze again, i.e. resolved at freeze time
        ("assign-conditionally-declared", "o := 1; h := freeze \\ -> ((for (i <- [1]) ((if (0) (o := 5)); o = 7)); o); [h(), o]", "ok [7,7]"),
        // parameter type annotations are expressions evaluated at call time in the closure's scope: their free
        // variables are resolved at freeze time like the body's (seeded change C17-a2 skipped them when no
        // parameter has a default)
        // known finding (F31, same family as F20/F27): a parameter's annotation / default that mentions a parameter
        // name of its own lambda is evaluated BEFORE the parameters are bound (the name refers outward), but freeze
        // treats the name as bound and leaves it to be resolved at call time
        ("param-default-self-ref", "x := 5; f := freeze \\x = x -> x; r1 := f(); x = 50; [r1, f()]", "ok [5,5]"),
        ("param-annotation-self-ref", "x := int; f := freeze \\x: x -> x; x = str; [try f(3) catch e -> \"E\", try f(\"s\") catch e -> \"E\"]", "ok [3,s:45]"),
        ("annotation-outer-type-var", "ty := int; f := freeze \\x: ty -> x + 1; ty = str; f(3)", "ok 4"),
        ("annotation-outer-type-var-nested", "ty := int; f := freeze \\n -> (g := \\y: ty -> y * 2; g(n)); ty = str; f(4)", "ok 8"),
        ("annotation-unbound-fails-at-freeze", "ok := 1; try (f := freeze \\x: nosuchtype -> x) catch _ -> (ok = 0); ok", "ok 0"),
        ("annotation-unbound-nested-fails-at-freeze", "ok := 1; try (f := freeze \\n -> (if (0) (\\y: nosuchtype -> y))) catch _ -> (ok = 0); ok", "ok 0"),
        ("annotation-with-default", "ty := int; k := 5; f := freeze \\x: ty, y = k -> x + y; ty = str; k = 50; [f(3), f(3, 4)]", "ok [8,7]"),
        ("annotation-and-default-same-param", "ty := int; k := 5; f := freeze \\x: ty = k -> x + 1; ty = str; k = \"s\"; [f(), f(3)]", "ok [6,4]"),
        ("annotation-frozen-equals-plain", "ty := int; f := freeze \\x: ty -> x + 1; g := \\x: ty -> x + 1; [f(3), try f(\"s\") catch e -> \"E\", g(3), try g(\"s\") catch e -> \"E\"]", "ok [4,s:45,4,s:45]"),
        ("annotation-splat", "ty := list; f := freeze \\a, ...r: ty -> [a, r]; ty = int; f(1, 2, 3)", "ok [1,[2,3]]"),
        ("annotation-mismatch-still-raises", "ty := str; f := freeze \\x: ty -> x; ty = int; try f(3) catch e -> \"E\"", "ok s:45"),
        ("annotation-builtin-type-shadowed-later", "f := freeze \\x: int -> x + 1; r1 := f(3); int = str; r2 := f(3); [r1, r2]", "ok [4,4]"),
        ("dict-literal", "o := 3; h := freeze (\\x -> {x: o, \"k\": [o, x]}); r1 := h(1); o = 9; r1 == h(1)", "ok 1"),
    ];

    let mut requests = vec![];
    let mut rust = vec![];
    let mut skipped = 0u64;
    for (prog, expect_fail, feats) in &cases {
        let src = prog.src();
        let (out, printed, exhausted) = run_rust(&src);
        for f in feats {
            rep.arm(f);
        }
        rep.case(&src, feats.len() >= 3);
        rep.outcome(match &out {
            Outcome::Ok(_) => "ok",
            Outcome::Panic(_) => "panic",
            Outcome::ParseErr(_) => "parse-error",
            _ => "throw",
        });
        if *expect_fail {
            rep.outcome("must-fail-cases");
        }
        requests.push(format!("run {} {}", LEAN_FUEL, prog.sexp()));
        rust.push((src, out, printed, exhausted, *expect_fail));
    }
    let resp = run_driver(&args.driver, &requests);
    for i in 0..requests.len() {
        let (src, out, printed, exhausted, expect_fail) = &rust[i];
        let parts: Vec<&str> = resp[i].split('\t').collect();
        if *exhausted || parts[0].starts_with("fuel") || parts.len() < 2 {
            skipped += 1;
            continue;
        }
        let rust_s = format!("{} out={}", out.class(), hex(printed.as_bytes()));
        let spec_s = match out {
            Outcome::Ok(v) => match expected_from(v, printed, *expect_fail) {
                Some((ev, ep)) => format!("ok {} out={}", ev, hex(ep.as_bytes())),
                None => "malformed".to_string(),
            },
            _ => "program-raised".to_string(),
        };
        let key = if *expect_fail { "must-fail" } else { "frozen-vs-unfrozen" };
        let input = format!("{}\nrequest: {}", src, requests[i]);
        rep.judge(key, &input, &rust_s, parts[0], &spec_s);
    }
    for (key, src, expected) in handwritten {
        let (out, _printed, _) = run_rust(src);
        rep.case(src, true);
        rep.arm(&format!("handwritten:{}", key));
        let r = out.class();
        rep.judge(&format!("handwritten:{}", key), src, &r, expected, expected);
    }

    // construct corpus: frozen vs unfrozen, reference-only
    for (name, setup, lambda, calls, mutate) in CONSTRUCTS {
        let call_list = calls.iter().map(|a| format!("(try h({}) catch e -> \"E\")", a)).collect::<Vec<_>>().join(", ");
        let frozen = format!("{}; h := freeze ({}); r1 := [{}]; {}; r2 := [{}]; [r1, r2]", setup, lambda, call_list, mutate, call_list);
        let unfrozen = format!("{}; h := ({}); r1 := [{}]; r2 := [{}]; [r1, r2]", setup, lambda, call_list, call_list);
        let (fo, fp, _) = run_rust(&frozen);
        let (uo, up, _) = run_rust(&unfrozen);
        rep.case(&frozen, true);
        rep.arm(&format!("construct:{}", name));
        let f_s = format!("{} out={}", fo.class(), hex(fp.as_bytes()));
        let u_s = format!("{} out={}", uo.class(), hex(up.as_bytes()));
        // the unfrozen program itself must evaluate (a corpus entry that raises as a whole is a typo here)
        if std::env::var("CORPUS_DUMP").is_ok() {
            eprintln!("{}\t{}", name, uo.detail());
        }
        let u_ok = matches!(uo, Outcome::Ok(_));
        let expect = if u_ok { u_s.clone() } else { format!("corpus entry does not evaluate unfrozen: {}", uo.detail()) };
        rep.judge(&format!("construct:{}", name), &format!("{}\nunfrozen: {}", frozen, unfrozen), &f_s, &expect, &expect);
    }
    rep.notes.push(format!("cases skipped because a step budget ran out: {}", skipped));
    rep.write(&args.out);
}
