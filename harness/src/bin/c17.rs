//! C17 correspondence and property check: `(freeze L)(a)` vs `L(a)` for generated closed lambdas over the
//! core vocabulary, before and after every outer variable is reassigned; plus lambdas that must fail
//! to freeze.  Rust vs Impl model of freeze (Lean) on the whole program; the property verdict is read
//! off the real interpreter's own answers: [hf, r1, u1, r2] must have hf = 1 (0 for must-fail cases),
//! r1 = u1 (frozen ≡ unfrozen) and r2 = r1 (free variables were resolved at freeze time), and the three
//! output segments must be equal.
use vharness::coregen::*;
use vharness::*;

const RUST_FUEL: u64 = 300_000;
const LEAN_FUEL: u64 = 700;

fn run_rust(src: &str) -> (Outcome, String, bool) {
    let it = Interp::new();
    noulith::verif_set_fuel(RUST_FUEL);
    let out = it.eval(src);
    let exhausted = noulith::verif_get_fuel() == 0;
    noulith::verif_set_fuel(u64::MAX);
    (out, it.take_output(), exhausted)
}

/// split a canonical list "[a,b,c]" at depth 0
fn split_top(s: &str) -> Vec<String> {
    let inner = &s[1..s.len() - 1];
    let (mut depth, mut cur, mut out) = (0i32, String::new(), vec![]);
    for c in inner.chars() {
        match c {
            '[' | '{' => {
                depth += 1;
                cur.push(c)
            }
            ']' | '}' => {
                depth -= 1;
                cur.push(c)
            }
            ',' if depth == 0 => {
                out.push(std::mem::take(&mut cur));
            }
            _ => cur.push(c),
        }
    }
    if !cur.is_empty() {
        out.push(cur);
    }
    out
}

/// the property's reference answer, derived from the real interpreter's own unfrozen run
fn expected_from(actual_val: &str, printed: &str, expect_fail: bool) -> Option<(String, String)> {
    if !actual_val.starts_with('[') {
        return None;
    }
    let parts = split_top(actual_val);
    if parts.len() != 4 {
        return None;
    }
    let u1 = &parts[2];
    let segs: Vec<&str> = printed.split("#").collect(); // "", "1\n<seg1>", "2\n<seg2>", "3\n<seg3>"
    if segs.len() != 4 {
        return None;
    }
    let seg2 = &segs[2][2..];
    if expect_fail {
        // freeze must fail at freeze time: h is never bound, so both frozen calls raise
        let e = "s:45";
        return Some((format!("[0,{},{},{}]", e, u1, e), format!("#1\n#2\n{}#3\n", seg2)));
    }
    Some((format!("[1,{},{},{}]", u1, u1, u1), format!("#1\n{}#2\n{}#3\n{}", seg2, seg2, seg2)))
}

fn main() {
    let args = parse_args();
    install_quiet_panic_hook();
    let mut rep = Report::new("C17", &args);
    rep.rule = "generated closed lambdas over the core vocabulary (sequences, if, for/while with declarations and guards, \
                try, nested lambdas, local declarations shadowing outer names, operator chains, list literals, negative \
                literals, type-annotated parameters on the lambda under test and on nested lambdas) reading 2-4 outer \
                variables, 0-2 outer variables holding TYPES (used in parameter annotations) and one outer function; \
                program = freeze it, call frozen and unfrozen twin, reassign every outer variable (type variables to a type \
                the argument does not have) and the outer function, call the frozen one again; 15% must-fail lambdas \
                (unbound free variable, assignment / op-assignment to an outer variable, each in a dead branch; unbound \
                name in a parameter annotation of the lambda itself or of a nested lambda in a dead branch). \
                non-trivial = lambda body has >= 3 distinct features; distinct = distinct program text"
        .into();

    if let Some(path) = &args.replay {
        let text = std::fs::read_to_string(path).expect("replay file");
        for line in text.lines() {
            if let Some(rest) = line.strip_prefix("input: ") {
                let (o, p, _) = run_rust(rest);
                println!("rust: {} out={:?}", o.detail(), p);
            }
            if let Some(rest) = line.strip_prefix("request: ") {
                let r = run_driver(&args.driver, &[rest.to_string()]);
                println!("model (frozen, freeze-erased): {}", r[0]);
            }
        }
        return;
    }

    let n_cases = match args.tier.as_str() {
        "thorough" => 30_000u64,
        _ => 1_200u64,
    };
    let mut rng = Rng::new(args.seed);
    let mut cases = vec![];
    for i in 0..n_cases {
        let mut g = Gen::new(rng.fork(), if i % 4 == 0 { 3 } else { 2 });
        let kind = if g.rng.chance(15, 100) { 1 + g.rng.below(5) } else { 0 };
        let fc = g.gen_freeze_case(kind);
        cases.push((fc.program(), fc.expect_fail, g.features.clone()));
    }
    // hand-written cases: forms the generator's AST cannot express
    let handwritten: Vec<(&str, &str, &str)> = vec![
        ("import", "ok := 1; try (h := freeze (\\ -> (if (0) (import \"nonexistent\")))) catch _ -> (ok = 0); ok", "ok 0"),
        ("bare-underscore", "ok := 1; try (h := freeze (\\ -> (if (0) _))) catch _ -> (ok = 0); ok", "ok 0"),
        ("section-underscore-ok", "h := freeze (\\x -> ((_ + 1)(x))); h(4)", "ok 5"),
        ("operator-frozen", "h := freeze (\\a, b -> (a + b)); r1 := h(2, 3); plus := +; + = *; r2 := h(2, 3); + = plus; [r1, r2]", "ok [5,5]"),
        ("precedence-frozen", "f := \\a, b -> [a, b]; g := \\a, b -> [a, b]; f::precedence = 5; g::precedence = 4; h := freeze (\\ -> (1 f 2 g 3)); r1 := h(); f::precedence = 3; r2 := h(); [r1, r2]", "ok [[[1,2],3],[[1,2],3]]"),
        ("negative-literal", "h := freeze (\\ -> [-1, -2.5, -(3)]); h()", "ok [-1,f:c004000000000000,-3]"),
        ("switch-arm-scope", "o := 7; h := freeze (\\x -> (switch (x) case 1 -> (y := o; y + 1) case y -> (y + o))); r1 := [h(1), h(5)]; o = 100; [r1, [h(1), h(5)]]", "ok [[8,12],[8,12]]"),
        ("default-param-outer", "o := 5; h := freeze (\\a, b = o -> a + b); r1 := h(1); o = 50; [r1, h(1)]", "ok [6,6]"),
        ("for-iteratee-shadow", "x := [1,2]; h := freeze (\\ -> (for (x <- x) yield x)); r1 := h(); x = [3]; [r1, h()]", "ok [[1,2],[1,2]]"),
        // known findings (F20, F27): a declaration binds its name before its right-hand side / later uses are frozen
        ("forward-ref", "g := \\ -> 100; h := freeze \\y -> (f := \\ -> g(); g := \\ -> y; f()); h(7)", "ok 7"),
        ("forward-ref-unbound", "h := freeze \\y -> (f := \\ -> g(); g := \\ -> y; f()); h(7)", "ok 7"),
        ("self-shadow-init", "x := 5; h := freeze (\\ -> ((\\ -> (x := x + 1; x))())); r1 := h(); x = 50; [r1, h()]", "ok [6,6]"),
        ("switch-arms-separate-scopes", "a := 10; f := freeze \\x -> (switch (x) case (a: int) -> a * 2 case _ -> a); r1 := [f(7), f(\"s\")]; a = 100; [r1, [f(7), f(\"s\")]]", "ok [[14,10],[14,10]]"),
        ("switch-later-arm-unbound", "ok := 1; try (f := freeze \\x -> (switch (x) case (zz: int) -> zz case _ -> zz)) catch _ -> (ok = 0); ok", "ok 0"),
        ("switch-later-arm-assigns-outer", "a := 1; ok := 1; try (f := freeze \\x -> (switch (x) case (a: int) -> a case _ -> (a = 5; 0))) catch _ -> (ok = 0); ok", "ok 0"),
        ("minus-call-form", "h := freeze (\\x -> -(10, x)); [h(3), h(10)]", "ok [7,0]"),
        ("minus-call-form-outer", "base := 100; h := freeze (\\x -> -(base, x)); r := h(1); base = 5; [r, h(1)]", "ok [99,99]"),
        ("minus-call-form-raises", "h := freeze (\\x -> -(1, x)); try h(\"s\") catch _ -> \"E\"", "ok s:45"),
        ("unary-minus-folded", "h := freeze (\\x -> [-(3), -(2.5), -x]); h(4)", "ok [-3,f:c004000000000000,-4]"),
        ("iteratee-declaration-leaks", "h := freeze \\ -> ((for (x <- [(y := 5; y)]) 0); y); h()", "ok 5"),
        // F30 family: the part of a `for` header that runs in the ENCLOSING scope (leading guards, the expression of
        // the first binding clause; with no binding clause also the body) declares into that scope, freeze treats
        // the declaration as loop-local
        ("for-guard-declaration-leaks", "h := freeze \\ -> ((for (if (1)) (y := 5)); y); h()", "ok 5"),
        ("for-declare-clause-rhs-declaration-leaks", "h := freeze \\ -> ((for (x := (y := 5; y)) 0); y); h()", "ok 5"),
        // F32: freeze accepts an assignment as soon as the name is in its bound set, also when the declaration
        // sits in a branch that is not taken; at run time the assignment reaches the OUTER variable, and after
        // the loop the name is free for freeze again, i.e. resolved at freeze time
        ("assign-conditionally-declared", "o := 1; h := freeze \\ -> ((for (i <- [1]) ((if (0) (o := 5)); o = 7)); o); [h(), o]", "ok [7,7]"),
        // parameter type annotations are expressions evaluated at call time in the closure's scope: their free
        // variables are resolved at freeze time like the body's (seeded change C17-a2 skipped them when no
        // parameter has a default)
        // known finding (F31, same family as F20/F27): a parameter's annotation / default that mentions a parameter
        // name of its own lambda is evaluated BEFORE the parameters are bound (the name refers outward), but freeze
        // treats the name as bound and leaves it to be resolved at call time
        ("param-default-self-ref", "x := 5; f := freeze \\x = x -> x; r1 := f(); x = 50; [r1, f()]", "ok [5,5]"),
        ("param-annotation-self-ref", "x := int; f := freeze \\x: x -> x; x = str; [try f(3) catch e -> \"E\", try f(\"s\") catch e -> \"E\"]", "ok [3,s:45]"),
        ("annotation-outer-type-var", "ty := int; f := freeze \\x: ty -> x + 1; ty = str; f(3)", "ok 4"),
        ("annotation-outer-type-var-nested", "ty := int; f := freeze \\n -> (g := \\y: ty -> y * 2; g(n)); ty = str; f(4)", "ok 8"),
        ("annotation-unbound-fails-at-freeze", "ok := 1; try (f := freeze \\x: nosuchtype -> x) catch _ -> (ok = 0); ok", "ok 0"),
        ("annotation-unbound-nested-fails-at-freeze", "ok := 1; try (f := freeze \\n -> (if (0) (\\y: nosuchtype -> y))) catch _ -> (ok = 0); ok", "ok 0"),
        ("annotation-with-default", "ty := int; k := 5; f := freeze \\x: ty, y = k -> x + y; ty = str; k = 50; [f(3), f(3, 4)]", "ok [8,7]"),
        ("annotation-and-default-same-param", "ty := int; k := 5; f := freeze \\x: ty = k -> x + 1; ty = str; k = \"s\"; [f(), f(3)]", "ok [6,4]"),
        ("annotation-frozen-equals-plain", "ty := int; f := freeze \\x: ty -> x + 1; g := \\x: ty -> x + 1; [f(3), try f(\"s\") catch e -> \"E\", g(3), try g(\"s\") catch e -> \"E\"]", "ok [4,s:45,4,s:45]"),
        ("annotation-splat", "ty := list; f := freeze \\a, ...r: ty -> [a, r]; ty = int; f(1, 2, 3)", "ok [1,[2,3]]"),
        ("annotation-mismatch-still-raises", "ty := str; f := freeze \\x: ty -> x; ty = int; try f(3) catch e -> \"E\"", "ok s:45"),
        ("annotation-builtin-type-shadowed-later", "f := freeze \\x: int -> x + 1; r1 := f(3); int = str; r2 := f(3); [r1, r2]", "ok [4,4]"),
        ("dict-literal", "o := 3; h := freeze (\\x -> {x: o, \"k\": [o, x]}); r1 := h(1); o = 9; r1 == h(1)", "ok 1"),
    ];

    let mut requests = vec![];
    let mut rust = vec![];
    let mut skipped = 0u64;
    for (prog, expect_fail, feats) in &cases {
        let src = prog.src();
        let (out, printed, exhausted) = run_rust(&src);
        for f in feats {
            rep.arm(f);
        }
        rep.case(&src, feats.len() >= 3);
        rep.outcome(match &out {
            Outcome::Ok(_) => "ok",
            Outcome::Panic(_) => "panic",
            Outcome::ParseErr(_) => "parse-error",
            _ => "throw",
        });
        if *expect_fail {
            rep.outcome("must-fail-cases");
        }
        requests.push(format!("run {} {}", LEAN_FUEL, prog.sexp()));
        rust.push((src, out, printed, exhausted, *expect_fail));
    }
    let resp = run_driver(&args.driver, &requests);
    for i in 0..requests.len() {
        let (src, out, printed, exhausted, expect_fail) = &rust[i];
        let parts: Vec<&str> = resp[i].split('\t').collect();
        if *exhausted || parts[0].starts_with("fuel") || parts.len() < 2 {
            skipped += 1;
            continue;
        }
        let rust_s = format!("{} out={}", out.class(), hex(printed.as_bytes()));
        let spec_s = match out {
            Outcome::Ok(v) => match expected_from(v, printed, *expect_fail) {
                Some((ev, ep)) => format!("ok {} out={}", ev, hex(ep.as_bytes())),
                None => "malformed".to_string(),
            },
            _ => "program-raised".to_string(),
        };
        let key = if *expect_fail { "must-fail" } else { "frozen-vs-unfrozen" };
        let input = format!("{}\nrequest: {}", src, requests[i]);
        rep.judge(key, &input, &rust_s, parts[0], &spec_s);
    }
    for (key, src, expected) in handwritten {
        let (out, _printed, _) = run_rust(src);
        rep.case(src, true);
        rep.arm(&format!("handwritten:{}", key));
        let r = out.class();
        rep.judge(&format!("handwritten:{}", key), src, &r, expected, expected);
    }
    rep.notes.push(format!("cases skipped because a step budget ran out: {}", skipped));
    rep.write(&args.out);
}
