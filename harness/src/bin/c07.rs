//! C07 correspondence: the numeric tower of the real interpreter (`+ - * / % // %% ^`, unary `-`,
//! `floor ceil round int rational float numerator denominator`, scalars and vectors) vs the Impl
//! model (NoulithModel/Impl/NNumArith.lean) vs the Spec (NoulithModel/Spec/TowerSpec.lean).
//!
//! Exact results (ints, rationals) are compared digit for digit.  Float / complex arithmetic is
//! abstract in the model: the driver answers with the TERM that computes the result, e.g.
//! `fop:add(f:3ff0000000000000,conv:int(5))`; `eval_term` below evaluates such terms with Rust's
//! own f64 / Complex64 / BigInt::to_f64 / BigRational::to_f64 operations (nothing from /repo), so
//! the comparison checks level dispatch and operand conversion, not IEEE arithmetic.  In the Spec
//! column the int -> float and rational -> float conversions are already concrete: the correctly
//! rounded bit pattern computed in Lean (`F64.ofRatRNE`), so `float(x)` and every mixed operation
//! are also compared against round-to-nearest-even of the exact value.
use noulith::nnum::NNum;
use noulith::{Builtin, NErr, NRes, Obj, REnv};
use num::bigint::BigInt;
use num::complex::Complex64;
use num::{BigRational, One, Signed, ToPrimitive, Zero};
use vharness::*;

const BIN_OPS: &[&str] = &["+", "-", "*", "/", "%", "//", "%%", "^"];
const UN_OPS: &[&str] = &[
    "neg", "floor", "ceil", "round", "int", "rational", "float", "numerator", "denominator",
];

// ---------------------------------------------------------------------------------------------
// a builtin of the harness: mkc(re_bits, im_bits) builds a complex number from two bit patterns
// (no arithmetic of the interpreter is involved in producing operands)
#[derive(Debug, Clone)]
struct MkC;
impl Builtin for MkC {
    fn run(&self, _env: &REnv, args: Vec<Obj>) -> NRes<Obj> {
        match args.as_slice() {
            [Obj::Num(a), Obj::Num(b)] => match (a.to_u64(), b.to_u64()) {
                (Some(x), Some(y)) => Ok(Obj::Num(NNum::Complex(Complex64::new(
                    f64::from_bits(x),
                    f64::from_bits(y),
                )))),
                _ => Err(NErr::argument_error("mkc: bits expected".to_string())),
            },
            _ => Err(NErr::argument_error("mkc: two numbers expected".to_string())),
        }
    }
    fn builtin_name(&self) -> &str {
        "mkc"
    }
}

// ---------------------------------------------------------------------------------------------
// values
#[derive(Clone, Debug)]
enum Val {
    Int(BigInt),
    Rat(BigRational), // lowest terms, positive denominator
    Float(u64),
    Complex(u64, u64),
}
#[derive(Clone, Debug)]
enum VO {
    Num(Val),
    Vec(Vec<Val>),
    Other(u64),
}

fn lit(v: &BigInt) -> String {
    if v.is_negative() {
        let m = -v;
        if m == BigInt::from(9223372036854775808u64) {
            "(0-9223372036854775807-1)".to_string()
        } else {
            format!("(0-{})", m)
        }
    } else {
        format!("{}", v)
    }
}

impl Val {
    fn level(&self) -> &'static str {
        match self {
            Val::Int(_) => "int",
            Val::Rat(_) => "rat",
            Val::Float(_) => "float",
            Val::Complex(..) => "complex",
        }
    }
    /// a source expression producing exactly this value; `how` picks among equivalent spellings
    fn src(&self, how: u64) -> String {
        match self {
            Val::Int(v) => match how % 4 {
                1 => format!("({}^1)", lit(v)), // forces the Big representation
                2 => format!("int(\"{}\")", v),
                _ => lit(v),
            },
            Val::Rat(r) => {
                let (n, d) = (r.numer().clone(), r.denom().clone());
                match how % 5 {
                    1 => {
                        let k = BigInt::from(2 + (how / 5) % 6);
                        format!("({}/{})", lit(&(&n * &k)), &d * &k) // not in lowest terms
                    }
                    2 => format!("({}/(0-{}))", lit(&-n), d), // negative denominator
                    3 if d.is_one() => format!("rational({})", lit(&n)),
                    _ => format!("({}/{})", lit(&n), d),
                }
            }
            Val::Float(b) => format!("bits_to_float({})", b),
            Val::Complex(re, im) => format!("mkc({},{})", re, im),
        }
    }
    fn tok(&self) -> String {
        match self {
            Val::Int(v) => format!("i:{}", v),
            Val::Rat(r) => format!("q:{}/{}", r.numer(), r.denom()),
            Val::Float(b) => format!("f:{:016x}", b),
            Val::Complex(re, im) => format!("c:{:016x}:{:016x}", re, im),
        }
    }
}
impl VO {
    fn kind(&self) -> &'static str {
        match self {
            VO::Num(v) => v.level(),
            VO::Vec(_) => "vec",
            VO::Other(_) => "other",
        }
    }
    fn src(&self, rng: &mut Rng) -> String {
        match self {
            VO::Num(v) => v.src(rng.below(30)),
            VO::Vec(vs) => format!(
                "V({})",
                vs.iter().map(|v| v.src(rng.below(30))).collect::<Vec<_>>().join(", ")
            ),
            VO::Other(k) => match k % 5 {
                0 => "null".into(),
                1 => "\"ab\"".into(),
                2 => "[1, 2]".into(),
                3 => "{1: 2}".into(),
                _ => "[]".into(),
            },
        }
    }
    fn tok(&self) -> String {
        match self {
            VO::Num(v) => v.tok(),
            VO::Vec(vs) => format!("v[{}]", vs.iter().map(|v| v.tok()).collect::<Vec<_>>().join(",")),
            VO::Other(_) => "x".into(),
        }
    }
}

// ---------------------------------------------------------------------------------------------
// evaluation of the driver's symbolic answers with Rust's own arithmetic
enum Tm {
    Lit(String),
    App(String, Vec<Tm>),
}
fn parse_term(s: &[u8], pos: &mut usize) -> Tm {
    let start = *pos;
    while *pos < s.len() && !b"(),[]".contains(&s[*pos]) {
        *pos += 1;
    }
    let name = String::from_utf8_lossy(&s[start..*pos]).to_string();
    if *pos < s.len() && s[*pos] == b'(' {
        *pos += 1;
        let mut args = vec![];
        loop {
            args.push(parse_term(s, pos));
            if *pos < s.len() && s[*pos] == b',' {
                *pos += 1;
                continue;
            }
            if *pos < s.len() && s[*pos] == b')' {
                *pos += 1;
            }
            break;
        }
        Tm::App(name, args)
    } else {
        Tm::Lit(name)
    }
}
fn bigint_to_f64(n: &BigInt) -> f64 {
    n.to_f64().unwrap_or(if n.is_positive() { f64::INFINITY } else { f64::NEG_INFINITY })
}
fn rat_to_f64(r: &BigRational) -> f64 {
    r.to_f64().unwrap_or(if r.is_positive() { f64::INFINITY } else { f64::NEG_INFINITY })
}
fn as_f(n: NNum) -> Result<f64, String> {
    match n {
        NNum::Float(f) => Ok(f),
        o => Err(format!("float expected, got {}", canon_num(&o))),
    }
}
fn as_c(n: NNum) -> Result<Complex64, String> {
    match n {
        NNum::Complex(z) => Ok(z),
        o => Err(format!("complex expected, got {}", canon_num(&o))),
    }
}
fn as_i(n: NNum) -> Result<BigInt, String> {
    match n {
        NNum::Int(i) => Ok(i.to_bigint().into_owned()),
        o => Err(format!("int expected, got {}", canon_num(&o))),
    }
}
fn as_q(n: NNum) -> Result<BigRational, String> {
    match n {
        NNum::Rational(r) => Ok(*r),
        o => Err(format!("rational expected, got {}", canon_num(&o))),
    }
}
/// `powf_pdnum` restated
fn powf_pd(a: f64, b: f64) -> NNum {
    let fx = a.powf(b);
    if fx.is_nan() {
        let zx = Complex64::from(a).powf(b);
        if !zx.re.is_nan() && !zx.im.is_nan() {
            return NNum::from(zx);
        }
    }
    NNum::from(fx)
}
fn powif_f(a: f64, b: &BigInt) -> f64 {
    match b.to_i32() {
        Some(i) => a.powi(i),
        None => a.powf(bigint_to_f64(b)),
    }
}
fn powif_c(a: Complex64, b: &BigInt) -> Complex64 {
    match b.to_i32() {
        Some(i) => a.powi(i),
        None => a.powf(bigint_to_f64(b)),
    }
}
fn eval_term(t: &Tm) -> Result<NNum, String> {
    match t {
        Tm::Lit(s) => {
            if let Some(h) = s.strip_prefix("f:") {
                let b = u64::from_str_radix(h, 16).map_err(|e| format!("{}: {}", s, e))?;
                Ok(NNum::Float(f64::from_bits(b)))
            } else if let Some(h) = s.strip_prefix("c:") {
                let p: Vec<&str> = h.split(':').collect();
                if p.len() != 2 {
                    return Err(format!("bad complex literal {}", s));
                }
                let re = u64::from_str_radix(p[0], 16).map_err(|e| e.to_string())?;
                let im = u64::from_str_radix(p[1], 16).map_err(|e| e.to_string())?;
                Ok(NNum::Complex(Complex64::new(f64::from_bits(re), f64::from_bits(im))))
            } else if let Some((n, d)) = s.split_once('/') {
                let n: BigInt = n.parse().map_err(|_| format!("bad numerator in {}", s))?;
                let d: BigInt = d.parse().map_err(|_| format!("bad denominator in {}", s))?;
                Ok(NNum::from(BigRational::new_raw(n, d)))
            } else {
                let n: BigInt = s.parse().map_err(|_| format!("bad literal {:?}", s))?;
                Ok(NNum::from(n))
            }
        }
        Tm::App(f, args) => {
            let a: Vec<NNum> = args.iter().map(eval_term).collect::<Result<_, _>>()?;
            let mut it = a.into_iter();
            let mut next = || it.next().ok_or_else(|| format!("{}: missing argument", f));
            Ok(match f.as_str() {
                "conv:int" => NNum::Float(bigint_to_f64(&as_i(next()?)?)),
                "conv:rat" => NNum::Float(rat_to_f64(&as_q(next()?)?)),
                "fop:add" => NNum::Float(as_f(next()?)? + as_f(next()?)?),
                "fop:sub" => NNum::Float(as_f(next()?)? - as_f(next()?)?),
                "fop:mul" => NNum::Float(as_f(next()?)? * as_f(next()?)?),
                "fop:div" => NNum::Float(as_f(next()?)? / as_f(next()?)?),
                "fop:rem" => NNum::Float(as_f(next()?)? % as_f(next()?)?),
                "fop:diveuclid" => NNum::Float(as_f(next()?)?.div_euclid(as_f(next()?)?)),
                "fop:remeuclid" => NNum::Float(as_f(next()?)?.rem_euclid(as_f(next()?)?)),
                "fop:neg" => NNum::Float(-as_f(next()?)?),
                "cof" => NNum::Complex(Complex64::from(as_f(next()?)?)),
                "re" => NNum::Float(as_c(next()?)?.re),
                "im" => NNum::Float(as_c(next()?)?.im),
                "cop:add" => NNum::Complex(as_c(next()?)? + as_c(next()?)?),
                "cop:sub" => NNum::Complex(as_c(next()?)? - as_c(next()?)?),
                "cop:mul" => NNum::Complex(as_c(next()?)? * as_c(next()?)?),
                "cop:div" => NNum::Complex(as_c(next()?)? / as_c(next()?)?),
                "cop:rem" => NNum::Complex(as_c(next()?)? % as_c(next()?)?),
                "cop:floorparts" => {
                    let c = as_c(next()?)?;
                    NNum::Complex(Complex64::new(c.re.floor(), c.im.floor()))
                }
                "cop:divf" => NNum::Complex(as_c(next()?)? / as_f(next()?)?),
                "cop:fdiv" => NNum::Complex(as_f(next()?)? / as_c(next()?)?),
                "cop:neg" => NNum::Complex(-as_c(next()?)?),
                "pd:powf" => powf_pd(as_f(next()?)?, as_f(next()?)?),
                "pd:powif" => {
                    let (x, b) = (as_f(next()?)?, as_i(next()?)?);
                    let fx = powif_f(x, &b);
                    if fx.is_nan() {
                        let zx = powif_c(Complex64::from(x), &b);
                        if !zx.re.is_nan() && !zx.im.is_nan() {
                            return Ok(NNum::from(zx));
                        }
                    }
                    NNum::from(fx)
                }
                "cop:powf" => NNum::Complex(as_c(next()?)?.powf(as_f(next()?)?)),
                "cop:powif" => {
                    let (z, b) = (as_c(next()?)?, as_i(next()?)?);
                    NNum::Complex(powif_c(z, &b))
                }
                "cop:powc" => NNum::Complex(as_c(next()?)?.powc(as_c(next()?)?)),
                other => return Err(format!("unknown term head {}", other)),
            })
        }
    }
}
/// canonical text of a driver answer (`ok <obj>` | `throw` | `panic`)
fn eval_answer(ans: &str) -> String {
    let Some(body) = ans.strip_prefix("ok ") else {
        return ans.to_string();
    };
    let s = body.as_bytes();
    let res: Result<String, String> = (|| {
        if body == "other" {
            return Ok("other".to_string());
        }
        if body.starts_with("v[") {
            let mut pos = 2;
            let mut items = vec![];
            if s.get(pos) == Some(&b']') {
                return Ok("v[]".to_string());
            }
            loop {
                let t = parse_term(s, &mut pos);
                items.push(canon_num(&eval_term(&t)?));
                if s.get(pos) == Some(&b',') {
                    pos += 1;
                    continue;
                }
                break;
            }
            Ok(format!("v[{}]", items.join(",")))
        } else {
            let mut pos = 0;
            let t = parse_term(s, &mut pos);
            Ok(canon_num(&eval_term(&t)?))
        }
    })();
    match res {
        Ok(v) => format!("ok {}", v),
        Err(e) => format!("unevaluable answer {:?}: {}", ans, e),
    }
}

// ---------------------------------------------------------------------------------------------
// generators
fn pow2(k: u32) -> BigInt {
    BigInt::one() << (k as usize)
}
fn special_ints() -> Vec<BigInt> {
    let mut v: Vec<BigInt> = vec![];
    for k in [0i64, 1, 2, 3, 4, 5, 6, 7, 10, 12, 60, 97, 100, 360] {
        v.push(BigInt::from(k));
        v.push(BigInt::from(-k));
    }
    for b in [31u32, 32, 53, 63, 64, 65, 100] {
        for d in -1i64..=1 {
            v.push(pow2(b) + d);
            v.push(-pow2(b) + d);
        }
    }
    v.push(pow2(53) + BigInt::from(3)); // ties of the int -> float conversion
    v.push(pow2(54) + BigInt::from(2));
    v.push(pow2(54) + BigInt::from(6));
    v.push(pow2(1024) - pow2(970)); // rounds to +inf
    v.push(pow2(1024) - pow2(970) - BigInt::one()); // largest int rounding to f64::MAX
    v.push("100000000000000000000".parse().unwrap());
    v.push("-100000000000000000001".parse().unwrap());
    v.sort();
    v.dedup();
    v
}
fn q(n: BigInt, d: BigInt) -> BigRational {
    BigRational::new(n, d)
}
fn special_rats() -> Vec<BigRational> {
    let mut v = vec![];
    for (n, d) in [
        (1i64, 2i64), (1, 3), (2, 3), (3, 2), (5, 2), (7, 2), (7, 3), (1, 4), (3, 4), (9, 4), (1, 10), (22, 7), (355, 113),
        (0, 1), (1, 1), (2, 1), (3, 1), (6, 1), (12, 1), // integral-valued rationals
        (1, 1000000007), (1000000007, 3),
    ] {
        v.push(q(BigInt::from(n), BigInt::from(d)));
        if n != 0 {
            v.push(q(BigInt::from(-n), BigInt::from(d)));
        }
    }
    v.push(q(pow2(70) + BigInt::one(), BigInt::from(3)));
    v.push(q(-(pow2(70) + BigInt::one()), BigInt::from(2)));
    v.push(q(BigInt::one(), pow2(80)));
    v.push(q(-BigInt::one(), pow2(64)));
    v.push(q(pow2(64), BigInt::one()));
    v.push(q(-pow2(100), BigInt::one()));
    v.push(q(pow2(64) + BigInt::one(), pow2(64) - BigInt::one()));
    v.push(q(BigInt::from(3), pow2(1100))); // below the smallest subnormal
    v.push(q(BigInt::from(-3), pow2(1100)));
    v.push(q(BigInt::one(), pow2(1075))); // half the smallest subnormal: a tie
    v.push(q(BigInt::from(3), pow2(1075)));
    v.push(q(-(pow2(1024) - pow2(970)), BigInt::one())); // first value rounding to -inf
    v.push(q(pow2(1024) - pow2(970) - BigInt::one(), BigInt::from(7)));
    v.push(q(pow2(1030), BigInt::from(3))); // above the largest finite float
    v
}
fn special_floats() -> Vec<u64> {
    let mut v: Vec<u64> = vec![];
    for f in [
        0.0f64, 1.0, 2.0, 3.0, 0.5, 1.5, 2.5, 3.5, 0.1, 0.25, 2.75, 7.0, 1e10, 1e19, 1e300, 9007199254740992.0,
        9007199254740994.0, 9223372036854775808.0, 4294967296.0, 0.49999999999999994, 1e-300,
        f64::MAX, f64::MIN_POSITIVE, f64::EPSILON, f64::INFINITY,
    ] {
        v.push(f.to_bits());
        v.push((-f).to_bits());
    }
    v.push(1); // smallest subnormal
    v.push(0x000f_ffff_ffff_ffff); // largest subnormal
    v.push(f64::NAN.to_bits());
    v.push(0x7ff0_0000_0000_0001); // another NaN
    v
}
fn rand_bigint(rng: &mut Rng, max_bits: u64) -> BigInt {
    let bits = match rng.below(6) {
        0 => rng.below(4),
        1 => rng.below(12),
        2 => 55 + rng.below(20),
        3 => rng.below(40),
        _ => rng.below(max_bits),
    };
    let mut x = BigInt::zero();
    let mut got = 0;
    while got < bits {
        let take = std::cmp::min(60, bits - got);
        x = (x << (take as usize)) + BigInt::from(rng.below(1u64 << take));
        got += take;
    }
    if rng.chance(1, 2) {
        -x
    } else {
        x
    }
}
struct Pools {
    ints: Vec<BigInt>,
    rats: Vec<BigRational>,
    floats: Vec<u64>,
    max_bits: u64,
}
impl Pools {
    fn int(&self, rng: &mut Rng) -> BigInt {
        if rng.chance(1, 2) {
            rng.pick(&self.ints).clone()
        } else {
            rand_bigint(rng, self.max_bits)
        }
    }
    fn rat(&self, rng: &mut Rng) -> BigRational {
        if rng.chance(2, 5) {
            rng.pick(&self.rats).clone()
        } else {
            let n = rand_bigint(rng, self.max_bits);
            let mut d = rand_bigint(rng, self.max_bits).abs();
            if rng.chance(1, 3) {
                d = BigInt::from(1 + rng.below(12));
            }
            if d.is_zero() {
                d = BigInt::one();
            }
            q(n, d)
        }
    }
    fn float(&self, rng: &mut Rng) -> u64 {
        match rng.below(10) {
            0..=4 => *rng.pick(&self.floats),
            5 => ((rng.range(-40, 40) as f64) / 4.0).to_bits(), // small quarters: exact halves etc.
            6 => (rng.range(-1000, 1000) as f64).to_bits(),
            7 => (((rng.next() >> 11) as f64) * (2.0f64).powi(rng.range(-80, 30) as i32)
                * if rng.chance(1, 2) { -1.0 } else { 1.0 })
            .to_bits(),
            _ => rng.next(),
        }
    }
    fn num(&self, rng: &mut Rng) -> Val {
        match rng.below(10) {
            0..=2 => Val::Int(self.int(rng)),
            3..=6 => Val::Rat(self.rat(rng)),
            7..=8 => Val::Float(self.float(rng)),
            _ => Val::Complex(self.float(rng), self.float(rng)),
        }
    }
    fn exact(&self, rng: &mut Rng) -> Val {
        if rng.chance(2, 5) {
            Val::Int(self.int(rng))
        } else {
            Val::Rat(self.rat(rng))
        }
    }
    fn obj(&self, rng: &mut Rng) -> VO {
        match rng.below(20) {
            0..=11 => VO::Num(self.num(rng)),
            12..=18 => {
                let n = rng.below(5);
                VO::Vec((0..n).map(|_| self.num(rng)).collect())
            }
            _ => VO::Other(rng.below(5)),
        }
    }
}

fn bits_of(v: &Val) -> u64 {
    match v {
        Val::Int(i) => i.bits(),
        Val::Rat(r) => r.numer().bits().max(r.denom().bits()),
        _ => 0,
    }
}
fn is_unit_or_zero(v: &Val) -> bool {
    match v {
        Val::Int(i) => i.abs() <= BigInt::one(),
        Val::Rat(r) => r.numer().abs() <= BigInt::one() && r.denom().is_one(),
        _ => false,
    }
}
/// `^` cases the real code (and the model) cannot reasonably run
fn pow_ok(a: &Val, b: &Val) -> bool {
    match (a, b) {
        (Val::Int(_) | Val::Rat(_), Val::Int(e)) => {
            let m = e.abs();
            // the bases 0, 1, -1 (int or rational) are cheap for exponents of any size
            is_unit_or_zero(a) || (m <= BigInt::from(300) && bits_of(a) * m.to_u64().unwrap_or(0) <= 60_000)
        }
        _ => true,
    }
}
/// build a finite float from sign, 53-bit-or-less integer significand and power of two (exact)
fn mkf(neg: bool, sig: u64, exp: i32) -> u64 {
    // sig * 2^exp computed exactly by two multiplications by powers of two (each exact or, when the
    // result leaves the range, correctly rounded by the hardware; generators only need *some* float)
    let mut v = sig as f64; // exact for sig < 2^53
    let mut e = exp;
    while e > 1000 {
        v *= (2.0f64).powi(1000);
        e -= 1000;
    }
    while e < -1000 {
        v *= (2.0f64).powi(-1000);
        e += 1000;
    }
    v *= (2.0f64).powi(e);
    (if neg { -v } else { v }).to_bits()
}
/// operand pairs aimed at the rounding boundaries of IEEE + - * / : ties, near-ties, carries into the
/// next binade, cancellation, subnormal results, underflow to zero, overflow to infinity, signed
/// zeros, infinities and NaN
fn float_pair(rng: &mut Rng, pools: &Pools) -> (u64, u64) {
    let neg = |rng: &mut Rng| rng.chance(1, 2);
    let sig53 = |rng: &mut Rng| (1u64 << 52) | (rng.next() >> 12);
    match rng.below(16) {
        0 => {
            // a + half an ulp (exact tie), both parities of a
            let e = rng.range(-1070, 960) as i32;
            let a = sig53(rng);
            let same = rng.chance(1, 2);
            let na = neg(rng);
            (mkf(na, a, e), mkf(if same { na } else { !na }, 1, e - 1))
        }
        1 => {
            // a + (half an ulp +- a little): just above / below the tie
            let e = rng.range(-1000, 960) as i32;
            let a = sig53(rng);
            let d = ((1i64 << 30) + rng.range(-1, 1)) as u64;
            let na = neg(rng);
            (mkf(na, a, e), mkf(if rng.chance(1, 2) { na } else { !na }, d, e - 31))
        }
        2 => {
            // around a power of two: the spacing changes (2^k - quarter ulp etc.)
            let e = rng.range(-1000, 960) as i32;
            let a = if rng.chance(1, 2) { 1u64 << 52 } else { (1u64 << 53) - 1 };
            let na = neg(rng);
            (mkf(na, a, e), mkf(neg(rng), 1 + rng.below(7), e - 3))
        }
        3 => {
            // close exponents, random significands: alignment shifts of 0..60 bits, cancellation
            let e = rng.range(-1074, 960) as i32;
            let d = rng.range(0, 60) as i32;
            (mkf(neg(rng), sig53(rng), e + d), mkf(neg(rng), sig53(rng), e))
        }
        4 => {
            // products / quotients of full significands (106-bit exact products)
            let e1 = rng.range(-600, 500) as i32;
            let e2 = rng.range(-600, 500) as i32;
            (mkf(neg(rng), sig53(rng), e1), mkf(neg(rng), sig53(rng), e2))
        }
        5 => {
            // odd significand times k/2, k/4: ties of the product, also in the subnormal range
            let k = *rng.pick(&[1u64, 3, 5, 7, 9, 11]);
            let e = rng.range(-1074, 900) as i32;
            let a = if rng.chance(1, 3) { 1 + 2 * rng.below(8) } else { sig53(rng) | 1 };
            (mkf(neg(rng), a, e), mkf(neg(rng), k, -(1 + rng.below(2) as i32)))
        }
        6 => {
            // results in or near the subnormal range
            let e1 = rng.range(-1074, -500) as i32;
            let e2 = -1074 - 52 - e1 + rng.range(-60, 60) as i32;
            (mkf(neg(rng), sig53(rng), e1), mkf(neg(rng), sig53(rng), e2 - 52))
        }
        7 => {
            // results at the overflow threshold: MAX + 2^970 (tie -> inf), MAX + 2^969, products near 2^1024
            let max = f64::MAX.to_bits();
            let b = *rng.pick(&[mkf(false, 1, 970), mkf(false, 1, 969), mkf(false, 3, 968), mkf(false, (1 << 53) - 1, 917), max, mkf(false, 1, 971)]);
            let s = neg(rng);
            (max | ((s as u64) << 63), b | ((s as u64) << 63))
        }
        8 => {
            let e1 = rng.range(400, 971) as i32;
            let e2 = 971 - e1 + rng.range(-3, 3) as i32;
            (mkf(neg(rng), sig53(rng), e1), mkf(neg(rng), sig53(rng), e2 - 52))
        }
        9 => {
            // subnormal operands
            (rng.below(1 << 52) | ((neg(rng) as u64) << 63), if rng.chance(1, 2) { rng.below(1 << 52) } else { pools.float(rng) })
        }
        10 => {
            // x and -x, x and x: exact zero sums, sign of zero
            let a = pools.float(rng);
            (a, if rng.chance(1, 2) { a ^ (1 << 63) } else { a })
        }
        11 => {
            // zeros, infinities, NaN against anything
            let sp = [0u64, 1 << 63, f64::INFINITY.to_bits(), f64::NEG_INFINITY.to_bits(), f64::NAN.to_bits(), 0xfff8_0000_0000_0001];
            let a = *rng.pick(&sp);
            let b = if rng.chance(1, 2) { *rng.pick(&sp) } else { pools.float(rng) };
            if rng.chance(1, 2) { (a, b) } else { (b, a) }
        }
        12 => {
            // small integers and simple fractions (1/3, 1/10 ...)
            ((rng.range(-50, 50) as f64).to_bits(), (rng.range(-50, 50) as f64).to_bits())
        }
        13 => {
            // division with a short divisor: repeating binary expansions
            (mkf(neg(rng), sig53(rng), rng.range(-1074, 900) as i32), mkf(neg(rng), 1 + 2 * rng.below(50), rng.range(-60, 60) as i32))
        }
        _ => (pools.float(rng), pools.float(rng)),
    }
}

fn pow_ok_obj(a: &VO, b: &VO) -> bool {
    let xs: Vec<&Val> = match a {
        VO::Num(v) => vec![v],
        VO::Vec(vs) => vs.iter().collect(),
        _ => vec![],
    };
    let ys: Vec<&Val> = match b {
        VO::Num(v) => vec![v],
        VO::Vec(vs) => vs.iter().collect(),
        _ => vec![],
    };
    xs.iter().all(|x| ys.iter().all(|y| pow_ok(x, y)))
}

struct Case {
    key: String,
    src: String,
    req: String,
    nontrivial: bool,
    share: &'static str,
}

/// who else holds the operands when the operator runs (the result must not depend on it)
const SHARE_MODES: &[&str] = &[
    "inline", "var-lit", "lit-var", "var-var", "temp-lit", "var-temp", "temp-temp", "list-elems", "var-lit-kept",
];
static NAME_COUNTER: std::sync::atomic::AtomicU64 = std::sync::atomic::AtomicU64::new(0);
fn fresh() -> u64 {
    NAME_COUNTER.fetch_add(1, std::sync::atomic::Ordering::Relaxed)
}
/// a fresh temporary with the same value: the result of another (vectorised) operation
fn temp(src: &str) -> String {
    format!("(-(-({})))", src)
}
fn bin_src(op: &str, sa: &str, sb: &str, mode: &str) -> String {
    let n = fresh();
    match mode {
        "var-lit" => format!("qa{n} := {sa}; qa{n} {op} ({sb})"),
        "lit-var" => format!("qb{n} := {sb}; ({sa}) {op} qb{n}"),
        "var-var" => format!("qa{n} := {sa}; qb{n} := {sb}; qa{n} {op} qb{n}"),
        "temp-lit" => format!("{} {op} ({sb})", temp(sa)),
        "var-temp" => format!("qa{n} := {sa}; qa{n} {op} {}", temp(sb)),
        "temp-temp" => format!("{} {op} {}", temp(sa), temp(sb)),
        "list-elems" => format!("ql{n} := [{sa}, {sb}]; ql{n}[0] {op} ql{n}[1]"),
        // a second holder that is still alive AFTER the operation (a copy made before it)
        "var-lit-kept" => format!("qa{n} := {sa}; qk{n} := qa{n}; qr{n} := qa{n} {op} ({sb}); qr{n}"),
        _ => format!("({sa}) {op} ({sb})"),
    }
}
fn mk_bin_mode(op: &str, a: &VO, b: &VO, mode: &'static str, rng: &mut Rng) -> Case {
    let src = bin_src(op, &a.src(rng), &b.src(rng), mode);
    let trivial = matches!((a, b), (VO::Num(Val::Int(x)), VO::Num(Val::Int(y))) if x.bits() < 31 && y.bits() < 31);
    Case {
        key: format!("{}({},{})", op, a.kind(), b.kind()),
        src,
        req: format!("bin {} {} {}", op, a.tok(), b.tok()),
        nontrivial: !trivial,
        share: mode,
    }
}
fn mk_bin(op: &str, a: &VO, b: &VO, rng: &mut Rng) -> Case {
    // half of all cases spell both operands inline, the rest picks a sharing configuration
    let mode = if rng.chance(1, 2) { "inline" } else { *rng.pick(SHARE_MODES) };
    mk_bin_mode(op, a, b, mode, rng)
}
/// the same variable on both sides
fn mk_bin_same(op: &str, a: &VO, rng: &mut Rng) -> Case {
    let n = fresh();
    let src = format!("qa{n} := {}; qa{n} {op} qa{n}", a.src(rng));
    Case {
        key: format!("{}({},{})", op, a.kind(), a.kind()),
        src,
        req: format!("bin {} {} {}", op, a.tok(), a.tok()),
        nontrivial: true,
        share: "same-var",
    }
}
fn mk_un(op: &str, a: &VO, rng: &mut Rng) -> Case {
    let s = a.src(rng);
    let call = |arg: &str| match op {
        "neg" => format!("-({})", arg),
        f => format!("{}({})", f, arg),
    };
    let n = fresh();
    let (src, share) = match rng.below(6) {
        0 => (format!("qa{n} := {s}; {}", call(&format!("qa{n}"))), "var"),
        1 => (call(&temp(&s)), "temp"),
        _ => (call(&s), "inline"),
    };
    let trivial = matches!(a, VO::Num(Val::Int(x)) if x.bits() < 31);
    Case {
        key: format!("{}({})", op, a.kind()),
        src,
        req: format!("un {} {}", op, a.tok()),
        nontrivial: !trivial,
        share,
    }
}

fn main() {
    let args = parse_args();
    install_quiet_panic_hook();
    let mut rep = Report::new("C07", &args);
    rep.rule = "operands from pools over all four levels (ints incl. +-2^31, 2^53, 2^63, 2^64, 2^100 and \
                neighbours and random up to max_bits bits; fractions incl. halves, integral-valued n/1, \
                negative, huge/tiny and random; floats incl. +-0, halves, 2^53, subnormals, max, +-inf, \
                NaN and random bit patterns; complex from two such floats), spelled in several equivalent \
                ways (literal, ^1, unreduced n*k/d*k, negative denominator, rational(n), bits_to_float, \
                mkc) x operators + - * / % // %% ^ and neg floor ceil round int rational float \
                numerator denominator x shapes (scalar, vectors of length 0-4 of mixed levels, \
                mismatched lengths, non-numbers) x sharing configurations of the operands (inline, bound to variables, \
                fresh temporaries, list elements, the same variable twice, a copy kept alive) + `^` with \
                exponents at the 2^15/16/31/32/63/64 boundaries for the cheap bases 0, 1, -1 (int and \
                rational), floats and complex numbers, also in vectors + a stream of float pairs at the IEEE rounding boundaries for + - * / (exact \
                ties and near-ties, binade carries, cancellation, subnormal results, underflow, the \
                overflow threshold, signed zeros, infinities, NaN); a case is non-trivial unless both operands are ints \
                below 2^31; distinct = distinct source texts"
        .into();
    let interp = Interp::new();
    interp.env.borrow_mut().insert_builtin(MkC);

    // replay mode
    if let Some(path) = &args.replay {
        let text = std::fs::read_to_string(path).expect("replay file");
        for line in text.lines() {
            if let Some(rest) = line.strip_prefix("input: ") {
                println!("rust: {}", interp.eval(rest).detail());
            }
            if let Some(rest) = line.strip_prefix("request: ") {
                let r = run_driver(&args.driver, &[rest.to_string()]);
                let (i, s) = split_resp(&r[0]);
                println!("model impl: {}  =  {}", i, eval_answer(&i));
                println!("model spec: {}  =  {}", s, eval_answer(&s));
            }
        }
        return;
    }

    let (n_cases, max_bits) = match args.tier.as_str() {
        "thorough" => (400_000usize, 700u64),
        _ => (80_000usize, 300u64),
    };
    let pools = Pools { ints: special_ints(), rats: special_rats(), floats: special_floats(), max_bits };
    let mut rng = Rng::new(args.seed);
    let mut cases: Vec<Case> = vec![];

    // 0. corpus: the inputs of past findings (F7 rational %%, F9 `%` by zero, F10 0^negative) and the
    //    examples of the property text, run first
    {
        let i = |n: i64| VO::Num(Val::Int(BigInt::from(n)));
        let r = |n: i64, d: i64| VO::Num(Val::Rat(q(BigInt::from(n), BigInt::from(d))));
        let fixed: Vec<(&str, VO, VO)> = vec![
            ("%%", r(-7, 2), i(2)), ("//", r(-7, 2), i(2)), ("%%", i(6), r(-12, 1)), ("%%", r(1, 2), r(-1, 3)),
            ("%%", r(-3, 1), i(2)), ("%", i(5), i(0)), ("%", r(1, 2), i(0)), ("%", r(1, 2), r(0, 1)),
            ("^", i(0), i(-1)), ("^", r(0, 1), i(-1)), ("^", i(2), i(-2)), ("^", r(2, 3), i(-2)),
            ("/", i(2), i(2)), ("/", i(35), i(28)), ("/", i(7), i(4)), ("/", i(1), i(0)), ("/", i(0), i(0)),
            ("/", i(-1), i(0)), ("/", r(1, 2), i(0)), ("//", i(7), i(-2)), ("%%", i(7), i(-2)),
            ("+", VO::Vec(vec![Val::Int(BigInt::from(4)), Val::Int(BigInt::from(6))]), i(1)),
        ];
        for (op, a, b) in fixed {
            cases.push(mk_bin(op, &a, &b, &mut rng));
        }
    }
    // 1. systematic: every operator on every pair of levels with special values (scalars)
    let level_samples = |rng: &mut Rng, lvl: usize| -> Val {
        match lvl {
            0 => Val::Int(rng.pick(&pools.ints).clone()),
            1 => Val::Rat(rng.pick(&pools.rats).clone()),
            2 => Val::Float(*rng.pick(&pools.floats)),
            _ => Val::Complex(*rng.pick(&pools.floats), *rng.pick(&pools.floats)),
        }
    };
    let per_cell = if args.tier == "thorough" { 200 } else { 40 };
    for op in BIN_OPS {
        for la in 0..4 {
            for lb in 0..4 {
                for _ in 0..per_cell {
                    let (a, b) = (level_samples(&mut rng, la), level_samples(&mut rng, lb));
                    if *op == "^" && !pow_ok(&a, &b) {
                        continue;
                    }
                    cases.push(mk_bin(op, &VO::Num(a), &VO::Num(b), &mut rng));
                }
            }
        }
    }
    for op in UN_OPS {
        for la in 0..4 {
            for _ in 0..per_cell * 2 {
                let a = level_samples(&mut rng, la);
                cases.push(mk_un(op, &VO::Num(a), &mut rng));
            }
        }
    }
    // 2. the floor-division family on exact operands of either sign (the identity of the property)
    for _ in 0..(n_cases / 10) {
        let a = pools.exact(&mut rng);
        let mut b = pools.exact(&mut rng);
        if rng.chance(1, 6) {
            // exact multiples and near-multiples
            if let (Some(x), Some(y)) = (to_q(&a), to_q(&b)) {
                let k = BigInt::from(rng.range(-9, 9));
                let m = &y * BigRational::from(k);
                let _ = x;
                b = if y.is_integer() && rng.chance(1, 2) { Val::Int(y.to_integer()) } else { Val::Rat(y) };
                let a2 = if m.is_integer() && rng.chance(1, 2) { Val::Int(m.to_integer()) } else { Val::Rat(m) };
                let op = *rng.pick(&["//", "%%", "%", "/"]);
                cases.push(mk_bin(op, &VO::Num(a2), &VO::Num(b.clone()), &mut rng));
                continue;
            }
        }
        let op = *rng.pick(&["//", "%%", "%", "/"]);
        cases.push(mk_bin(op, &VO::Num(a), &VO::Num(b), &mut rng));
    }
    // 3. exact bases with integer exponents
    for _ in 0..(n_cases / 20) {
        let a = pools.exact(&mut rng);
        let e = Val::Int(BigInt::from(rng.range(-12, 12)));
        if pow_ok(&a, &e) {
            cases.push(mk_bin("^", &VO::Num(a), &VO::Num(e), &mut rng));
        }
    }
    // 3b. IEEE rounding of the float level: + - * / on operand pairs at the rounding boundaries
    //     (the Spec column is the exact rational result rounded once, computed in Lean)
    for _ in 0..(n_cases / 4) {
        let (a, b) = float_pair(&mut rng, &pools);
        let op = *rng.pick(&["+", "-", "*", "/", "+", "-", "*", "/", "%", "//", "%%"]);
        let (mut va, mut vb) = (VO::Num(Val::Float(a)), VO::Num(Val::Float(b)));
        // sometimes one operand is an exact number (conversion, then the float operation) or a vector
        match rng.below(12) {
            0 => va = VO::Num(pools.exact(&mut rng)),
            1 => vb = VO::Num(pools.exact(&mut rng)),
            2 => va = VO::Vec(vec![Val::Float(a), pools.exact(&mut rng), Val::Float(b)]),
            _ => {}
        }
        cases.push(mk_bin(op, &va, &vb, &mut rng));
    }
    for _ in 0..(n_cases / 60) {
        let (a, _) = float_pair(&mut rng, &pools);
        cases.push(mk_un("neg", &VO::Num(Val::Float(a)), &mut rng));
    }
    // 3c. `^` with exponents at the i16 / i32 / u32 / i64 / u64 boundaries, for the bases whose power
    //     is cheap at every level (0, 1, -1 as int and as rational; a few floats and complex numbers)
    {
        let mut exps: Vec<BigInt> = vec![];
        for k in [15u32, 16, 31, 32, 63, 64] {
            for d in -2i64..=2 {
                exps.push(pow2(k) + BigInt::from(d));
                exps.push(-(pow2(k) + BigInt::from(d)));
            }
        }
        for e in ["3000000000", "2500000000", "4000000000", "-3000000000", "6442450944", "1000000000000"] {
            exps.push(e.parse().unwrap());
        }
        let mut bases: Vec<Val> = vec![];
        for k in [0i64, 1, -1] {
            bases.push(Val::Int(BigInt::from(k)));
            bases.push(Val::Rat(q(BigInt::from(k), BigInt::one())));
        }
        for f in [0.0f64, -0.0, 1.0, -1.0, 2.0, 0.5, -2.0, 1.0000000000000002, f64::INFINITY, f64::NAN] {
            bases.push(Val::Float(f.to_bits()));
        }
        for (re, im) in [(1.0f64, 0.0f64), (0.0, 1.0), (0.0, 0.0), (-1.0, 0.0)] {
            bases.push(Val::Complex(re.to_bits(), im.to_bits()));
        }
        let reps = if args.tier == "thorough" { 3 } else { 1 };
        for _ in 0..reps {
            for b in &bases {
                for e in &exps {
                    cases.push(mk_bin("^", &VO::Num(b.clone()), &VO::Num(Val::Int(e.clone())), &mut rng));
                }
            }
        }
        for _ in 0..(400 * reps) {
            // vectors of cheap bases / of boundary exponents
            let nb = 1 + rng.below(4) as usize;
            let vb: Vec<Val> = (0..nb).map(|_| rng.pick(&bases).clone()).collect();
            let ve: Vec<Val> = (0..nb).map(|_| Val::Int(rng.pick(&exps).clone())).collect();
            match rng.below(3) {
                0 => cases.push(mk_bin("^", &VO::Vec(vb), &VO::Num(Val::Int(rng.pick(&exps).clone())), &mut rng)),
                1 => cases.push(mk_bin("^", &VO::Num(rng.pick(&bases).clone()), &VO::Vec(ve), &mut rng)),
                _ => cases.push(mk_bin("^", &VO::Vec(vb), &VO::Vec(ve), &mut rng)),
            }
        }
    }
    // 3d. every operator in every sharing configuration (who else holds the operands must not
    //     matter): vector/vector, vector/scalar, scalar/vector with values on which the
    //     non-commutative operators tell the operand order apart
    {
        let reps = if args.tier == "thorough" { 12 } else { 3 };
        for _ in 0..reps {
            for op in BIN_OPS {
                for mode in SHARE_MODES.iter().copied().chain(std::iter::once("same-var")) {
                    let n = 1 + rng.below(4) as usize;
                    let small = |rng: &mut Rng| -> Val {
                        match rng.below(4) {
                            0 => Val::Int(BigInt::from(rng.range(2, 40))),
                            1 => Val::Rat(q(BigInt::from(rng.range(-30, 30)), BigInt::from(rng.range(2, 9)))),
                            2 => Val::Float((rng.range(3, 60) as f64 / 4.0).to_bits()),
                            _ => Val::Int(BigInt::from(-rng.range(2, 9))),
                        }
                    };
                    let va: Vec<Val> = (0..n).map(|_| small(&mut rng)).collect();
                    let vb: Vec<Val> = (0..n).map(|_| Val::Int(BigInt::from(rng.range(1, 5)))).collect();
                    let shapes: Vec<(VO, VO)> = vec![
                        (VO::Vec(va.clone()), VO::Vec(vb.clone())),
                        (VO::Vec(va.clone()), VO::Num(vb[0].clone())),
                        (VO::Num(va[0].clone()), VO::Vec(vb.clone())),
                        (VO::Num(va[0].clone()), VO::Num(vb[0].clone())),
                    ];
                    for (a, b) in shapes {
                        if mode == "same-var" {
                            cases.push(mk_bin_same(op, &a, &mut rng));
                        } else {
                            cases.push(mk_bin_mode(op, &a, &b, mode, &mut rng));
                        }
                    }
                }
            }
        }
    }
    // 4. random objects (scalars, vectors, junk)
    while cases.len() < n_cases {
        if rng.chance(1, 4) {
            let op = *rng.pick(UN_OPS);
            let a = pools.obj(&mut rng);
            cases.push(mk_un(op, &a, &mut rng));
        } else {
            let op = *rng.pick(BIN_OPS);
            let a = pools.obj(&mut rng);
            let mut b = pools.obj(&mut rng);
            if let (VO::Vec(x), true) = (&a, rng.chance(1, 3)) {
                // equal lengths more often than chance gives
                b = VO::Vec((0..x.len()).map(|_| pools.num(&mut rng)).collect());
            }
            // with a vector involved the power must stay cheap in BOTH operand orders, so that a
            // wrapper that mixes the operands up yields a wrong value, not a run that never ends
            let has_vec = matches!(a, VO::Vec(_)) || matches!(b, VO::Vec(_));
            if op == "^" && (!pow_ok_obj(&a, &b) || (has_vec && !pow_ok_obj(&b, &a))) {
                continue;
            }
            cases.push(mk_bin(op, &a, &b, &mut rng));
        }
    }

    // run the real interpreter
    let mut rust_out = Vec::with_capacity(cases.len());
    for c in &cases {
        let out = interp.eval(&c.src);
        rep.case(&c.src, c.nontrivial);
        rep.arm(&c.key);
        rep.arm(&format!("sharing: {}", c.share));
        rep.outcome(match &out {
            Outcome::Ok(_) => "ok",
            Outcome::Throw(_) => "throw",
            Outcome::Panic(_) => "panic",
            _ => "other",
        });
        if let Outcome::Ok(v) = &out {
            // what kind of float the real interpreter produced (coverage of the rounding boundaries)
            if v == "f:nan" {
                rep.outcome("float result: nan");
            } else if let Some(h) = v.strip_prefix("f:") {
                if let Ok(b) = u64::from_str_radix(h, 16) {
                    let e = (b >> 52) & 0x7ff;
                    let m = b & ((1 << 52) - 1);
                    rep.outcome(match (e, m) {
                        (0x7ff, _) => "float result: infinity",
                        (0, 0) => "float result: zero",
                        (0, _) => "float result: subnormal",
                        (0x7fe, 0xf_ffff_ffff_ffff) => "float result: largest finite",
                        _ => "float result: normal",
                    });
                }
            }
        }
        rust_out.push(out);
    }
    // the model
    let requests: Vec<String> = cases.iter().map(|c| c.req.clone()).collect();
    let resp = run_driver(&args.driver, &requests);
    for (i, c) in cases.iter().enumerate() {
        let (im, sp) = split_resp(&resp[i]);
        let rust = rust_out[i].class();
        let full_input = format!("{}\nrequest: {}", c.src, c.req);
        if sp.is_empty() {
            rep.judge("driver", &full_input, &rust, &resp[i], &resp[i]);
            continue;
        }
        let ok = rep.judge(&c.key, &full_input, &rust, &eval_answer(&im), &eval_answer(&sp));
        if !ok && rep.notes.len() < 30 {
            rep.notes.push(format!("{} -> rust {} | impl {} | spec {}", c.src, rust_out[i].detail(), im, sp));
        }
    }
    rep.write(&args.out);
}

fn to_q(v: &Val) -> Option<BigRational> {
    match v {
        Val::Int(i) => Some(BigRational::from(i.clone())),
        Val::Rat(r) => Some(r.clone()),
        _ => None,
    }
}
