//! C15 correspondence: lexing and parsing are total; literals decode exactly.
//!
//! Families
//!   A  token streams: `noulith::lex(src)` vs `Impl.lex` (Lean model of lex.rs), token by token, on
//!      the test-suite programs, the examples, mutations of both, random token soups, random
//!      character soups and targeted boundary inputs; the same inputs go through `noulith::parse`
//!      under `catch_unwind` (totality: must return Ok or Err);
//!   A2 literal sequences: 2-4 literals of different kinds in one source text; every token must be what
//!      its literal decodes to when lexed alone (no lexer state leaks between tokens);
//!   B  literal round trip: a literal *value* rendered in every literal syntax -> real
//!      parse+evaluate vs Impl (lex + atom + evaluate arms) vs Spec (the denotation of the structured
//!      literal) vs the generator's intended value;
//!   C  format-string bodies: `parse("F\"…\"")` vs the Impl brace scanner;
//!   D  Unicode class tables of the model vs `char::is_*` for every scalar value;
//!   E  deep nesting in a CHILD process (the parser has no depth limit: known finding F24).
use num::bigint::BigInt;
use num::{One, ToPrimitive, Zero};
use std::panic::{catch_unwind, AssertUnwindSafe};
use vharness::*;

// ---------------------------------------------------------------------------------------------
// text <-> protocol
fn cps(s: &str) -> String {
    if s.is_empty() {
        "-".to_string()
    } else {
        s.chars().map(|c| format!("{:x}", c as u32)).collect::<Vec<_>>().join(".")
    }
}
fn uncps(s: &str) -> String {
    if s == "-" {
        return String::new();
    }
    s.split('.').filter_map(|t| u32::from_str_radix(t, 16).ok().and_then(char::from_u32)).collect()
}
fn show(s: &str) -> String {
    let t: String = s.chars().take(300).collect();
    format!("{:?}{}", t, if s.chars().count() > 300 { "…" } else { "" })
}

fn invalid_kind(msg: &str) -> &'static str {
    let table: &[(&str, &str)] = &[
        ("lexing: string literal: bad hex escape", "badHexEscape"),
        ("lexing: string literal: bad u escape end", "badUEnd"),
        ("lexing: string literal: u result too big", "uTooBig"),
        ("lexing: string literal: unknown escape", "unknownEscape"),
        ("lexing: string literal: escape eof", "escapeEof"),
        ("lexing: string literal hit eof", "stringEof"),
        ("lexing: runaway range comment", "runawayComment"),
        ("lexing: format string: no quote", "fmtNoQuote"),
        ("lexing: raw string literal: no quote", "rawNoQuote"),
        ("lexing: unrecognized char", "unrecognized"),
        ("lexing: invalid float", "invalidFloat"),
        ("lexing: invalid imaginary float", "invalidImag"),
    ];
    for (p, k) in table {
        if msg.starts_with(p) {
            return k;
        }
    }
    "other"
}

fn render_token(t: &noulith::Token) -> String {
    use noulith::Token::*;
    match t {
        Invalid(m) => format!("Invalid:{}", invalid_kind(m)),
        IntLit(n) => format!("Int:{}", n),
        RatLit(r) => {
            if r.denom().is_one() {
                format!("Rat:{}", r.numer())
            } else {
                format!("Rat:{}/{}", r.numer(), r.denom())
            }
        }
        FloatLit(f) => format!("Float:{}", &canon_f64(*f)[2..]),
        ImaginaryFloatLit(f) => format!("Imag:{}", &canon_f64(*f)[2..]),
        StringLit(s) => format!("Str:{}", cps(s)),
        BytesLit(b) => format!("Bytes:{}", hex(b)),
        FormatString(s) => format!("Fmt:{}", cps(s)),
        Ident(s) => format!("Ident:{}", cps(s)),
        Comment(s) => format!("Comment:{}", cps(s)),
        InternalPeekN(n) => format!("InternalPeekN:{}", n),
        other => format!("{:?}", other),
    }
}

/// the model prints the text handed to the f64 parser; apply Rust's own parser to it
fn float_text_to_bits(text: &str) -> String {
    match text.parse::<f64>() {
        Ok(f) => canon_f64(f)[2..].to_string(),
        Err(_) => format!("unparsable({})", text),
    }
}
fn normalise_model_tokens(line: &str) -> String {
    line.split(' ')
        .map(|t| {
            if let Some(x) = t.strip_prefix("Float:") {
                format!("Float:{}", float_text_to_bits(x))
            } else if let Some(x) = t.strip_prefix("Imag:") {
                format!("Imag:{}", float_text_to_bits(x))
            } else {
                t.to_string()
            }
        })
        .collect::<Vec<_>>()
        .join(" ")
}
fn normalise_model_value(v: &str) -> String {
    if let Some(x) = v.strip_prefix("ok float:") {
        format!("ok f:{}", float_text_to_bits(x))
    } else if let Some(x) = v.strip_prefix("ok imag:") {
        format!("ok c:0000000000000000:{}", float_text_to_bits(x))
    } else {
        v.to_string()
    }
}

/// `Report::judge` keeps at most 400 disagreements in total; keep at most `CAP` per key so that one
/// defect cannot hide the others
const CAP: usize = 6;
struct Judge {
    per_key: std::collections::HashMap<String, usize>,
}
impl Judge {
    fn judge(&mut self, rep: &mut Report, key: &str, input: &str, rust: &str, imp: &str, spec: &str) {
        if rust == spec && rust == imp {
            return;
        }
        let n = self.per_key.entry(key.to_string()).or_insert(0);
        *n += 1;
        if *n <= CAP {
            rep.judge(key, input, rust, imp, spec);
        }
    }
}

fn last_panic() -> String {
    // the quiet hook of vharness stores the message thread-locally; not exported, so only the class
    "panic".to_string()
}

fn rust_lex(src: &str) -> String {
    match catch_unwind(AssertUnwindSafe(|| noulith::lex(src))) {
        Ok(toks) => {
            let mut s = String::from("ok");
            for t in toks.iter() {
                s.push(' ');
                s.push_str(&render_token(&t.token));
            }
            s
        }
        Err(_) => last_panic(),
    }
}
/// "ok" (a tree or the empty program), "err" (ParseError), "panic"
fn rust_parse(src: &str) -> &'static str {
    match catch_unwind(AssertUnwindSafe(|| noulith::parse(src))) {
        Ok(Ok(_)) => "ok",
        Ok(Err(_)) => "err",
        Err(_) => "panic",
    }
}

// ---------------------------------------------------------------------------------------------
// corpus: the programs of the test suite and the examples
fn rust_string_literals_after(text: &str, marker: &str) -> Vec<String> {
    let b: Vec<char> = text.chars().collect();
    let m: Vec<char> = marker.chars().collect();
    let mut out = vec![];
    let mut i = 0;
    while i + m.len() < b.len() {
        if b[i..i + m.len()] == m[..] {
            let mut j = i + m.len();
            while j < b.len() && b[j].is_whitespace() {
                j += 1;
            }
            if j < b.len() && b[j] == '"' {
                j += 1;
                let mut s = String::new();
                while j < b.len() && b[j] != '"' {
                    if b[j] == '\\' && j + 1 < b.len() {
                        j += 1;
                        match b[j] {
                            'n' => s.push('\n'),
                            't' => s.push('\t'),
                            'r' => s.push('\r'),
                            '0' => s.push('\0'),
                            '\n' => {
                                while j + 1 < b.len() && b[j + 1].is_whitespace() {
                                    j += 1;
                                }
                            }
                            c => s.push(c),
                        }
                    } else {
                        s.push(b[j]);
                    }
                    j += 1;
                }
                out.push(s);
                i = j;
            }
        }
        i += 1;
    }
    out
}
fn load_corpus(notes: &mut Vec<String>) -> Vec<String> {
    let mut v = vec![];
    match std::fs::read_to_string("/repo/tests/test.rs") {
        Ok(t) => v.extend(rust_string_literals_after(&t, "simple_eval(")),
        Err(e) => notes.push(format!("cannot read /repo/tests/test.rs: {}", e)),
    }
    if let Ok(rd) = std::fs::read_dir("/repo/examples") {
        let mut paths: Vec<_> = rd.filter_map(|e| e.ok()).map(|e| e.path()).collect();
        paths.sort();
        for p in paths {
            if p.extension().map(|x| x == "noul").unwrap_or(false) {
                if let Ok(t) = std::fs::read_to_string(&p) {
                    v.push(t);
                }
            }
        }
    }
    v.sort();
    v.dedup();
    notes.push(format!("corpus: {} programs from tests/test.rs and examples/*.noul", v.len()));
    v
}

// ---------------------------------------------------------------------------------------------
// generators for family A
const FRAGMENTS: &[&str] = &[
    // keywords
    "if", "else", "while", "for", "yield", "into", "switch", "case", "null", "and", "or", "coalesce",
    "break", "try", "catch", "throw", "continue", "return", "consume", "pop", "remove", "swap",
    "every", "struct", "freeze", "import", "literally", "_", "__internal_frame", "__internal_push",
    "__internal_pop", "__internal_peek", "__internal_3", "__internal_while", "__internal_for",
    "__internal_call", "__internal_lambda", "🐉pop", "🐉7", "🐉", "🐉x",
    // identifiers
    "x", "y", "foo", "a1", "é", "λx", "x'", "ok?", "a_b", "B", "F", "R", "Bx", "É'a'", "X'a'", "x'a'", "B'a'",
    "变量", "ǅ'q'", "_x", "__internal_10", "ifx", "nullx",
    // numbers
    "0", "7", "12", "007", "0x1F", "0Xff", "0b101", "0B2", "0o17", "0O8", "36rZz", "2r101", "10r99", "37r1", "1r1",
    "0r0", "64rA+/", "64R-_", "65r1", "4294967295r1", "4294967296r1", "00016rff", "1.5", "1.", "1..2", "1.e5",
    "1e5", "1E5", "1e-5", "1e+5", "1e", "1e-", "1.5e", "2i", "3J", "4q", "5Q", "6f", "7F", "1.5e3", "1.5e3f", "1.5i", "1.f",
    "9223372036854775807", "9223372036854775808", "18446744073709551616", "0x", "0b", "0o", "0xg", "1r", "36r", "64r",
    "1e400", "1e-400", "0.1", "00.10", "1.5.3", "1x", "0e0", "0i", "0q", "0f", "0r", "12r", "123abc",
    // strings
    "\"a\"", "'b'", "\"\"", "''", "\"\\n\"", "\"\\x41\"", "\"\\u{41}\"", "\"\\u41\"", "\"\\q\"", "\"abc", "'abc",
    "\"\\", "\"\\x", "\"\\x4", "\"\\xg1\"", "\"\\x4g\"", "\"\\u{\"", "\"\\u{41\"", "\"\\u(41)\"", "\"\\u[41]\"", "\"\\u<41>\"",
    "\"\\u{d800}\"", "\"\\u{110000}\"", "\"\\u{ffffffff}\"", "\"\\u{0000000041}\"", "\"\\uzz\"", "\"\\u\"", "\"\\0\"", "\"\\'\\\"\\\\\"",
    "F\"{x}\"", "F\"a{{b}}\"", "F'{1+1}'", "F\"{\"", "F\"}\"", "F\"{}\"", "F\"{x #x}\"", "F\"{x #010}\"", "F\"", "F ", "F",
    "R\"a\\b\"", "R'a\\'", "R\"abc", "R ", "R", "B\"ab\"", "B'\\xff'", "B\"abc", "B[1,2]", "B[", "B[256]", "B [", "'it''s'",
    "\"é🐉\"", "'\t'", "\"\n\"",
    // operators
    "+", "-", "*", "/", "%", "==", "!=", "<=", ">=", "<", ">", "+=", "-=", ":=", "=", "===", "!==", "<==", "=>", "->", "<-", "<<-",
    "...", "..", ".", "!", "!!", "!=!", "∧", "∨", "≤", "≥", "≠", "×", "×=", "∈", "∉", "∘", "⊕", "⧺", "?", "+?", "?+", "$", "@", "~", "&&",
    "||", "|", "&", "^", "<<", ">>", "<=>", "<-=", "->=", "...=", "!=", "+∧", "∧=", "=∨",
    // delimiters
    "(", ")", "[", "]", "{", "}", "`", "\\", "\\\\", "\\\\\\", ",", ";", ":", "::", ":::",
    // blanks and comments
    " ", "  ", "\n", "\t", "\r", "\r\n", "\u{a0}", "\u{2003}", "\u{85}", "\u{3000}", "\u{feff}", "\u{200b}",
    "# c\n", "#\n", "#", "# c", "#(a(b)c)", "#()", "#(", "#((a)", "#(a))", "#(\n)", "#x", "##",
    // stray characters
    "§", "\"", "'", "\0", "😀", "\u{301}", "٣", "²", "Ⅷ", "½", "¢", "€", "©", "\u{10ffff}", "\u{e000}", "\u{7f}", "\u{1b}",
];
const CHARS: &[char] = &[
    'a', 'z', 'A', 'Z', 'B', 'F', 'R', 'e', 'E', 'x', 'X', 'b', 'o', 'r', 'i', 'j', 'q', 'f', 'u', 'n', 't', '_', '0', '1', '2',
    '7', '8', '9', '.', '-', '+', '=', '!', '<', '>', '*', '/', '%', '&', '|', '~', '^', '$', '@', '?', ':', ';', ',', '(',
    ')', '[', ']', '{', '}', '`', '\\', '\'', '"', '#', ' ', '\n', '\t', '\r', 'é', 'É', 'λ', 'ǅ', '∧', '∨', '≤', '×', '⧺',
    '🐉', '😀', '\u{a0}', '\u{301}', '٣', '²', '§', '\0', '\u{2028}', 'ß', 'İ', 'ª',
];

fn gen_soup(rng: &mut Rng) -> String {
    let lim = if rng.chance(1, 5) { 40 } else { 10 };
    let n = 1 + rng.below(lim);
    let mut s = String::new();
    let spaced = rng.chance(1, 2);
    for _ in 0..n {
        s.push_str(*rng.pick(FRAGMENTS));
        if spaced && rng.chance(3, 4) {
            s.push(' ');
        }
    }
    s
}
/// sequences of 2-4 literals of different kinds in one source text (lexer state must not leak from one
/// token to the next): strings / format strings with `\xHH` escapes at byte offsets 0..3, bytes
/// literals with multi-byte characters at the same offsets, raw strings, separated by blanks or
/// punctuation.  Returned as the units (literal or separator) whose concatenation is the source.
fn gen_literal_sequence(rng: &mut Rng) -> Vec<String> {
    let multi = ['é', 'ÿ', '\u{80}', '中', '🐉', 'λ', '\u{7ff}', '\u{800}'];
    let ascii = ['a', 'b', 'z', '0', ' ', '_'];
    let n = 2 + rng.below(3);
    let mut units: Vec<String> = vec![];
    for i in 0..n {
        let delim = if rng.chance(1, 2) { '\'' } else { '"' };
        let k = rng.below(4) as usize; // byte offset of the interesting character
        let mut body = String::new();
        for _ in 0..k {
            body.push(*rng.pick(&ascii));
        }
        let kind = rng.below(6);
        match kind {
            0 | 1 => {
                // a \xHH escape at offset k (sometimes several)
                body.push_str(&format!("\\x{:02x}", rng.below(256)));
                if rng.chance(1, 3) {
                    body.push_str(&format!("\\x{:02X}", rng.below(256)));
                }
            }
            _ => {
                // a multi-byte character at offset k
                body.push(*rng.pick(&multi));
                if rng.chance(1, 3) {
                    body.push(*rng.pick(&multi));
                }
            }
        }
        if rng.chance(1, 2) {
            body.push(*rng.pick(&ascii));
        }
        let prefix = match (kind, rng.below(4)) {
            (0, _) => "",          // plain string with \x
            (1, 0) => "B",         // bytes with \x
            (1, _) => "F",         // format string with \x
            (_, 0) => "",          // plain string with a multi-byte character
            (_, 1) => "F",
            (_, 2) => "R",
            _ => "B",              // bytes with a multi-byte character
        };
        units.push(format!("{}{}{}{}", prefix, delim, body, delim));
        if i + 1 < n {
            units.push(rng.pick(&[" ", "; ", ", ", " + ", "\n", " $ "][..]).to_string());
        }
    }
    units
}

fn gen_char_soup(rng: &mut Rng) -> String {
    let lim = if rng.chance(1, 5) { 60 } else { 14 };
    let n = 1 + rng.below(lim);
    let mut s = String::new();
    for _ in 0..n {
        if rng.chance(1, 30) {
            // any scalar value
            let cp = rng.below(0x110000) as u32;
            if let Some(c) = char::from_u32(cp) {
                s.push(c);
            }
        } else {
            s.push(*rng.pick(CHARS));
        }
    }
    s
}
fn mutate(rng: &mut Rng, src: &str) -> String {
    let mut v: Vec<char> = src.chars().collect();
    let k = 1 + rng.below(3);
    for _ in 0..k {
        let n = v.len();
        match rng.below(9) {
            0 if n > 0 => {
                v.remove(rng.below(n as u64) as usize);
            }
            1 => {
                let p = rng.below(n as u64 + 1) as usize;
                v.insert(p, *rng.pick(CHARS));
            }
            2 if n > 0 => {
                let p = rng.below(n as u64) as usize;
                v[p] = *rng.pick(CHARS);
            }
            3 if n > 1 => {
                let p = rng.below(n as u64 - 1) as usize;
                v.swap(p, p + 1);
            }
            4 if n > 0 => {
                v.truncate(rng.below(n as u64) as usize);
            }
            5 if n > 0 => {
                let a = rng.below(n as u64) as usize;
                let b = std::cmp::min(n, a + 1 + rng.below(12) as usize);
                let span: Vec<char> = v[a..b].to_vec();
                let p = rng.below(n as u64 + 1) as usize;
                for (i, c) in span.into_iter().enumerate() {
                    v.insert(p + i, c);
                }
            }
            6 => {
                let p = rng.below(n as u64 + 1) as usize;
                for (i, c) in rng.pick(FRAGMENTS).chars().enumerate() {
                    v.insert(p + i, c);
                }
            }
            7 if n > 0 => {
                // drop the head: the program starts in the middle of something
                let p = rng.below(n as u64) as usize;
                v.drain(0..p);
            }
            _ if n > 0 => {
                // delete a delimiter if there is one
                let idx: Vec<usize> = (0..n).filter(|i| "()[]{}\"'\\".contains(v[*i])).collect();
                if !idx.is_empty() {
                    v.remove(*rng.pick(&idx));
                }
            }
            _ => {}
        }
    }
    v.into_iter().collect()
}

fn targeted(tier_big: usize) -> Vec<(String, String)> {
    let mut v: Vec<(String, String)> = vec![];
    let mut add = |class: &str, s: String| v.push((class.to_string(), s));
    // every single-character escape (ASCII and a few others), in both delimiters, also at end of input
    let mut esc_chars: Vec<char> = (0u8..128).map(|b| b as char).collect();
    esc_chars.extend(['é', '🐉', '\u{a0}', 'λ']);
    for c in &esc_chars {
        add("escape", format!("\"\\{}\"", c));
        add("escape", format!("'a\\{}z' + 1", c));
        add("escape", format!("\"\\{}", c));
        add("escape", format!("B\"\\{}\"", c));
        add("escape", format!("F'\\{}'", c));
    }
    // \x with every combination of hex / non-hex / end of input
    let xs = ["0", "9", "a", "F", "g", "G", " ", "\"", "\\", "é", ""];
    for a in xs {
        for b in xs {
            add("xescape", format!("\"\\x{}{}\" 1", a, b));
            add("xescape", format!("\"\\x{}{}", a, b));
            add("xescape", format!("'q\\x{}{}r' 'next'", a, b));
        }
    }
    // \u: bracket styles x digit strings x closers
    let opens = ["", "{", "(", "[", "<"];
    let closes = ["", "}", ")", "]", ">", "x", " "];
    let digits = [
        "", "0", "41", "0041", "d7ff", "D800", "dfff", "e000", "E000", "10ffff", "10FFFF", "110000", "7fffffff", "ffffffff",
        "100000000", "fffffffff", "0000000041", "00000000000000000041", "123456789abcdef", "1f409", "g", "4g",
    ];
    for o in opens {
        for c in closes {
            for d in digits {
                add("uescape", format!("\"\\u{}{}{}\"", o, d, c));
                add("uescape", format!("'a\\u{}{}{}b' x", o, d, c));
            }
        }
    }
    for d in digits {
        add("uescape", format!("\"\\u{{{}", d));
        add("uescape", format!("\"\\u{}", d));
        add("uescape", format!("B\"\\u{{{}}}\"", d));
        add("uescape", format!("F\"\\u{{{}}}\"", d));
    }
    // radix forms
    let mut radices: Vec<String> = (0..=40u32).map(|r| r.to_string()).collect();
    radices.extend(
        ["63", "64", "65", "064", "0064", "00036", "002", "4294967295", "4294967296", "4294967298", "99999999999999999999", "100", "128", "256"]
            .iter()
            .map(|s| s.to_string()),
    );
    for r in &radices {
        for (rc, body) in [("r", "10"), ("R", "1z"), ("r", "Zz9"), ("r", "0"), ("r", ""), ("r", "aA+/-_"), ("r", "19"), ("R", "78"), ("r", "fg")] {
            add("radix", format!("{}{}{}", r, rc, body));
        }
    }
    for r in 2..=36u32 {
        // the largest digit, the first non-digit, both cases
        let top = std::char::from_digit(r - 1, r).unwrap();
        let over = if r < 36 { std::char::from_digit(r, 36).unwrap() } else { '_' };
        add("radix", format!("{}r{}{}", r, top, top.to_ascii_uppercase()));
        add("radix", format!("{}r{}{}", r, top, over));
        add("radix", format!("{}R1{}", r, over.to_ascii_uppercase()));
    }
    for p in ["0x", "0X", "0b", "0B", "0o", "0O", "00x", "1x", "0xx", "0x0x"] {
        for b in ["", "0", "1", "12", "7", "8", "9", "a", "f", "F", "g", "10", "ff_ff", "1.5", "1e5", "1i", "1q"] {
            add("prefix", format!("{}{}", p, b));
        }
    }
    // number suffixes and float shapes
    let ips = ["0", "1", "12", "007", "123456789012345678901234567890"];
    let fracs = ["", ".", ".5", ".05", ".123456789012345678901234567890"];
    let exps = ["", "e5", "E5", "e-5", "E-5", "e+5", "e", "e-", "E", "e05", "e400", "e-400", "e99999999999999999999", "e5e5", "e5.5"];
    let sufs = ["", "f", "F", "i", "I", "j", "J", "q", "Q", "r", "x", "b", "o", "e", ".", "..", "_", "é", "'", "?"];
    for ip in ips {
        for fr in fracs {
            for ex in exps {
                for su in sufs {
                    if (ip.len() > 3 || fr.len() > 4) && !(su.is_empty() || su == "f" || su == "i") {
                        continue;
                    }
                    add("number", format!("{}{}{}{}", ip, fr, ex, su));
                }
            }
        }
    }
    // long runs
    let n = tier_big;
    add("long", "7".repeat(n));
    add("long", format!("0x{}", "fE".repeat(n / 2)));
    add("long", format!("36r{}", "zZ".repeat(n / 2)));
    add("long", format!("64r{}", "A+/z".repeat(n / 4)));
    add("long", format!("2r{}", "10".repeat(n / 2)));
    add("long", format!("{}.{}", "1".repeat(n), "9".repeat(n)));
    add("long", format!("1e{}", "9".repeat(n)));
    add("long", format!("{}q", "3".repeat(n)));
    add("long", format!("{}r1", "3".repeat(n)));
    add("long", format!("\"{}\"", "ab\\n".repeat(n / 4)));
    add("long", format!("\"{}", "a".repeat(n)));
    add("long", format!("# {}", "c".repeat(n)));
    add("long", format!("#({}", "(".repeat(n)));
    add("long", format!("#({}{}", "(".repeat(n / 2), ")".repeat(n / 2)));
    add("long", format!("#({}{})", "(".repeat(n / 2), ")".repeat(n / 2)));
    add("long", "+".repeat(n));
    add("long", format!("{}=", "<".repeat(n)));
    add("long", "x".repeat(n));
    add("long", " ".repeat(n));
    add("long", format!("\"\\u{{{}41}}\"", "0".repeat(n)));
    add("long", format!("\"\\u{}\"", "f".repeat(n)));
    add("long", "1 + ".repeat(n / 8) + "1");
    add("long", "x; ".repeat(n / 8));
    add("long", format!("[{}]", "1, ".repeat(n / 8)));
    add("long", "a.".repeat(n / 8) + "a");
    // unbalanced and nested delimiters, nesting <= 100
    for d in [1usize, 2, 5, 30, 100] {
        for (o, c) in [("(", ")"), ("[", "]"), ("{", "}"), ("\\", "\\\\"), ("if (1) ", ""), ("\\x -> ", ""), ("... ", ""), ("literally ", ""), ("F\"{", "}\""), ("throw ", ""), ("x[", "]"), ("f(", ")")] {
            add("nesting", format!("{}1{}", o.repeat(d), c.repeat(d)));
            add("nesting", format!("{}1{}", o.repeat(d), c.repeat(d.saturating_sub(1))));
            add("nesting", format!("{}1{}", o.repeat(d.saturating_sub(1)), c.repeat(d)));
            add("nesting", format!("{}{}", o.repeat(d), c.repeat(d)));
            add("nesting", o.repeat(d));
            add("nesting", c.repeat(d));
        }
    }
    for s in ["([)]", "(]", "{)", "[}", "((1)", "(1))", "f(1", "f(1,", "f(,)", "[1,,2]", "{1:}", "{:}", "{:1,}", "x[1", "x[:", "x[::]", "x[1:2:3]"] {
        add("nesting", s.to_string());
    }
    // runaway literals and comments
    for s in [
        "\"abc", "'abc\\", "'abc\\'", "#(abc", "#((a)", "F\"abc", "F\"{abc", "R\"abc", "R'abc", "B\"abc", "B'abc\\", "\"", "'", "F'", "R\"", "B\"",
        "x := \"abc\n y", "1 #(", "1 # c", "\"a\" \"b", "F\"{\"}\"", "F\"{'}'}\"", "F\"{#(}\"",
    ] {
        add("runaway", s.to_string());
    }
    // parser corners: every keyword alone, doubled, followed by a delimiter
    let kws = [
        "if", "else", "while", "for", "yield", "into", "switch", "case", "null", "and", "or", "coalesce", "break", "try", "catch", "throw",
        "continue", "return", "consume", "pop", "remove", "swap", "every", "struct", "freeze", "import", "literally", "_", "\\", "\\\\", "...",
        "!", "::", ":", ",", ";", "=", "->", "<-", "<<-", "`", "B[", "__internal_peek", "__internal_call", "__internal_lambda", "__internal_for",
        "__internal_while", "__internal_frame", "__internal_push", "__internal_pop", "__internal_2",
    ];
    for a in kws {
        add("keyword", a.to_string());
        for b in kws {
            add("keyword", format!("{} {}", a, b));
            add("keyword", format!("x {} {} y", a, b));
        }
        for t in ["(", ")", "(x)", "x", "1", "(x) y", "x y z", "x, y", "x = 1", "x: y", "x -> y", "(x) y else z", "(x <- y) z", "(x) case y -> z"] {
            add("keyword", format!("{} {}", a, t));
        }
    }
    for s in [
        "B[1,2,3]", "B[]", "B[1,]", "B[,]", "B[256]", "B[1 2]", "B[-1]", "B[1.5]", "B[x]", "B[18446744073709551616]", "\\1", "\\18446744073709551616",
        "\\18446744073709551615", "__internal_peek 18446744073709551616", "__internal_call 99999999999999999999 x", "__internal_lambda [x] 3 y",
        "__internal_lambda ... y", "__internal_lambda [] 3 y", "struct", "struct X", "struct X(", "struct X()", "struct X(a, b = 1)", "struct X(a,)",
        "struct X(1)", "a, : b", "a:, : b", "a, b: c = 1, 2", ": a", "a ::", "a :: 1", "a::b::c", "::a", ":: 1", "x!", "x! y", "x!, y", "a +! b", "a +! b, c",
        "a + b!", "a `f` b", "a `f b", "a ` ` b", "a `f` `g` b", "`", "a b c", "a 1", "a 1 2", "1 2", "(a)(b)", "a (b) c d", "a + b c", "a + 1 2", "+", "+ +", "+ + +",
        "a and", "a or", "and a", "a coalesce", "x = ", "= x", "x = = y", "every x", "every x = 1", "swap x", "swap x,", "swap x, y", "swap 1, y", "consume 1", "pop x[1]",
        "remove x[1:2]", "for (x <- y; if z) w", "for (x <- y", "for (x) y", "for () y", "for (x <- y) yield z: w into v", "for (x <<- y) z", "for (x = y) z",
        "for (1 <- y) z", "switch (x)", "switch (x) case", "switch (x) case 1 -> ", "try x", "try x catch", "try x catch y", "try x catch y -> z", "\\switch",
        "\\switch case 1 -> 2", "\\ -> 1", "\\x", "\\x,", "\\x: int -> x", "\\x = 1 -> x", "\\1 -> x", "\\x -> x \\\\", "{x = 1}", "x{y = 1}", "x{y = 1,}", "x{y}", "x{", "x{}",
        "a += 1", "a f= 1", "a .f= 1", "a[1] += 1", "1 += 1", "a b = 1", "a(b) = 1", "a(b, c) = 1", "f(x) g= 1", "a! = 1", "a b c = 1", "x : int = 1", "x : = 1", "(x : int) = 1",
        "x, y = 1", "x, = 1", "[x, y] = z", "...x, y = z", "x and y = z", "x or y = z", "literally 1 = z", "1 + x = z", "f(x) = z", "-x = z", "x; ", ";", ";;", "x;;y", "(;)", "(x;)",
        "if (x;) y", "F\"{x;}\"", "F\"{x} {y} {{z}}\"", "F\"{F\\\"{x}\\\"}\"", "F'{F\"{F\\'{x}\\'}\"}'",
    ] {
        add("parser", s.to_string());
    }
    v
}

// ---------------------------------------------------------------------------------------------
// family B: literals with intended values
struct Lit {
    key: String,
    request_head: String, // everything before the final <cps>
    src: String,
    intended: String, // canonical value the generator intends ("" = not available: Spec decides)
}

fn to_radix(n: &BigInt, r: u32, upper: bool) -> String {
    let s = n.to_str_radix(r);
    if upper {
        s.to_uppercase()
    } else {
        s
    }
}
fn to_b64(n: &BigInt, alt: bool) -> String {
    let alpha: Vec<char> = if alt {
        "ABCDEFGHIJKLMNOPQRSTUVWXYZabcdefghijklmnopqrstuvwxyz0123456789-_".chars().collect()
    } else {
        "ABCDEFGHIJKLMNOPQRSTUVWXYZabcdefghijklmnopqrstuvwxyz0123456789+/".chars().collect()
    };
    if n.is_zero() {
        return "A".into();
    }
    let mut m = n.clone();
    let mut out = vec![];
    let b = BigInt::from(64);
    while !m.is_zero() {
        out.push(alpha[(&m % &b).to_usize().unwrap()]);
        m = &m / &b;
    }
    out.iter().rev().collect()
}
fn ul(b: bool) -> char {
    if b {
        'u'
    } else {
        'l'
    }
}
fn random_nat(rng: &mut Rng, max_bits: u64) -> BigInt {
    let bits = match rng.below(6) {
        0 => rng.below(8),
        1 => rng.below(40),
        2 => 60 + rng.below(8),
        3 => rng.below(130),
        _ => rng.below(max_bits),
    };
    let mut x = BigInt::zero();
    let mut got = 0;
    while got < bits {
        let take = std::cmp::min(60, bits - got);
        x = (x << (take as usize)) + BigInt::from(rng.below(1u64 << take));
        got += take;
    }
    x
}
fn special_nats() -> Vec<BigInt> {
    let mut v = vec![];
    for k in [0u32, 1, 2, 3, 7, 8, 9, 10, 15, 16, 31, 32, 35, 36, 37, 63, 64, 65, 255, 256, 4095, 4096] {
        v.push(BigInt::from(k));
    }
    let two = BigInt::from(2);
    for e in [31usize, 32, 53, 62, 63, 64, 65, 127, 128] {
        let p = num::pow(two.clone(), e);
        for d in -1i32..=1 {
            v.push(&p + d);
        }
    }
    for b in [3u32, 10, 36, 64] {
        for e in [5usize, 19, 20, 40] {
            let p = num::pow(BigInt::from(b), e);
            v.push(&p - 1);
            v.push(p.clone());
            v.push(&p + 1);
        }
    }
    v
}
fn int_lit(n: &BigInt, form: u64, rng: &mut Rng) -> Lit {
    let (a, b) = (rng.chance(1, 2), rng.chance(1, 2));
    let (fname, key, src) = match form {
        0 => ("dec".to_string(), "int:dec", n.to_string()),
        1 => (format!("hex:{}{}", ul(a), ul(b)), "int:hex", format!("0{}{}", if a { 'X' } else { 'x' }, to_radix(n, 16, b))),
        2 => (format!("bin:{}", ul(a)), "int:bin", format!("0{}{}", if a { 'B' } else { 'b' }, to_radix(n, 2, false))),
        3 => (format!("oct:{}", ul(a)), "int:oct", format!("0{}{}", if a { 'O' } else { 'o' }, to_radix(n, 8, false))),
        4 => (format!("b64:{}{}", ul(a), ul(b)), "int:b64", format!("64{}{}", if a { 'R' } else { 'r' }, to_b64(n, b))),
        r => {
            let r = (r - 5 + 2) as u32; // 2..=36
            (format!("radix:{}:{}{}", r, ul(a), ul(b)), "int:radix", format!("{}{}{}", r, if a { 'R' } else { 'r' }, to_radix(n, r, b)))
        }
    };
    Lit { key: key.into(), request_head: format!("int {} {}", fname, n), src, intended: format!("ok {}", n) }
}

const PLAIN_POOL: &[char] = &[
    'a', 'b', 'f', 'F', 'z', 'Z', '0', '9', 'g', ' ', '\n', '\t', '{', '}', '(', ')', '<', '>', '[', ']', '#', 'x', 'u', 'n', '/', 'é', 'ß', 'λ',
    '中', '🐉', '😀', '\u{7f}', '\u{80}', '\u{ff}', '\u{7ff}', '\u{800}', '\u{ffff}', '\u{10000}', '\u{10ffff}', '\u{301}', '\0', '\r', '\'', '"',
];
fn hexdig(rng: &mut Rng, v: u32) -> char {
    let c = std::char::from_digit(v, 16).unwrap();
    if rng.chance(1, 2) {
        c.to_ascii_uppercase()
    } else {
        c
    }
}
struct Item {
    code: String,   // protocol encoding
    render: String, // source spelling
    value: Option<u32>,
    is_hex: bool,
}
fn gen_item(rng: &mut Rng, delim: char, allow_invalid: bool, no_braces: bool) -> Item {
    match rng.below(12) {
        0..=3 => loop {
            let c = *rng.pick(PLAIN_POOL);
            if c == delim || c == '\\' || (no_braces && (c == '{' || c == '}')) {
                continue;
            }
            return Item { code: format!("p{:x}", c as u32), render: c.to_string(), value: Some(c as u32), is_hex: false };
        },
        4 => {
            let (code, r, v) = *rng.pick(&[("n", "\\n", 10u32), ("r", "\\r", 13), ("t", "\\t", 9), ("0", "\\0", 0), ("b", "\\\\", 92), ("q", "\\'", 39), ("d", "\\\"", 34)]);
            Item { code: code.into(), render: r.into(), value: Some(v), is_hex: false }
        }
        5 | 6 => {
            let v = match rng.below(4) {
                0 => *rng.pick(&[0u32, 0x7f, 0x80, 0xff, 0x41, 0xc3, 0x0a]),
                _ => rng.below(256) as u32,
            };
            let (a, b) = (hexdig(rng, v / 16), hexdig(rng, v % 16));
            Item { code: format!("x{}{}", a, b), render: format!("\\x{}{}", a, b), value: Some(v), is_hex: true }
        }
        _ => {
            let v: u32 = match rng.below(if allow_invalid { 8 } else { 6 }) {
                0 => *rng.pick(&[0u32, 0x41, 0x7f, 0x80, 0x7ff, 0x800, 0xd7ff, 0xe000, 0xffff, 0x10000, 0x10ffff, 0x1f409]),
                1 => rng.below(0x80) as u32,
                2 => rng.below(0x800) as u32,
                3 => 0xe000 + rng.below(0x2000) as u32,
                4 => 0x10000 + rng.below(0x100000) as u32,
                5 => rng.below(0xd800) as u32,
                6 => *rng.pick(&[0xd800u32, 0xdbff, 0xdfff, 0x110000, 0xffffff, 0xffffffff]),
                _ => 0xd800 + rng.below(0x800) as u32,
            };
            let mut digits: String = format!("{:x}", v).chars().map(|c| hexdig(rng, c.to_digit(16).unwrap())).collect();
            if rng.chance(1, 3) {
                let lim = if rng.chance(1, 4) { 12 } else { 3 };
                digits = "0".repeat(rng.below(lim) as usize) + &digits;
            }
            let (k, o, c) = *rng.pick(&[('N', "", ""), ('C', "{", "}"), ('P', "(", ")"), ('S', "[", "]"), ('A', "<", ">"), ('C', "{", "}")]);
            let valid = char::from_u32(v).is_some();
            Item { code: format!("u{}{}", k, digits), render: format!("\\u{}{}{}", o, digits, c), value: if valid { Some(v) } else { None }, is_hex: false }
        }
    }
}
fn utf8_of(v: u32) -> Vec<u8> {
    char::from_u32(v).map(|c| c.to_string().into_bytes()).unwrap_or_default()
}
fn str_lit(rng: &mut Rng, kind: char) -> Lit {
    let delim = if rng.chance(1, 2) { '"' } else { '\'' };
    let lim = if rng.chance(1, 6) { 30 } else { 8 };
    let n = rng.below(lim);
    let mut items: Vec<Item> = vec![];
    for _ in 0..n {
        let it = loop {
            let inv = rng.chance(1, 12);
            let it = gen_item(rng, delim, inv, kind == 'F');
            if kind == 'F' && (it.value == Some(0x7b) || it.value == Some(0x7d)) {
                continue;
            }
            // an unbracketed \uHH must not be followed by something that reads as a further hex digit
            if let Some(prev) = items.last() {
                if prev.code.starts_with("uN") && it.render.chars().next().map(|c| c.is_ascii_hexdigit()).unwrap_or(false) {
                    continue;
                }
            }
            break it;
        };
        items.push(it);
    }
    let body: String = items.iter().map(|i| i.render.clone()).collect();
    let prefix = match kind {
        'b' => "B",
        'F' => "F",
        _ => "",
    };
    let src = format!("{}{}{}{}", prefix, delim, body, delim);
    let all_valid = items.iter().all(|i| i.value.is_some());
    let intended = if !all_valid {
        "throw".to_string()
    } else if kind == 'b' {
        let mut bytes = vec![];
        for i in &items {
            if i.is_hex {
                bytes.push(i.value.unwrap() as u8);
            } else {
                bytes.extend(utf8_of(i.value.unwrap()));
            }
        }
        format!("ok b:{}", hex(&bytes))
    } else {
        let mut bytes = vec![];
        for i in &items {
            bytes.extend(utf8_of(i.value.unwrap()));
        }
        format!("ok s:{}", hex(&bytes))
    };
    let high_hex = items.iter().any(|i| i.is_hex && i.value.unwrap_or(0) >= 0x80);
    let key = if kind == 'b' && high_hex { "bytes-hex-escape".to_string() } else { format!("str:{}", kind) };
    let codes = if items.is_empty() { "-".to_string() } else { items.iter().map(|i| i.code.clone()).collect::<Vec<_>>().join(",") };
    Lit { key, request_head: format!("str {} {} {}", kind, if delim == '"' { 'd' } else { 'q' }, codes), src, intended }
}
fn raw_lit(rng: &mut Rng) -> Lit {
    let delim = if rng.chance(1, 2) { '"' } else { '\'' };
    let n = rng.below(12);
    let mut body = String::new();
    for _ in 0..n {
        let c = if rng.chance(1, 3) { '\\' } else { *rng.pick(PLAIN_POOL) };
        if c != delim {
            body.push(c);
        }
    }
    let src = format!("R{}{}{}", delim, body, delim);
    Lit { key: "raw".into(), request_head: format!("raw {} {}", if delim == '"' { 'd' } else { 'q' }, cps(&body)), src, intended: format!("ok s:{}", hex(body.as_bytes())) }
}
fn digit_string(rng: &mut Rng, min: u64, max: u64) -> String {
    let n = min + rng.below(max - min + 1);
    (0..n).map(|_| std::char::from_digit(rng.below(10) as u32, 10).unwrap()).collect()
}
fn float_lit(rng: &mut Rng) -> Lit {
    let ip = match rng.below(5) {
        0 => "0".to_string(),
        1 => digit_string(rng, 1, 3),
        2 => format!("{}{}", "0".repeat(rng.below(3) as usize), digit_string(rng, 1, 25)),
        3 => digit_string(rng, 300, 330),
        _ => digit_string(rng, 1, 17),
    };
    let shape = rng.below(7);
    let frac: Option<String> = if shape < 4 { Some(if rng.chance(1, 5) { String::new() } else { let m = if rng.chance(1, 6) { 400 } else { 20 }; digit_string(rng, 1, m) }) } else { None };
    let has_exp = shape == 1 || shape == 2 || shape == 4 || shape == 5;
    let exp: Option<(bool, bool, String)> = if has_exp {
        let ds = match rng.below(5) {
            0 => digit_string(rng, 1, 1),
            1 => digit_string(rng, 1, 3),
            2 => rng.pick(&["308", "309", "323", "324", "325", "400", "0", "00", "007"][..]).to_string(),
            3 => digit_string(rng, 5, 30),
            _ => digit_string(rng, 1, 2),
        };
        Some((rng.chance(1, 2), rng.chance(1, 2), ds))
    } else {
        None
    };
    let suffix: &str = if exp.is_some() {
        ""
    } else if frac.is_none() {
        *rng.pick(&["f", "F", "i", "I", "j", "J"][..])
    } else {
        *rng.pick(&["", "", "f", "F", "i", "I", "j", "J"][..])
    };
    let mut src = ip.clone();
    let mut text = ip.clone();
    if let Some(f) = &frac {
        src.push('.');
        src.push_str(f);
        text.push('.');
        text.push_str(f);
    }
    if let Some((u, neg, ds)) = &exp {
        src.push(if *u { 'E' } else { 'e' });
        text.push('e');
        if *neg {
            src.push('-');
            text.push('-');
        }
        src.push_str(ds);
        text.push_str(ds);
    }
    src.push_str(suffix);
    let imag = matches!(suffix, "i" | "I" | "j" | "J");
    let bits = float_text_to_bits(&text);
    let intended = if imag { format!("ok c:0000000000000000:{}", bits) } else { format!("ok f:{}", bits) };
    let desc = format!(
        "{}:{}:{}:{}",
        ip,
        frac.as_ref().map(|f| format!(".{}", f)).unwrap_or("_".into()),
        exp.as_ref().map(|(u, n, d)| format!("{}{}{}", if *u { 'E' } else { 'e' }, if *n { "-" } else { "" }, d)).unwrap_or("_".into()),
        if suffix.is_empty() { "_" } else { suffix }
    );
    Lit { key: if imag { "imag".into() } else { "float".into() }, request_head: format!("float {}", desc), src, intended }
}

// ---------------------------------------------------------------------------------------------
// family C: format-string bodies (no backslash, no double quote: the body is the text between F" and ")
const FMT_PIECES: &[&str] = &[
    "a", "b c", " ", "é", "🐉", "{{", "}}", "{", "}", "{x}", "{1+2}", "{f(x)}", "{x #x}", "{x #X}", "{x #b}", "{x #O}", "{x #d}", "{x #010}",
    "{x #>5}", "{x #<5}", "{x #^12}", "{x #x^012}", "{1 #(b)}", "{x #99999999999999999999999}", "{x #18446744073709551615}",
    "{x #18446744073709551616}", "{x # 0 5}", "{x #00}", "{x #5x6}", "{#x}", "{ }", "{}", "{#(x) }", "{ {a:1} }", "{{x}}", "{{{x}}}", "{x}}",
    "{x #x\n}", "{x #x\n+1}", "{x #(<) #(9)}", "{x #٣}", "{x; y}", "{x;}", "{x y z}", "{1 2}", "{)}", "{(}", "{x #x #b}", "{'a'}", "{'}'}", "{'{'}",
    "{F'{x}'}", "{x[1:2]}", "{if (x) y else z}", "{\\x -> x}", "{x #\u{1}}", "{x #q}", "{0x1F #x}", "{x #0x10}", "{x #1e5}", "{x#1 2 3}",
];
fn gen_fmt_body(rng: &mut Rng) -> String {
    let n = 1 + rng.below(6);
    let mut s = String::new();
    for _ in 0..n {
        if rng.chance(1, 8) {
            let c = *rng.pick(CHARS);
            if c != '"' && c != '\\' {
                s.push(c);
            }
        } else {
            s.push_str(&rng.pick(FMT_PIECES).replace('\\', ""));
        }
    }
    s
}
fn render_fmt_flags(f: &noulith::MyFmtFlags) -> String {
    let base = match f.base {
        noulith::FmtBase::Decimal => "d",
        noulith::FmtBase::Binary => "b",
        noulith::FmtBase::Octal => "o",
        noulith::FmtBase::LowerHex => "x",
        noulith::FmtBase::UpperHex => "X",
    };
    let align = match f.pad_align {
        noulith::FmtAlign::Left => "<",
        noulith::FmtAlign::Right => ">",
        noulith::FmtAlign::Center => "^",
    };
    format!("E[{},{:x},{},{}]", base, f.pad as u32, f.pad_length, align)
}
/// the real `parse` on `F"<body>"`: the parts, a scanner-level error, or "inner" (the embedded
/// expression did not parse: outside the scanner model)
fn rust_fmt(body: &str) -> String {
    let src = format!("F\"{}\"", body);
    match catch_unwind(AssertUnwindSafe(|| noulith::parse(&src))) {
        Err(_) => "panic".into(),
        Ok(Ok(Some(e))) => match &e.expr {
            noulith::Expr::FormatString(parts) => {
                let mut s = String::from("ok");
                for p in parts.iter() {
                    s.push(' ');
                    match p {
                        Ok(c) => s.push_str(&format!("L{:x}", *c as u32)),
                        Err((_, fl)) => s.push_str(&render_fmt_flags(fl)),
                    }
                }
                s
            }
            _ => "not-a-format-string".into(),
        },
        Ok(Ok(None)) => "empty-program".into(),
        Ok(Err(e)) => {
            let m = &e.0;
            if m.starts_with("format string: unmatched right brace") {
                "error:unmatchedRight".into()
            } else if m.starts_with("format string: unmatched left brace") {
                "error:unmatchedLeft".into()
            } else if m.starts_with("format string: empty format expr") {
                "error:emptyExpr".into()
            } else if m.starts_with("format string: pad length couldn't parse") {
                "error:padLength".into()
            } else if m.starts_with("format string: failed to parse expr") || m.starts_with("format string: couldn't finish parsing") {
                "inner".into()
            } else {
                format!("other-error:{}", m.chars().take(60).collect::<String>())
            }
        }
    }
}

// ---------------------------------------------------------------------------------------------
fn class_bits(c: char) -> char {
    let v = (c.is_alphabetic() as u32) + 2 * (c.is_numeric() as u32) + 4 * (c.is_uppercase() as u32) + 8 * (c.is_whitespace() as u32);
    std::char::from_digit(v, 16).unwrap()
}

fn child_parse(depth: usize, shape: &str) {
    let src = match shape {
        "paren" => format!("{}1{}", "(".repeat(depth), ")".repeat(depth)),
        "bracket" => format!("{}1{}", "[".repeat(depth), "]".repeat(depth)),
        _ => format!("{}1", "\\x -> ".repeat(depth)),
    };
    let r = rust_parse(&src);
    println!("{}", r);
}

fn rust_value(interp: &Interp, src: &str) -> String {
    match interp.eval(src) {
        Outcome::Ok(s) => format!("ok {}", s),
        Outcome::Throw(_) | Outcome::Escape(_) | Outcome::ParseErr(_) => "throw".to_string(),
        Outcome::Panic(_) => "panic".to_string(),
    }
}

fn replay(args: &Args, path: &str) {
    let interp = Interp::new();
    let text = std::fs::read_to_string(path).expect("replay file");
    for line in text.lines() {
        if let Some(req) = line.strip_prefix("request: ") {
            let parts: Vec<&str> = req.split(' ').collect();
            let src = uncps(parts.last().unwrap_or(&"-"));
            println!("source: {}", show(&src));
            match parts[0] {
                "lex" | "parse" => {
                    println!("rust lex:   {}", rust_lex(&src));
                    println!("rust parse: {}", rust_parse(&src));
                }
                "fmt" => {
                    let full = format!("F\"{}\"", src);
                    println!("rust parse of {}: {}", show(&full), rust_parse(&full));
                }
                _ => println!("rust value: {}", rust_value(&interp, &src)),
            }
            let r = run_driver(&args.driver, &[req.to_string()]);
            println!("model (impl <TAB> spec <TAB> diagnostics): {}", r[0]);
        }
    }
}

fn main() {
    let args = parse_args();
    if args.extra.first().map(|s| s == "--child-parse").unwrap_or(false) {
        let depth: usize = args.extra.get(1).and_then(|s| s.parse().ok()).unwrap_or(10);
        let shape = args.extra.get(2).cloned().unwrap_or("paren".into());
        child_parse(depth, &shape);
        return;
    }
    install_quiet_panic_hook();
    if let Some(path) = &args.replay {
        replay(&args, path);
        return;
    }
    // the whole run happens on a thread with a generous stack (nesting <= 100 never needs it; it
    // only keeps the harness itself from being the limiting factor)
    let child = std::thread::Builder::new().stack_size(512 << 20).spawn(move || run(args)).unwrap();
    child.join().unwrap();
}

fn run(args: Args) {
    install_quiet_panic_hook();
    let thorough = args.tier == "thorough";
    let mut rep = Report::new("C15", &args);
    rep.rule = "A: token streams (real lex vs Impl.lex, token by token) and parse totality (catch_unwind) on the test-suite \
                programs, examples/*.noul, 1-3 point mutations of them, random token soups over ~330 fragments, random \
                character soups (incl. arbitrary scalar values), and targeted boundary inputs (every escape character, \\x and \
                \\u with every bracket style/digit count/closer, radix prefixes 0..40,64,2^32.., number suffix/shape products, \
                10^4-character runs, unbalanced and nested delimiters up to depth 100, runaway strings/comments, keyword pairs); \
                A2: sequences of 2-4 string/format/raw/bytes literals with \\xHH escapes and multi-byte characters at byte offsets 0..3 (real lex vs Impl vs the concatenation of each literal lexed alone); B: literal values rendered in every literal syntax (ints: dec/0x/0b/0o/NrDIGITS for N=2..36/64r in both cases, \
                rationals, floats/imaginary with fraction/exponent/suffix shapes, strings/bytes/format/raw strings from random \
                escape items) -> real parse+evaluate vs Impl vs Spec vs intended value; C: format-string bodies; D: Unicode \
                class tables for all scalar values; E: deep nesting in a child process. A case is non-trivial when the token \
                stream contains a literal, an Invalid token or a comment; distinct = distinct source texts"
        .into();
    let mut jd = Judge { per_key: std::collections::HashMap::new() };
    let mut rng = Rng::new(args.seed);
    let corpus = load_corpus(&mut rep.notes);
    let (n_mut, n_soup, n_chars, n_lit, big) = if thorough { (150_000, 120_000, 60_000, 120_000, 20_000) } else { (12_000, 10_000, 5_000, 12_000, 10_000) };

    // ---------------- family A inputs
    let mut inputs: Vec<(String, String)> = vec![]; // (class, source)
    for p in &corpus {
        inputs.push(("corpus".into(), p.clone()));
    }
    for p in &corpus {
        // statements of the programs on their own
        for part in p.split(';') {
            if !part.trim().is_empty() && part.len() < p.len() {
                inputs.push(("corpus-part".into(), part.to_string()));
            }
        }
    }
    // minimised past failures (corpus/C15/*.txt: `lex <cps>` lines) run on every check
    if let Ok(rd) = std::fs::read_dir("/verif/corpus/C15") {
        let mut paths: Vec<_> = rd.filter_map(|e| e.ok()).map(|e| e.path()).collect();
        paths.sort();
        for p in paths {
            if let Ok(t) = std::fs::read_to_string(&p) {
                for line in t.lines() {
                    if let Some(c) = line.strip_prefix("lex ") {
                        inputs.push(("regress".into(), uncps(c.trim())));
                    }
                }
            }
        }
    }
    inputs.extend(targeted(big));
    if !corpus.is_empty() {
        for _ in 0..n_mut {
            let p = rng.pick(&corpus).clone();
            let p = if p.len() > 600 {
                // a window of a long example
                let cs: Vec<char> = p.chars().collect();
                let a = rng.below(cs.len() as u64 - 300) as usize;
                cs[a..a + 300].iter().collect()
            } else {
                p
            };
            inputs.push(("mutation".into(), mutate(&mut rng, &p)));
        }
    }
    for _ in 0..n_soup {
        inputs.push(("soup".into(), gen_soup(&mut rng)));
    }
    for _ in 0..n_chars {
        inputs.push(("chars".into(), gen_char_soup(&mut rng)));
    }

    let mut requests: Vec<String> = vec![];
    let mut rust_tokens: Vec<String> = vec![];
    let mut rust_parses: Vec<&'static str> = vec![];
    for (_class, src) in &inputs {
        requests.push(format!("lex {}", cps(src)));
        rust_tokens.push(rust_lex(src));
        rust_parses.push(rust_parse(src));
    }
    let resp = run_driver(&args.driver, &requests);
    // the parser model (recursive descent on fuel; Lean has no tail calls across a mutual block, so
    // very long inputs are left to the no-panic check above)
    let parse_idx: Vec<usize> = (0..inputs.len()).filter(|i| inputs[*i].1.chars().count() <= 2500).collect();
    let parse_reqs: Vec<String> = parse_idx.iter().map(|i| format!("parse {}", cps(&inputs[*i].1))).collect();
    let parse_resp = run_driver(&args.driver, &parse_reqs);
    for (k, i) in parse_idx.iter().enumerate() {
        let (class, src) = &inputs[*i];
        let (imp, _) = split_resp(&parse_resp[k]);
        if rust_parses[*i] != "panic" {
            let input = format!("{}\nrequest: {}", show(src), parse_reqs[k]);
            rep.arm(&format!("parse-model:{}", imp));
            jd.judge(&mut rep, &format!("parse-outcome:{}", class), &input, rust_parses[*i], &imp, rust_parses[*i]);
        }
    }
    for i in 0..inputs.len() {
        let (class, src) = &inputs[i];
        let (imp, _spec) = split_resp(&resp[i]);
        let imp = normalise_model_tokens(&imp);
        let nontrivial = imp.split(' ').any(|t| {
            t.starts_with("Int:") || t.starts_with("Rat:") || t.starts_with("Float:") || t.starts_with("Imag:") || t.starts_with("Str:")
                || t.starts_with("Bytes:") || t.starts_with("Fmt:") || t.starts_with("Invalid:") || t.starts_with("Comment:")
        });
        rep.case(src, nontrivial);
        rep.arm(&format!("A:{}", class));
        for t in imp.split(' ').skip(1) {
            let kind = t.split(':').next().unwrap_or("");
            if kind == "Invalid" {
                rep.arm(&format!("tok:{}", t));
            } else if ["Int", "Rat", "Float", "Imag", "Str", "Bytes", "Fmt", "Comment"].contains(&kind) {
                rep.arm(&format!("tok:{}", kind));
            }
        }
        rep.outcome(&format!("parse:{}", rust_parses[i]));
        let input = format!("{}\nrequest: {}", show(src), requests[i]);
        // totality of the lexer: the real lexer must not panic (Spec), and the model says it does not
        let rust_class = if rust_tokens[i] == "panic" { "panic" } else { "ok" };
        let impl_class = if imp == "panic" { "panic" } else if imp.starts_with("ok") { "ok" } else { "driver-error" };
        jd.judge(&mut rep, &format!("lex-panic:{}", class), &input, rust_class, impl_class, "ok");
        // totality of the parser
        let pr = if rust_parses[i] == "panic" { "panic" } else { "returns" };
        jd.judge(&mut rep, &format!("parse-panic:{}", class), &input, pr, "returns", "returns");
        // the token streams (no independent Spec for whole streams: a difference is a correspondence break)
        if rust_class == "ok" && impl_class == "ok" {
            jd.judge(&mut rep, &format!("tokens:{}", class), &input, &rust_tokens[i], &imp, &rust_tokens[i]);
        }
    }

    // ---------------- family A2: literal sequences; every token must be what its literal decodes to ALONE
    {
        let n_seq = if thorough { 60_000 } else { 6_000 };
        let mut seqs: Vec<Vec<String>> = vec![];
        // the seeded-defect shapes first
        for (a, b) in [("'\\x41bc'", "B'é'"), ("F\"a\\xe9\"", "B\"a中\""), ("\"ab\\x00\"", "B'ab🐉'"), ("'\\x41'", "B'\u{80}'")] {
            seqs.push(vec![a.to_string(), "; ".to_string(), b.to_string()]);
            seqs.push(vec![a.to_string(), " ".to_string(), "'plain'".to_string(), " ".to_string(), b.to_string()]);
        }
        for _ in 0..n_seq {
            seqs.push(gen_literal_sequence(&mut rng));
        }
        let mut reqs: Vec<String> = vec![];
        let mut idx: Vec<(usize, usize)> = vec![]; // (first request of the units, number of units)
        for u in &seqs {
            let whole: String = u.concat();
            idx.push((reqs.len() + 1, u.len()));
            reqs.push(format!("lex {}", cps(&whole)));
            for x in u {
                reqs.push(format!("lex {}", cps(x)));
            }
        }
        let resp = run_driver(&args.driver, &reqs);
        for (k, u) in seqs.iter().enumerate() {
            let whole: String = u.concat();
            let (first, n) = idx[k];
            let (imp, _) = split_resp(&resp[first - 1]);
            let imp = normalise_model_tokens(&imp);
            // Spec: the tokens of every unit lexed alone, concatenated
            let mut spec = String::from("ok");
            for j in 0..n {
                let (alone, _) = split_resp(&resp[first + j]);
                let alone = normalise_model_tokens(&alone);
                if let Some(t) = alone.strip_prefix("ok") {
                    spec.push_str(t);
                } else {
                    spec = alone.clone();
                    break;
                }
            }
            let rust = rust_lex(&whole);
            let input = format!("{}\nrequest: {}", show(&whole), reqs[first - 1]);
            rep.case(&whole, true);
            rep.arm("A2:literal-sequence");
            jd.judge(&mut rep, "literal-sequence", &input, &rust, &imp, &spec);
            let pr = rust_parse(&whole);
            jd.judge(&mut rep, "parse-panic:literal-sequence", &input, if pr == "panic" { "panic" } else { "returns" }, "returns", "returns");
        }
    }

    // ---------------- family B: literal round trip
    let interp = Interp::new();
    let mut lits: Vec<Lit> = vec![];
    let specials = special_nats();
    for n in &specials {
        for form in 0..40u64 {
            lits.push(int_lit(n, form, &mut rng));
        }
        lits.push(Lit { key: "rat".into(), request_head: format!("rat {}", n), src: format!("{}q", n), intended: format!("ok {}/1", n) });
    }
    let max_bits = if thorough { 4000 } else { 600 };
    for _ in 0..n_lit / 3 {
        let n = if rng.chance(1, 4) { rng.pick(&specials).clone() } else { random_nat(&mut rng, max_bits) };
        let form = rng.below(40);
        lits.push(int_lit(&n, form, &mut rng));
        if rng.chance(1, 10) {
            lits.push(Lit { key: "rat".into(), request_head: format!("rat {}", n), src: format!("{}q", n), intended: format!("ok {}/1", n) });
        }
    }
    // one very long literal per syntax
    let huge = num::pow(BigInt::from(7), big) + 12345;
    for form in [0u64, 1, 2, 3, 4, 5, 15, 39] {
        lits.push(int_lit(&huge, form, &mut rng));
    }
    for _ in 0..n_lit / 4 {
        lits.push(float_lit(&mut rng));
    }
    for _ in 0..n_lit / 3 {
        let kind = *rng.pick(&['s', 's', 'b', 'F']);
        lits.push(str_lit(&mut rng, kind));
    }
    for _ in 0..n_lit / 12 {
        lits.push(raw_lit(&mut rng));
    }
    let lit_requests: Vec<String> = lits.iter().map(|l| format!("{} {}", l.request_head, cps(&l.src))).collect();
    let lit_resp = run_driver(&args.driver, &lit_requests);
    let mut rep_drift = 0u64;
    for (i, l) in lits.iter().enumerate() {
        let parts: Vec<&str> = lit_resp[i].split('\t').collect();
        let input = format!("{}\nrequest: {}", show(&l.src), lit_requests[i]);
        rep.case(&l.src, true);
        rep.arm(&format!("B:{}", l.key));
        if parts.len() < 3 {
            jd.judge(&mut rep, "driver", &input, "-", &lit_resp[i], &lit_resp[i]);
            continue;
        }
        let rust = rust_value(&interp, &l.src);
        rep.outcome(&format!("lit:{}", rust.split(' ').next().unwrap_or("")));
        let imp = normalise_model_value(parts[0]);
        let spec = normalise_model_value(parts[1]);
        // the generator and the Spec must describe the same literal: same spelling, same value
        if parts[2] != cps(&l.src) {
            jd.judge(&mut rep, "generator-vs-spec-rendering", &input, &cps(&l.src), parts[2], parts[2]);
        }
        if spec != l.intended {
            jd.judge(&mut rep, "generator-vs-spec-value", &input, &l.intended, &spec, &spec);
        }
        jd.judge(&mut rep, &l.key, &input, &rust, &imp, &spec);
        // representation of integer literals: fidelity diagnostic only
        if parts.len() > 3 && (parts[3] == "small" || parts[3] == "big") {
            if let Outcome::Ok(s) = interp.eval(&format!("is_big({})", l.src)) {
                let r = if s == "1" { "big" } else { "small" };
                if r != parts[3] {
                    rep_drift += 1;
                    if rep.fidelity.len() < 20 {
                        rep.fidelity.push(format!("{}: literal representation rust={} model={}", show(&l.src), r, parts[3]));
                    }
                }
            }
        }
    }
    rep.notes.push(format!("integer-literal representation drift (diagnostic only): {}", rep_drift));

    // ---------------- family C: format-string bodies
    {
        let n_fmt = if thorough { 60_000 } else { 5_000 };
        let mut bodies: Vec<String> = FMT_PIECES.iter().map(|p| p.replace('\\', "")).collect();
        for _ in 0..n_fmt {
            bodies.push(gen_fmt_body(&mut rng));
        }
        let reqs: Vec<String> = bodies.iter().map(|b| format!("fmt {}", cps(b))).collect();
        let resp = run_driver(&args.driver, &reqs);
        // the whole format string through the parser model as well (embedded expressions included)
        let preqs: Vec<String> = bodies.iter().map(|b| format!("parse {}", cps(&format!("F\"{}\"", b)))).collect();
        let presp = run_driver(&args.driver, &preqs);
        let mut inner = 0u64;
        for (i, b) in bodies.iter().enumerate() {
            let (imp, _) = split_resp(&resp[i]);
            let rust = rust_fmt(b);
            let input = format!("{}\nrequest: {}", show(b), reqs[i]);
            rep.case(&format!("F\"{}\"", b), true);
            rep.arm("C:format-body");
            rep.outcome(&format!("fmt:{}", rust.split(' ').next().unwrap_or("")));
            let rclass = if rust == "panic" { "panic" } else { "returns" };
            let iclass = if imp == "panic" { "panic" } else { "returns" };
            jd.judge(&mut rep, "fmt-panic", &input, rclass, iclass, "returns");
            if rclass == "returns" {
                let rp = if rust.starts_with("ok") { "ok" } else { "err" };
                let (pimp, _) = split_resp(&presp[i]);
                let pinput = format!("{}\nrequest: {}", show(&format!("F\"{}\"", b)), preqs[i]);
                jd.judge(&mut rep, "fmt-parse-outcome", &pinput, rp, &pimp, rp);
            }
            if rust == "inner" {
                // the embedded expression does not parse: the scanner model must have got that far,
                // i.e. not have failed with a scanner-level error *before* it; not comparable further
                inner += 1;
                continue;
            }
            if rclass == "returns" && iclass == "returns" {
                jd.judge(&mut rep, "fmt-scan", &input, &rust, &imp, &rust);
            }
        }
        rep.notes.push(format!("format bodies whose embedded expression does not parse (scanner parts not comparable; compared through the parser model as Ok/Err): {}", inner));
    }

    // ---------------- family D: Unicode class tables
    {
        let mut reqs = vec![];
        let step = 0x4000u32;
        let mut lo = 0u32;
        while lo <= 0x10FFFF {
            let hi = std::cmp::min(lo + step - 1, 0x10FFFF);
            reqs.push(format!("cls {} {}", lo, hi));
            lo += step;
        }
        let resp = run_driver(&args.driver, &reqs);
        let mut bad = 0u64;
        let mut first = String::new();
        for (k, r) in resp.iter().enumerate() {
            let (imp, _) = split_resp(r);
            let lo = k as u32 * step;
            let got: Vec<char> = imp.chars().collect();
            for (j, g) in got.iter().enumerate() {
                let cp = lo + j as u32;
                let want = char::from_u32(cp).map(class_bits).unwrap_or('-');
                if *g != want {
                    bad += 1;
                    if first.is_empty() {
                        first = format!("U+{:04X}: rust classes {} model {}", cp, want, g);
                    }
                }
            }
            if got.len() as u32 != std::cmp::min(step, 0x110000 - lo) {
                bad += 1;
                first = format!("cls response for {} has wrong length", lo);
            }
        }
        rep.case("unicode class tables (0x110000 code points)", true);
        rep.arm("D:unicode-classes");
        let r = if bad == 0 { "tables-agree".to_string() } else { format!("{} differences, first {}", bad, first) };
        jd.judge(&mut rep, "unicode-class-tables", "char::is_alphabetic/is_numeric/is_uppercase/is_whitespace for every scalar value\nrequest: cls 0 1114111", &r, "tables-agree", &r);
    }

    // ---------------- family E: deep nesting in a child process
    {
        let exe = std::env::current_exe().expect("current_exe");
        for (depth, shape) in [(100usize, "paren"), (100, "lambda"), (3000, "paren"), (3000, "bracket"), (3000, "lambda")] {
            let out = std::process::Command::new(&exe).arg("--child-parse").arg(depth.to_string()).arg(shape).output();
            let (rust, detail) = match out {
                Ok(o) => {
                    let so = String::from_utf8_lossy(&o.stdout).trim().to_string();
                    if o.status.success() && (so == "ok" || so == "err") {
                        ("returns".to_string(), so)
                    } else if o.status.success() {
                        (so.clone(), so)
                    } else {
                        ("abort".to_string(), format!("{:?}", o.status))
                    }
                }
                Err(e) => ("spawn-failed".to_string(), e.to_string()),
            };
            let input = format!("{} nesting of depth {} through parse() in a child process [{}]", shape, depth, detail);
            rep.case(&input, true);
            rep.arm("E:deep-nesting");
            rep.outcome(&format!("deep:{}", rust));
            // the model has no stack: it says parse returns
            let key = if depth <= 100 { "parse-depth-100" } else { "parse-depth" };
            jd.judge(&mut rep, key, &input, &rust, "returns", "returns");
        }
    }
    for (k, n) in jd.per_key.iter() {
        if *n > CAP {
            rep.notes.push(format!("{} disagreements with key {} ({} kept)", n, k, CAP));
        }
    }
    rep.write(&args.out);
}
