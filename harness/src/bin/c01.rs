//! C01 correspondence: "collections have value semantics: mutation never leaks through an alias".
//!
//! PART A (three-way): random statement histories in exactly the vocabulary of the Lean driver
//! (`as si ap po rm co sw up ca apo` over nested, deliberately aliased lists) are run statement by statement in
//! the real interpreter; after every statement all variables are dumped and compared with the dumps
//! of the reference-counted-heap Impl model and of the pure copy-on-assignment Spec (driver_c01).
//!
//! PART B (two-way, "reference-only"): a wider vocabulary (dicts with/without default, strings,
//! vectors, bytes, struct instances, op-assignments, `every`, remove-slice, `x{k = v}`, closures,
//! function calls) is compared with a pure tree store written here (`V`, no sharing, assignment clones).
use noulith::{Obj, Rc, Seq};
use std::collections::BTreeMap;
use vharness::*;

const VARS: [&str; 6] = ["qa", "qb", "qc", "qd", "qe", "qf"];
const CLOS: [&str; 3] = ["cf1", "cf2", "cf3"];
/// a struct is identified by its DECLARATION (index in this table), not by its name: `Node1/2/3` are three
/// different structs all named `Node` (declared in function scopes), `PairA/B` come from one maker called twice
struct SDef {
    /// name of the constructor variable
    ctor: &'static str,
    /// the struct's own name (what an instance prints)
    name: &'static str,
    /// names of the accessor variables, in field order
    fields: &'static [&'static str],
}
const STRUCTS: [SDef; 8] = [
    SDef { ctor: "Foo", name: "Foo", fields: &["fa", "fb"] },
    SDef { ctor: "Bar", name: "Bar", fields: &["ga"] },
    SDef { ctor: "Qux", name: "Qux", fields: &["ua", "ub", "uc"] },
    SDef { ctor: "Node1", name: "Node", fields: &["items1", "tag1"] },
    SDef { ctor: "Node2", name: "Node", fields: &["tag2", "items2"] },
    SDef { ctor: "Node3", name: "Node", fields: &["ia3", "ib3", "ic3"] },
    SDef { ctor: "PairA", name: "Pair", fields: &["pla", "pra"] },
    SDef { ctor: "PairB", name: "Pair", fields: &["plb", "prb"] },
];
const STRUCT_DECL: &str = "struct Foo(fa, fb); struct Bar(ga); struct Qux(ua, ub, uc); \
mk1 := \\-> (struct Node(items, tag); [Node, items, tag]); mk2 := \\-> (struct Node(tag, items); [Node, tag, items]); \
mk3 := \\-> (struct Node(ia, ib, ic); [Node, ia, ib, ic]); mkp := \\-> (struct Pair(pl, pr); [Pair, pl, pr]); \
Node1, items1, tag1 := mk1(); Node2, tag2, items2 := mk2(); Node3, ia3, ib3, ic3 := mk3(); \
PairA, pla, pra := mkp(); PairB, plb, prb := mkp()";
const MAX_NODES: usize = 400;
const MAX_LEN: usize = 8;

type R<T> = Result<T, ()>;

// ---------------------------------------------------------------------------------------------
// the pure value tree of the reference semantics
#[derive(Clone, Debug, PartialEq)]
enum V {
    Null,
    Int(i64),
    Str(Vec<u8>),
    Bytes(Vec<u8>),
    Vector(Vec<i64>),
    List(Vec<V>),
    /// canonical key text -> (key, value); optional default
    Dict(BTreeMap<String, (V, V)>, Option<Box<V>>),
    /// (struct id = index in STRUCTS, fields)
    Inst(usize, Vec<V>),
    /// something the reference semantics does not model (function, float, stream): canonical text
    Opaque(String),
}

#[derive(Clone, Copy, Debug, PartialEq, Eq)]
enum Kind {
    Null,
    Int,
    Str,
    Bytes,
    Vector,
    List,
    Dict,
    DictD,
    Inst,
    Opaque,
}
impl Kind {
    fn name(self) -> &'static str {
        match self {
            Kind::Null => "null",
            Kind::Int => "int",
            Kind::Str => "str",
            Kind::Bytes => "bytes",
            Kind::Vector => "vector",
            Kind::List => "list",
            Kind::Dict => "dict",
            Kind::DictD => "ddict",
            Kind::Inst => "inst",
            Kind::Opaque => "opaque",
        }
    }
}

impl V {
    fn canon(&self) -> String {
        match self {
            V::Null => "null".into(),
            V::Int(n) => n.to_string(),
            V::Str(s) => format!("s:{}", hex(s)),
            V::Bytes(b) => format!("b:{}", hex(b)),
            V::Vector(v) => format!("v[{}]", v.iter().map(|n| n.to_string()).collect::<Vec<_>>().join(",")),
            V::List(xs) => format!("[{}]", xs.iter().map(|x| x.canon()).collect::<Vec<_>>().join(",")),
            V::Dict(m, def) => {
                let body = m.iter().map(|(k, (_, v))| format!("{}:{}", k, v.canon())).collect::<Vec<_>>().join(",");
                match def {
                    None => format!("{{{}}}", body),
                    Some(d) => format!("{{{}}}|d={}", body, d.canon()),
                }
            }
            V::Inst(n, fs) => format!("inst:{}({})", STRUCTS[*n].name, fs.iter().map(|x| x.canon()).collect::<Vec<_>>().join(",")),
            V::Opaque(t) => t.clone(),
        }
    }
    fn size(&self) -> usize {
        match self {
            V::List(xs) => 1 + xs.iter().map(|x| x.size()).sum::<usize>(),
            V::Dict(m, d) => 1 + m.values().map(|(_, v)| 1 + v.size()).sum::<usize>() + d.as_ref().map(|d| d.size()).unwrap_or(0),
            V::Inst(_, fs) => 1 + fs.iter().map(|x| x.size()).sum::<usize>(),
            V::Str(s) | V::Bytes(s) => 1 + s.len() / 4,
            V::Vector(v) => 1 + v.len(),
            _ => 1,
        }
    }
    fn max_len(&self) -> usize {
        match self {
            V::List(xs) => xs.iter().map(|x| x.max_len()).max().unwrap_or(0).max(xs.len()),
            V::Dict(m, d) => m
                .values()
                .map(|(_, v)| v.max_len())
                .max()
                .unwrap_or(0)
                .max(m.len())
                .max(d.as_ref().map(|d| d.max_len()).unwrap_or(0)),
            V::Inst(_, fs) => fs.iter().map(|x| x.max_len()).max().unwrap_or(0),
            V::Str(s) | V::Bytes(s) => s.len(),
            V::Vector(v) => v.len(),
            _ => 0,
        }
    }
    fn kind(&self) -> Kind {
        match self {
            V::Null => Kind::Null,
            V::Int(_) => Kind::Int,
            V::Str(_) => Kind::Str,
            V::Bytes(_) => Kind::Bytes,
            V::Vector(_) => Kind::Vector,
            V::List(_) => Kind::List,
            V::Dict(_, None) => Kind::Dict,
            V::Dict(_, Some(_)) => Kind::DictD,
            V::Inst(..) => Kind::Inst,
            V::Opaque(_) => Kind::Opaque,
        }
    }
    fn has_opaque(&self) -> bool {
        match self {
            V::Opaque(_) => true,
            V::List(xs) | V::Inst(_, xs) => xs.iter().any(|x| x.has_opaque()),
            V::Dict(m, d) => m.values().any(|(_, v)| v.has_opaque()) || d.as_ref().map(|d| d.has_opaque()).unwrap_or(false),
            _ => false,
        }
    }
    /// does the value own a reference-counted payload in the real interpreter
    fn is_container(&self) -> bool {
        match self {
            V::Null | V::Int(_) | V::Opaque(_) => false,
            V::Inst(_, fs) => fs.iter().any(|f| f.is_container()),
            _ => true,
        }
    }
}

// parser of the canonical text back into a V ("adopting" a value computed by the real interpreter)
struct CanonParser<'a> {
    s: &'a [u8],
    p: usize,
}
impl<'a> CanonParser<'a> {
    fn eat(&mut self, t: &str) -> bool {
        if self.s[self.p..].starts_with(t.as_bytes()) {
            self.p += t.len();
            true
        } else {
            false
        }
    }
    fn hexrun(&mut self) -> Vec<u8> {
        let st = self.p;
        while self.p < self.s.len() && (self.s[self.p] as char).is_ascii_hexdigit() {
            self.p += 1;
        }
        unhex(std::str::from_utf8(&self.s[st..self.p]).unwrap_or(""))
    }
    fn int(&mut self) -> Option<i64> {
        let st = self.p;
        if self.p < self.s.len() && self.s[self.p] == b'-' {
            self.p += 1;
        }
        while self.p < self.s.len() && self.s[self.p].is_ascii_digit() {
            self.p += 1;
        }
        if self.p < self.s.len() && self.s[self.p] == b'/' {
            return None;
        }
        std::str::from_utf8(&self.s[st..self.p]).ok()?.parse().ok()
    }
    fn seq(&mut self, close: &str) -> Option<Vec<V>> {
        let mut out = vec![];
        if self.eat(close) {
            return Some(out);
        }
        loop {
            out.push(self.value()?);
            if self.eat(close) {
                return Some(out);
            }
            if !self.eat(",") {
                return None;
            }
        }
    }
    fn value(&mut self) -> Option<V> {
        if self.eat("null") {
            return Some(V::Null);
        }
        if self.eat("s:") {
            return Some(V::Str(self.hexrun()));
        }
        if self.eat("b:") {
            return Some(V::Bytes(self.hexrun()));
        }
        if self.eat("<func>") {
            return Some(V::Opaque("<func>".into()));
        }
        if self.eat("v[") {
            let mut out = vec![];
            if self.eat("]") {
                return Some(V::Vector(out));
            }
            loop {
                out.push(self.int()?);
                if self.eat("]") {
                    return Some(V::Vector(out));
                }
                if !self.eat(",") {
                    return None;
                }
            }
        }
        if self.eat("[") {
            return self.seq("]").map(V::List);
        }
        if self.eat("inst:") {
            let st = self.p;
            while self.p < self.s.len() && self.s[self.p] != b'(' {
                self.p += 1;
            }
            let name = String::from_utf8_lossy(&self.s[st..self.p]).to_string();
            if !self.eat("(") {
                return None;
            }
            // the text does not identify the declaration when several structs share the name
            let ids: Vec<usize> = (0..STRUCTS.len()).filter(|i| STRUCTS[*i].name == name).collect();
            if ids.len() != 1 {
                return None;
            }
            return self.seq(")").map(|f| V::Inst(ids[0], f));
        }
        if self.eat("{") {
            let mut m = BTreeMap::new();
            if !self.eat("}") {
                loop {
                    let st = self.p;
                    let k = self.value()?;
                    let kt = String::from_utf8_lossy(&self.s[st..self.p]).to_string();
                    if !self.eat(":") {
                        return None;
                    }
                    let v = self.value()?;
                    m.insert(kt, (k, v));
                    if self.eat("}") {
                        break;
                    }
                    if !self.eat(",") {
                        return None;
                    }
                }
            }
            let def = if self.eat("|d=") { Some(Box::new(self.value()?)) } else { None };
            return Some(V::Dict(m, def));
        }
        if self.p < self.s.len() && (self.s[self.p] == b'-' || self.s[self.p].is_ascii_digit()) {
            return self.int().map(V::Int);
        }
        None
    }
}
fn parse_canon(t: &str) -> V {
    let mut p = CanonParser { s: t.as_bytes(), p: 0 };
    match p.value() {
        Some(v) if p.p == t.len() => v,
        _ => V::Opaque(t.to_string()),
    }
}

// ---------------------------------------------------------------------------------------------
// index path elements
#[derive(Clone, Debug, PartialEq)]
enum Ix {
    /// integer: pythonic index of a list / string / vector / bytes, or an integer dict key
    I(i64),
    /// string dict key
    K(Vec<u8>),
    /// struct field (struct number, field number)
    F(usize, usize),
    /// slice lo:hi
    S(Option<i64>, Option<i64>),
}
fn int_src(n: i64) -> String {
    if n < 0 {
        format!("(0-{})", -n)
    } else {
        n.to_string()
    }
}
fn str_src(s: &[u8]) -> String {
    format!("\"{}\"", String::from_utf8_lossy(s))
}
impl Ix {
    fn src(&self) -> String {
        match self {
            Ix::I(n) => format!("[{}]", n),
            Ix::K(s) => format!("[{}]", str_src(s)),
            Ix::F(s, f) => format!("[{}]", STRUCTS[*s].fields[*f]),
            Ix::S(lo, hi) => format!(
                "[{}:{}]",
                lo.map(|x| x.to_string()).unwrap_or_default(),
                hi.map(|x| x.to_string()).unwrap_or_default()
            ),
        }
    }
    /// as the key of an update expression `x{k = v}` or of a `|.` operand
    fn key_src(&self) -> String {
        match self {
            Ix::I(n) => int_src(*n),
            Ix::K(s) => str_src(s),
            Ix::F(s, f) => STRUCTS[*s].fields[*f].to_string(),
            Ix::S(..) => "null".into(),
        }
    }
}
fn path_src(p: &[Ix]) -> String {
    p.iter().map(|i| i.src()).collect::<String>()
}
fn ix_key(ix: &Ix) -> Option<(String, V)> {
    match ix {
        Ix::I(n) => Some((n.to_string(), V::Int(*n))),
        Ix::K(s) => Some((format!("s:{}", hex(s)), V::Str(s.clone()))),
        _ => None,
    }
}
fn key_ix(k: &V) -> Option<Ix> {
    match k {
        V::Int(n) => Some(Ix::I(*n)),
        V::Str(s) => Some(Ix::K(s.clone())),
        _ => None,
    }
}

// ---------------------------------------------------------------------------------------------
// reference semantics of reading and updating a slot (pure trees; mirrors the documented behaviour of
// eval.rs index / set_index / modify_existing_index / modify_every_existing_index on the observable level)
fn pyidx(len: usize, i: i64) -> R<usize> {
    let l = len as i64;
    if i >= 0 && i < l {
        Ok(i as usize)
    } else if i < 0 && i + l >= 0 {
        Ok((i + l) as usize)
    } else {
        Err(())
    }
}
fn clamp_idx(len: usize, i: i64) -> usize {
    if i >= 0 {
        (i as usize).min(len)
    } else {
        (i + len as i64).max(0) as usize
    }
}
fn slice_bounds(len: usize, lo: Option<i64>, hi: Option<i64>) -> (usize, usize) {
    let clo = lo.map(|x| clamp_idx(len, x)).unwrap_or(0);
    let chi = hi.map(|x| clamp_idx(len, x)).unwrap_or(len);
    (clo, chi.max(clo))
}

fn index(v: &V, ix: &Ix) -> R<V> {
    match (v, ix) {
        (V::List(xs), Ix::I(n)) => Ok(xs[pyidx(xs.len(), *n)?].clone()),
        (V::List(xs), Ix::S(lo, hi)) => {
            let (a, b) = slice_bounds(xs.len(), *lo, *hi);
            Ok(V::List(xs[a..b].to_vec()))
        }
        (V::Str(s), Ix::I(n)) => Ok(V::Str(vec![s[pyidx(s.len(), *n)?]])),
        (V::Vector(xs), Ix::I(n)) => Ok(V::Int(xs[pyidx(xs.len(), *n)?])),
        (V::Bytes(xs), Ix::I(n)) => Ok(V::Int(xs[pyidx(xs.len(), *n)?] as i64)),
        (V::Dict(m, def), ix) => {
            let (kt, _) = ix_key(ix).ok_or(())?;
            match m.get(&kt) {
                Some((_, v)) => Ok(v.clone()),
                None => match def {
                    Some(d) => Ok((**d).clone()),
                    None => Err(()),
                },
            }
        }
        (V::Inst(sid, fs), Ix::F(s, f)) if s == sid => Ok(fs[*f].clone()),
        _ => Err(()),
    }
}
fn get_path(v: &V, path: &[Ix]) -> R<V> {
    let mut cur = v.clone();
    for ix in path {
        cur = index(&cur, ix)?;
    }
    Ok(cur)
}

/// `set_index`: `val = None` is the slot-nulling step of an operator assignment
fn set_index(v: &mut V, path: &[Ix], val: Option<V>, every: bool) -> R<()> {
    let Some((ix, rest)) = path.split_first() else {
        *v = val.unwrap_or(V::Null);
        return Ok(());
    };
    match v {
        V::List(xs) => match ix {
            Ix::I(n) => {
                let j = pyidx(xs.len(), *n)?;
                set_index(&mut xs[j], rest, val, every)
            }
            Ix::S(lo, hi) => {
                if !every {
                    // F13: the real interpreter used to `todo!()` here; the documented outcome is an error
                    return Err(());
                }
                let (a, b) = slice_bounds(xs.len(), *lo, *hi);
                for x in xs[a..b].iter_mut() {
                    set_index(x, rest, val.clone(), true)?;
                }
                Ok(())
            }
            _ => Err(()),
        },
        V::Str(s) => {
            if !rest.is_empty() {
                return Err(());
            }
            let Ix::I(n) = ix else {
                return match (ix, &val) {
                    (Ix::S(..), _) => Err(()),
                    (_, None) => Ok(()),
                    _ => Err(()),
                };
            };
            match val {
                None => Ok(()),
                Some(V::Str(c)) if c.len() == 1 => {
                    let j = pyidx(s.len(), *n)?;
                    s[j] = c[0];
                    Ok(())
                }
                Some(_) => Err(()),
            }
        }
        V::Vector(xs) => {
            if !rest.is_empty() || matches!(ix, Ix::S(..)) {
                return Err(());
            }
            match val {
                None => Ok(()),
                Some(V::Int(c)) => {
                    let Ix::I(n) = ix else { return Err(()) };
                    let j = pyidx(xs.len(), *n)?;
                    xs[j] = c;
                    Ok(())
                }
                Some(_) => Err(()),
            }
        }
        V::Bytes(xs) => {
            if !rest.is_empty() || matches!(ix, Ix::S(..)) {
                return Err(());
            }
            match val {
                None => Ok(()),
                Some(V::Int(c)) => {
                    let Ix::I(n) = ix else { return Err(()) };
                    let j = pyidx(xs.len(), *n)?;
                    if !(0..=255).contains(&c) {
                        return Err(());
                    }
                    xs[j] = c as u8;
                    Ok(())
                }
                Some(_) => Err(()),
            }
        }
        V::Dict(m, _) => match ix {
            Ix::S(None, None) if rest.is_empty() => {
                if !every {
                    return Err(());
                }
                for (_, x) in m.values_mut() {
                    set_index(x, rest, val.clone(), true)?;
                }
                Ok(())
            }
            Ix::S(..) => Err(()),
            _ => {
                let (kt, kv) = ix_key(ix).ok_or(())?;
                if rest.is_empty() {
                    m.insert(kt, (kv, val.unwrap_or(V::Null)));
                    Ok(())
                } else {
                    match m.get_mut(&kt) {
                        Some((_, x)) => set_index(x, rest, val, every),
                        None => Err(()),
                    }
                }
            }
        },
        V::Inst(sid, fs) => match ix {
            // wrong variant 3 (seeded a5): writes accept any accessor whose index is in range
            Ix::F(s, f) if s == sid || (wrong() == 3 && *f < fs.len()) => set_index(&mut fs[*f], rest, val, every),
            _ => Err(()),
        },
        _ => Err(()),
    }
}

/// `modify_existing_index` (pop / remove / consume): note that walking through a missing key of a
/// dict WITH default inserts the default first, even when the leaf operation then raises
fn modify(v: &mut V, path: &[Ix], f: &mut dyn FnMut(&mut V) -> R<V>) -> R<V> {
    let Some((ix, rest)) = path.split_first() else {
        return f(v);
    };
    match v {
        V::List(xs) => match ix {
            Ix::I(n) => {
                let j = pyidx(xs.len(), *n)?;
                modify(&mut xs[j], rest, f)
            }
            _ => Err(()),
        },
        V::Dict(m, def) => {
            if matches!(ix, Ix::S(..)) {
                return Err(());
            }
            let (kt, kv) = ix_key(ix).ok_or(())?;
            if !m.contains_key(&kt) {
                match def {
                    Some(d) => {
                        m.insert(kt.clone(), (kv, (**d).clone()));
                    }
                    None => return Err(()),
                }
            }
            modify(&mut m.get_mut(&kt).unwrap().1, rest, f)
        }
        V::Inst(sid, fs) => match ix {
            // wrong variant 4 (seeded b5): pop / remove / consume compare structs by NAME
            Ix::F(s, fi) if s == sid || (wrong() == 4 && STRUCTS[*s].name == STRUCTS[*sid].name && *fi < fs.len()) => modify(&mut fs[*fi], rest, f),
            _ => Err(()),
        },
        _ => Err(()),
    }
}

/// `modify_every_existing_index` (every-op-assignment); runs on a copy of the variable
fn modify_every(v: &mut V, path: &[Ix], f: &mut dyn FnMut(&mut V) -> R<()>) -> R<()> {
    let Some((ix, rest)) = path.split_first() else {
        return f(v);
    };
    match v {
        V::List(xs) => match ix {
            Ix::I(n) => {
                let j = pyidx(xs.len(), *n)?;
                modify_every(&mut xs[j], rest, f)
            }
            Ix::S(lo, hi) => {
                let (a, b) = slice_bounds(xs.len(), *lo, *hi);
                for x in xs[a..b].iter_mut() {
                    modify_every(x, rest, f)?;
                }
                Ok(())
            }
            _ => Err(()),
        },
        V::Dict(m, def) => {
            if matches!(ix, Ix::S(..)) {
                return Err(());
            }
            let (kt, kv) = ix_key(ix).ok_or(())?;
            if !m.contains_key(&kt) {
                match def {
                    Some(d) => {
                        m.insert(kt.clone(), (kv, (**d).clone()));
                    }
                    None => return Err(()),
                }
            }
            modify_every(&mut m.get_mut(&kt).unwrap().1, rest, f)
        }
        V::Inst(sid, fs) => match ix {
            Ix::F(s, fi) if s == sid => modify_every(&mut fs[*fi], rest, f),
            _ => Err(()),
        },
        _ => Err(()),
    }
}

fn pop_leaf(v: &mut V) -> R<V> {
    match v {
        V::List(xs) => xs.pop().ok_or(()),
        _ => Err(()),
    }
}
fn take_leaf(v: &mut V) -> R<V> {
    Ok(std::mem::replace(v, V::Null))
}
fn remove_leaf(v: &mut V, ix: &Ix) -> R<V> {
    match (v, ix) {
        (V::List(xs), Ix::I(n)) => {
            let j = pyidx(xs.len(), *n)?;
            Ok(xs.remove(j))
        }
        (V::List(xs), Ix::S(lo, hi)) => {
            let (a, b) = slice_bounds(xs.len(), *lo, *hi);
            Ok(V::List(xs.drain(a..b).collect()))
        }
        (V::Dict(m, _), ix) => {
            let (kt, _) = ix_key(ix).ok_or(())?;
            m.remove(&kt).map(|(_, v)| v).ok_or(())
        }
        _ => Err(()),
    }
}

// ---------------------------------------------------------------------------------------------
// operators used in operator assignments and calls.  `None` = the reference semantics does not know
// the result for this combination (such a statement is not generated / its result is adopted)
#[derive(Clone, Copy, Debug, PartialEq)]
enum Op {
    Plus,
    Append,
    Concat,
    AddKey,
    DelKey,
    Union,
    Dollar,
    Rev,
    Sort,
    /// `.= len` / `.= str`: results of another kind (used against typed variables)
    Len,
    Str,
}
impl Op {
    fn sym(self) -> &'static str {
        match self {
            Op::Plus => "+",
            Op::Append => "append",
            Op::Concat => "++",
            Op::AddKey => "|.",
            Op::DelKey => "-.",
            Op::Union => "||",
            Op::Dollar => "$",
            Op::Rev | Op::Sort | Op::Len | Op::Str => ".",
        }
    }
}
fn binop(op: Op, a: V, b: &V) -> Option<R<V>> {
    if matches!(a, V::Opaque(_)) || matches!(b, V::Opaque(_)) {
        return None;
    }
    Some(match op {
        Op::Plus => match (a, b) {
            (V::Int(x), V::Int(y)) => x.checked_add(*y).map(V::Int).ok_or(()),
            (V::Vector(xs), V::Int(y)) => Ok(V::Vector(xs.iter().map(|x| x + y).collect())),
            (_, V::Int(_)) => Err(()),
            _ => return None,
        },
        Op::Append => match (a, b) {
            (V::List(mut xs), b) => {
                xs.push(b.clone());
                Ok(V::List(xs))
            }
            (V::Vector(mut xs), V::Int(y)) => {
                xs.push(*y);
                Ok(V::Vector(xs))
            }
            (V::Vector(_), _) => Err(()),
            (V::Bytes(mut xs), V::Int(y)) if (0..=255).contains(y) => {
                xs.push(*y as u8);
                Ok(V::Bytes(xs))
            }
            (V::Bytes(_), _) => Err(()),
            _ => Err(()),
        },
        Op::Concat => match (a, b) {
            (V::List(mut xs), V::List(ys)) => {
                xs.extend(ys.iter().cloned());
                Ok(V::List(xs))
            }
            (_, V::List(_)) => Err(()),
            _ => return None,
        },
        Op::AddKey => match (a, b) {
            (V::Dict(mut m, d), k) => {
                let ix = key_ix(k)?;
                let (kt, kv) = ix_key(&ix)?;
                m.insert(kt, (kv, V::Null));
                Ok(V::Dict(m, d))
            }
            (_, V::Int(_)) | (_, V::Str(_)) => Err(()),
            _ => return None,
        },
        Op::DelKey => match (a, b) {
            (V::Dict(mut m, d), k) => {
                let ix = key_ix(k)?;
                let (kt, _) = ix_key(&ix)?;
                m.remove(&kt);
                Ok(V::Dict(m, d))
            }
            (_, V::Int(_)) | (_, V::Str(_)) => Err(()),
            _ => return None,
        },
        Op::Union => match (a, b) {
            (V::Dict(mut m, d), V::Dict(m2, _)) => {
                for (k, kv) in m2.iter() {
                    m.insert(k.clone(), kv.clone());
                }
                Ok(V::Dict(m, d))
            }
            (_, V::Dict(..)) => Err(()),
            _ => return None,
        },
        Op::Dollar => match (a, b) {
            (V::Str(mut s), V::Str(t)) => {
                s.extend_from_slice(t);
                Ok(V::Str(s))
            }
            (V::Int(n), V::Str(t)) => {
                let mut s = n.to_string().into_bytes();
                s.extend_from_slice(t);
                Ok(V::Str(s))
            }
            (V::Null, V::Str(t)) => {
                let mut s = b"null".to_vec();
                s.extend_from_slice(t);
                Ok(V::Str(s))
            }
            _ => return None,
        },
        Op::Rev => match a {
            V::List(mut xs) => {
                xs.reverse();
                Ok(V::List(xs))
            }
            V::Str(mut s) => {
                s.reverse();
                Ok(V::Str(s))
            }
            V::Bytes(mut s) => {
                s.reverse();
                Ok(V::Bytes(s))
            }
            V::Vector(mut s) => {
                s.reverse();
                Ok(V::Vector(s))
            }
            V::Null | V::Int(_) => Err(()),
            _ => return None,
        },
        Op::Sort => match a {
            V::List(xs) if xs.iter().all(|x| matches!(x, V::Int(_))) => {
                let mut ns: Vec<i64> = xs.iter().map(|x| if let V::Int(n) = x { *n } else { 0 }).collect();
                ns.sort();
                Ok(V::List(ns.into_iter().map(V::Int).collect()))
            }
            V::Vector(mut s) => {
                s.sort();
                Ok(V::Vector(s))
            }
            V::Null | V::Int(_) => Err(()),
            _ => return None,
        },
        Op::Len => match a {
            V::List(xs) => Ok(V::Int(xs.len() as i64)),
            V::Str(s) | V::Bytes(s) => Ok(V::Int(s.len() as i64)),
            V::Vector(s) => Ok(V::Int(s.len() as i64)),
            V::Dict(m, _) => Ok(V::Int(m.len() as i64)),
            _ => return None,
        },
        Op::Str => match a {
            V::Int(n) => Ok(V::Str(n.to_string().into_bytes())),
            _ => return None,
        },
    })
}
fn op_name(op: Op) -> &'static str {
    match op {
        Op::Rev => "reverse",
        Op::Sort => "sort",
        Op::Len => "len",
        Op::Str => "str",
        o => o.sym(),
    }
}

// ---------------------------------------------------------------------------------------------
// declared types (part B: `qa: int = 5`).  A whole-variable write of a value the declared type
// rejects raises and must leave the variable as it was.  The types of the history being simulated
// live in a thread-local (they never change after the declaration; part A clears the table), as do
// the switches for the two deliberately WRONG variants of the reference semantics that are only used
// to count how many generated cases could tell them apart.
#[derive(Clone, Copy, Debug, PartialEq)]
enum Ty {
    Any,
    Int,
    List,
    Str,
    Dict,
    Vector,
    Bytes,
}
impl Ty {
    fn name(self) -> &'static str {
        match self {
            Ty::Any => "any",
            Ty::Int => "int",
            Ty::List => "list",
            Ty::Str => "str",
            Ty::Dict => "dict",
            Ty::Vector => "vector",
            Ty::Bytes => "bytes",
        }
    }
    fn of(v: &V) -> Ty {
        match v {
            V::Int(_) => Ty::Int,
            V::List(_) => Ty::List,
            V::Str(_) => Ty::Str,
            V::Dict(..) => Ty::Dict,
            V::Vector(_) => Ty::Vector,
            V::Bytes(_) => Ty::Bytes,
            _ => Ty::Any,
        }
    }
    fn accepts(self, v: &V) -> bool {
        self == Ty::Any || Ty::of(v) == self
    }
}
thread_local! {
    static TYPES: std::cell::RefCell<Vec<Ty>> = std::cell::RefCell::new(Vec::new());
    /// 0 = the reference semantics; 1 = "a rejected whole-variable write still happens" (a4);
    /// 2 = "the default of (d[k] = dflt) op= v is always evaluated" (b4)
    static WRONG: std::cell::Cell<u8> = std::cell::Cell::new(0);
}
fn ty_of(x: usize) -> Ty {
    TYPES.with(|t| t.borrow().get(x).copied().unwrap_or(Ty::Any))
}
fn types_clear() {
    TYPES.with(|t| t.borrow_mut().clear());
}
fn types_push(t: Ty) {
    TYPES.with(|ts| ts.borrow_mut().push(t));
}
fn any_typed() -> bool {
    TYPES.with(|t| t.borrow().iter().any(|t| *t != Ty::Any))
}
fn wrong() -> u8 {
    WRONG.with(|w| w.get())
}
fn set_wrong(n: u8) {
    WRONG.with(|w| w.set(n));
}
/// `x[path] = val` as the interpreter's assign_respecting_type does it: a whole-variable write is
/// type-checked BEFORE anything is written; indexed writes cannot change the kind of the variable
fn assign_into(vars: &mut [V], x: usize, path: &[Ix], val: V) -> R<()> {
    if path.is_empty() && !ty_of(x).accepts(&val) {
        if wrong() == 1 {
            vars[x] = val;
        }
        return Err(());
    }
    set_index(&mut vars[x], path, Some(val), false)
}

// ---------------------------------------------------------------------------------------------
// statement-level reference semantics on the variable store
fn st_op(vars: &mut [V], x: usize, path: &[Ix], op: Op, rhs: &V) -> Option<bool> {
    let lhs = match get_path(&vars[x], path) {
        Ok(l) => l,
        Err(_) => return Some(false),
    };
    let res = binop(op, lhs, rhs)?;
    // the slot is nulled before the operator runs (README) and stays null when the operator raises
    if set_index(&mut vars[x], path, None, true).is_err() {
        return Some(false);
    }
    match res {
        Err(_) => Some(false),
        // a rejected write-back leaves the (typed) variable null: the slot was nulled above
        Ok(c) => Some(assign_into(vars, x, path, c).is_ok()),
    }
}
/// operator assignment whose right-hand side has side effects on the store.  Documented order:
/// (1) index expressions, (2) read the OLD left-hand value, (3) evaluate the right-hand side,
/// (4) null the slot, (5) apply the operator, (6) assign into the then-current value.
/// `rhs` returns None when the reference semantics cannot tell, Some(Err) when it raises.
fn st_op_with<S>(st: &mut S, vars_of: fn(&mut S) -> &mut Vec<V>, x: usize, path: &[Ix], op: Op, rhs: &mut dyn FnMut(&mut S) -> Option<R<V>>) -> Option<bool> {
    st_op_ordered(st, vars_of, x, path, op, rhs, false)
}
/// `late_read = true` is the WRONG order (old value read after the right-hand side ran); it is only used
/// to count how many generated cases can tell the two orders apart
fn st_op_ordered<S>(
    st: &mut S,
    vars_of: fn(&mut S) -> &mut Vec<V>,
    x: usize,
    path: &[Ix],
    op: Op,
    rhs: &mut dyn FnMut(&mut S) -> Option<R<V>>,
    late_read: bool,
) -> Option<bool> {
    let mut lhs = V::Null;
    if !late_read {
        lhs = match get_path(&vars_of(st)[x], path) {
            Ok(l) => l,
            Err(_) => return Some(false),
        };
    }
    let r = match rhs(st)? {
        Ok(v) => v,
        Err(()) => return Some(false),
    };
    if late_read {
        lhs = match get_path(&vars_of(st)[x], path) {
            Ok(l) => l,
            Err(_) => return Some(false),
        };
    }
    if set_index(&mut vars_of(st)[x], path, None, true).is_err() {
        return Some(false);
    }
    match binop(op, lhs, &r)? {
        Err(_) => Some(false),
        Ok(c) => Some(assign_into(vars_of(st), x, path, c).is_ok()),
    }
}
fn st_every_op(vars: &mut [V], x: usize, path: &[Ix], op: Op, rhs: &V) -> Option<bool> {
    let mut old = vars[x].clone();
    let mut unknown = false;
    let r = modify_every(&mut old, path, &mut |s| {
        let t = std::mem::replace(s, V::Null);
        match binop(op, t, rhs) {
            None => {
                unknown = true;
                Err(())
            }
            Some(Err(_)) => Err(()),
            Some(Ok(c)) => {
                *s = c;
                Ok(())
            }
        }
    });
    if unknown {
        return None;
    }
    if r.is_ok() {
        vars[x] = old;
        Some(true)
    } else {
        Some(false)
    }
}
#[derive(Clone, Copy, Debug, PartialEq)]
enum Ext {
    Pop,
    Remove,
    Consume,
}
fn st_extract(vars: &mut [V], kind: Ext, y: usize, x: usize, path: &[Ix]) -> bool {
    let r = match kind {
        Ext::Pop => modify(&mut vars[x], path, &mut pop_leaf),
        Ext::Consume => modify(&mut vars[x], path, &mut take_leaf),
        Ext::Remove => match path.split_last() {
            None => Err(()),
            Some((last, rest)) => modify(&mut vars[x], rest, &mut |s| remove_leaf(s, last)),
        },
    };
    match r {
        // the extraction HAS happened when the typed target rejects the value
        Ok(val) => assign_into(vars, y, &[], val).is_ok(),
        Err(_) => false,
    }
}
fn st_swap(vars: &mut [V], x: usize, px: &[Ix], y: usize, py: &[Ix]) -> bool {
    let Ok(a) = get_path(&vars[x], px) else { return false };
    let Ok(b) = get_path(&vars[y], py) else { return false };
    // two assignments: when the first is rejected nothing changes, when the second is, the first stays
    if assign_into(vars, x, px, b).is_err() {
        return false;
    }
    assign_into(vars, y, py, a).is_ok()
}

// ---------------------------------------------------------------------------------------------
// looking at the real interpreter: is a payload on the index path shared (strong count > 1)?
fn rc_count(o: &Obj) -> usize {
    match o {
        Obj::Seq(Seq::List(r)) => Rc::strong_count(r),
        Obj::Seq(Seq::String(r)) => Rc::strong_count(r),
        Obj::Seq(Seq::Dict(r, _)) => Rc::strong_count(r),
        Obj::Seq(Seq::Vector(r)) => Rc::strong_count(r),
        Obj::Seq(Seq::Bytes(r)) => Rc::strong_count(r),
        _ => 0,
    }
}
/// `extra` = references held by the harness itself (1 for the clone of the variable's value)
fn shared_along(o: &Obj, path: &[Ix], extra: usize) -> bool {
    if rc_count(o) > 1 + extra {
        return true;
    }
    let Some((ix, rest)) = path.split_first() else { return false };
    match (o, ix) {
        (Obj::Seq(Seq::List(xs)), Ix::I(n)) => match pyidx(xs.len(), *n) {
            Ok(j) => shared_along(&xs[j], rest, 0),
            Err(_) => false,
        },
        (Obj::Seq(Seq::List(xs)), Ix::S(lo, hi)) => {
            let (a, b) = slice_bounds(xs.len(), *lo, *hi);
            xs[a..b].iter().any(|x| shared_along(x, rest, 0))
        }
        (Obj::Seq(Seq::Dict(m, _)), ix) => match ix_key(ix) {
            Some((kt, _)) => m
                .iter()
                .find(|(k, _)| canon(&noulith::key_to_obj((*k).clone())) == kt)
                .map(|(_, v)| shared_along(v, rest, 0))
                .unwrap_or(false),
            None => false,
        },
        (Obj::Instance(_, fs), Ix::F(_, f)) if *f < fs.len() => shared_along(&fs[*f], rest, 0),
        _ => false,
    }
}
fn probe_shared(interp: &Interp, var: &str, path: &[Ix]) -> bool {
    match interp.eval_obj(var) {
        Ok(o) => shared_along(&o, path, 1),
        Err(_) => false,
    }
}

// ---------------------------------------------------------------------------------------------
// positions inside a value (candidate index paths)
#[derive(Clone, Debug)]
struct Pos {
    path: Vec<Ix>,
    kind: Kind,
    /// length when list-like
    len: usize,
    /// kind of the container that directly holds this slot
    pkind: Kind,
    /// element of a string / vector / bytes (not a real slot)
    virt: bool,
}
fn enumerate(v: &V, rng: &mut Rng, out: &mut Vec<Pos>, cur: &mut Vec<Ix>, pkind: Kind, maxdepth: usize) {
    if out.len() >= 300 {
        return;
    }
    let len = match v {
        V::List(xs) => xs.len(),
        V::Str(s) | V::Bytes(s) => s.len(),
        V::Vector(s) => s.len(),
        V::Dict(m, _) => m.len(),
        _ => 0,
    };
    out.push(Pos { path: cur.clone(), kind: v.kind(), len, pkind, virt: false });
    if cur.len() >= maxdepth {
        return;
    }
    let signed = |rng: &mut Rng, j: usize, len: usize| -> Ix {
        if rng.chance(1, 3) {
            Ix::I(j as i64 - len as i64)
        } else {
            Ix::I(j as i64)
        }
    };
    match v {
        V::List(xs) => {
            for (j, x) in xs.iter().enumerate().take(10) {
                cur.push(signed(rng, j, xs.len()));
                enumerate(x, rng, out, cur, Kind::List, maxdepth);
                cur.pop();
            }
        }
        V::Dict(m, _) => {
            for (_, (k, x)) in m.iter().take(10) {
                if let Some(ix) = key_ix(k) {
                    cur.push(ix);
                    enumerate(x, rng, out, cur, v.kind(), maxdepth);
                    cur.pop();
                }
            }
        }
        V::Inst(sid, fs) => {
            let sid = *sid;
            for (fi, x) in fs.iter().enumerate() {
                cur.push(Ix::F(sid, fi));
                enumerate(x, rng, out, cur, Kind::Inst, maxdepth);
                cur.pop();
            }
        }
        V::Str(_) | V::Bytes(_) | V::Vector(_) => {
            for j in 0..len.min(3) {
                let mut p = cur.clone();
                p.push(signed(rng, j, len));
                let k = if matches!(v, V::Str(_)) { Kind::Str } else { Kind::Int };
                out.push(Pos { path: p, kind: k, len: if k == Kind::Str { 1 } else { 0 }, pkind: v.kind(), virt: true });
            }
        }
        _ => {}
    }
}
fn positions(v: &V, rng: &mut Rng) -> Vec<Pos> {
    let mut out = vec![];
    enumerate(v, rng, &mut out, &mut vec![], Kind::Null, 4);
    out
}
/// pick a position satisfying `pred`, at a randomly preferred depth
fn pick_pos<'a>(rng: &mut Rng, poss: &'a [Pos], pred: &dyn Fn(&Pos) -> bool) -> Option<&'a Pos> {
    let all: Vec<&Pos> = poss.iter().filter(|p| pred(p)).collect();
    if all.is_empty() {
        return None;
    }
    let d = rng.below(5) as usize;
    let at: Vec<&Pos> = all.iter().filter(|p| p.path.len() == d).cloned().collect();
    if !at.is_empty() {
        Some(at[rng.below(at.len() as u64) as usize])
    } else {
        Some(all[rng.below(all.len() as u64) as usize])
    }
}
/// make a (mostly valid) path ill-formed
fn corrupt(rng: &mut Rng, v: &V, path: &mut Vec<Ix>, ints_only: bool) {
    let choice = if ints_only { *rng.pick(&[0u64, 1, 2, 7]) } else { rng.below(8) };
    match choice {
        7 => {
            // a missing integer key at some dict level (or pushed at the end)
            let mut levels = vec![];
            let mut cur = v.clone();
            for (k, ix) in path.iter().enumerate() {
                if matches!(cur, V::Dict(..)) {
                    levels.push(k);
                }
                match index(&cur, ix) {
                    Ok(n) => cur = n,
                    Err(_) => break,
                }
            }
            let missing = Ix::I(20 + rng.range(0, 5));
            if levels.is_empty() {
                path.push(missing);
            } else {
                let k = levels[rng.below(levels.len() as u64) as usize];
                path[k] = missing;
            }
        }
        0 | 1 => {
            // out of range index at some list-like level
            let mut levels = vec![];
            let mut cur = v.clone();
            for (k, ix) in path.iter().enumerate() {
                let len = match &cur {
                    V::List(xs) => Some(xs.len()),
                    V::Str(s) | V::Bytes(s) => Some(s.len()),
                    V::Vector(s) => Some(s.len()),
                    _ => None,
                };
                if let (Some(l), Ix::I(_)) = (len, ix) {
                    levels.push((k, l));
                }
                match index(&cur, ix) {
                    Ok(n) => cur = n,
                    Err(_) => break,
                }
            }
            if levels.is_empty() {
                path.push(Ix::I(rng.range(5, 9)));
            } else {
                let (k, l) = levels[rng.below(levels.len() as u64) as usize];
                path[k] = if rng.chance(1, 2) {
                    Ix::I(l as i64 + rng.range(0, 2))
                } else {
                    Ix::I(-(l as i64) - 1 - rng.range(0, 2))
                };
            }
        }
        2 => path.push(Ix::I(rng.range(-1, 0))),
        3 => path.push(Ix::K(b"nokey".to_vec())),
        4 => {
            if rng.chance(1, 2) || path.is_empty() {
                path.push(Ix::F(0, rng.below(2) as usize))
            } else {
                let l = path.len();
                path[l - 1] = Ix::F(1, 0)
            }
        }
        5 => {
            if let Some(l) = path.last_mut() {
                *l = if rng.chance(1, 2) { Ix::I(99) } else { Ix::K(b"nokey".to_vec()) };
            } else {
                path.push(Ix::I(99));
            }
        }
        _ => path.push(Ix::I(0)),
    }
}

// ---------------------------------------------------------------------------------------------
// per-shard accumulator (the Report is not thread safe; merged at the end in shard order)
#[derive(Default)]
struct Local {
    cases: Vec<(u64, bool)>,
    arms: BTreeMap<String, u64>,
    outcomes: BTreeMap<String, u64>,
    dis: Vec<[String; 5]>,
    samples: Vec<String>,
    notes: Vec<String>,
    ref_cases: u64,
    a_cases: u64,
    adopted: u64,
    selfcheck_mismatch: u64,
    histories: u64,
    shared_cases: u64,
    raised_cases: u64,
    /// op-assignments with a mutating right-hand side whose outcome depends on reading the old value first
    order_sensitive: u64,
    rhsmut_cases: u64,
    /// statements on histories with typed variables / of these: result differs when a rejected write happens
    typed_cases: u64,
    a4_sensitive: u64,
    /// with-default op-assignments / of these: result differs when the default is always evaluated
    withdefault_cases: u64,
    b4_sensitive: u64,
    /// statements through struct accessors / differ when writes accept a foreign accessor in range (a5) /
    /// differ when pop, remove, consume compare structs by name (b5)
    struct_cases: u64,
    a5_sensitive: u64,
    b5_sensitive: u64,
    order_cases: u64,
    a6_sensitive: u64,
    loop_cases: u64,
    b6_sensitive: u64,
}
impl Local {
    fn arm(&mut self, a: &str) {
        *self.arms.entry(a.to_string()).or_insert(0) += 1;
    }
    fn outcome(&mut self, a: &str) {
        *self.outcomes.entry(a.to_string()).or_insert(0) += 1;
    }
    fn note(&mut self, s: String) {
        if self.notes.len() < 10 {
            self.notes.push(s);
        }
    }
    /// returns true when the three answers agree
    fn judge(&mut self, key: &str, input: impl FnOnce() -> String, rust: &str, impl_: &str, spec: &str) -> bool {
        if rust == impl_ && rust == spec {
            return true;
        }
        if self.dis.len() < 60 {
            self.dis.push([key.to_string(), input(), rust.to_string(), impl_.to_string(), spec.to_string()]);
        }
        false
    }
}
fn fnv(h: u64, s: &str) -> u64 {
    let mut h = h;
    for b in s.bytes() {
        h ^= b as u64;
        h = h.wrapping_mul(0x100000001b3);
    }
    h ^= 0xff;
    h.wrapping_mul(0x100000001b3)
}
fn outcome_name(o: &Outcome) -> &'static str {
    match o {
        Outcome::Ok(_) => "ok",
        Outcome::Throw(_) => "throw",
        Outcome::Panic(_) => "panic",
        Outcome::ParseErr(_) => "parse-error",
        Outcome::Escape(_) => "escape",
    }
}
/// dump of the real interpreter: the canonical values of `exprs` joined by `|`
fn dump_real(interp: &Interp, exprs: &[String]) -> Result<String, String> {
    let src = format!("[{}]", exprs.join(", "));
    match interp.eval_obj(&src) {
        Ok(Obj::Seq(Seq::List(xs))) => Ok(xs.iter().map(canon).collect::<Vec<_>>().join("|")),
        Ok(o) => Err(format!("dump not a list: {}", canon(&o))),
        Err(e) => Err(format!("dump failed: {}", e.detail())),
    }
}
/// the text compared for one statement: `+dump` completed, `!dump` raised, `panic`, or a harness problem
fn rust_text(out: &Outcome, dump: &Result<String, String>) -> String {
    match (out, dump) {
        (Outcome::Panic(_), _) => "panic".into(),
        (Outcome::ParseErr(m), _) => format!("parse-error: {}", m.lines().next().unwrap_or("")),
        (_, Err(e)) => e.clone(),
        (Outcome::Ok(_), Ok(d)) => format!("+{}", d),
        (_, Ok(d)) => format!("!{}", d),
    }
}

// =============================================================================================
// PART A: the Lean-modelled vocabulary
#[derive(Clone, Debug)]
enum Atom {
    N,
    I(i64),
    Var(usize),
}
#[derive(Clone, Debug)]
enum ARhs {
    A(Atom),
    L(Vec<Atom>),
    R(Atom, usize),
    /// dict literal with distinct integer keys
    D(Vec<(i64, Atom)>),
}
#[derive(Clone, Debug)]
enum AStmt {
    As(usize, ARhs),
    Si(usize, Vec<i64>, ARhs),
    Ap(usize, Vec<i64>, ARhs),
    Po(usize, usize, Vec<i64>),
    Rm(usize, usize, Vec<i64>, i64),
    Co(usize, usize, Vec<i64>),
    Sw(usize, Vec<i64>, usize, Vec<i64>),
    /// `y = x{i = atom}`
    Up(usize, usize, i64, Atom),
    /// `y = x append atom`
    Ca(usize, usize, Atom),
    /// `x[p] append= pop y[q]`
    Apo(usize, Vec<i64>, usize, Vec<i64>),
}
fn ipath(p: &[i64]) -> Vec<Ix> {
    p.iter().map(|i| Ix::I(*i)).collect()
}
fn ints_of(p: &[Ix]) -> Vec<i64> {
    p.iter().map(|i| if let Ix::I(n) = i { *n } else { 0 }).collect()
}
impl Atom {
    fn tok(&self) -> String {
        match self {
            Atom::N => "n".into(),
            Atom::I(n) => format!("i{}", n),
            Atom::Var(x) => format!("v{}", x),
        }
    }
    fn src(&self) -> String {
        match self {
            Atom::N => "null".into(),
            Atom::I(n) => int_src(*n),
            Atom::Var(x) => VARS[*x].into(),
        }
    }
    fn val(&self, vars: &[V]) -> V {
        match self {
            Atom::N => V::Null,
            Atom::I(n) => V::Int(*n),
            Atom::Var(x) => vars[*x].clone(),
        }
    }
}
impl ARhs {
    fn tok(&self) -> String {
        match self {
            ARhs::A(a) => a.tok(),
            ARhs::L(xs) => format!("l{}", xs.iter().map(|a| a.tok()).collect::<Vec<_>>().join(",")),
            ARhs::R(a, n) => format!("r{}*{}", a.tok(), n),
            ARhs::D(es) => format!("d{}", es.iter().map(|(k, a)| format!("{}={}", k, a.tok())).collect::<Vec<_>>().join(",")),
        }
    }
    fn src(&self) -> String {
        match self {
            ARhs::A(a) => a.src(),
            ARhs::L(xs) => format!("[{}]", xs.iter().map(|a| a.src()).collect::<Vec<_>>().join(", ")),
            ARhs::R(a, n) => format!("[{}] ** {}", a.src(), n),
            ARhs::D(es) => format!("{{{}}}", es.iter().map(|(k, a)| format!("{}: {}", int_src(*k), a.src())).collect::<Vec<_>>().join(", ")),
        }
    }
    fn val(&self, vars: &[V]) -> V {
        match self {
            ARhs::A(a) => a.val(vars),
            ARhs::L(xs) => V::List(xs.iter().map(|a| a.val(vars)).collect()),
            ARhs::R(a, n) => V::List(vec![a.val(vars); *n]),
            ARhs::D(es) => {
                let mut m = BTreeMap::new();
                for (k, a) in es {
                    m.insert(k.to_string(), (V::Int(*k), a.val(vars)));
                }
                V::Dict(m, None)
            }
        }
    }
}
fn ptok(p: &[i64]) -> String {
    p.iter().map(|i| i.to_string()).collect::<Vec<_>>().join(",")
}
fn psrc(p: &[i64]) -> String {
    p.iter().map(|i| format!("[{}]", i)).collect::<String>()
}
impl AStmt {
    fn form(&self) -> &'static str {
        match self {
            AStmt::As(..) => "as",
            AStmt::Si(..) => "si",
            AStmt::Ap(..) => "ap",
            AStmt::Po(..) => "po",
            AStmt::Rm(..) => "rm",
            AStmt::Co(..) => "co",
            AStmt::Sw(..) => "sw",
            AStmt::Up(..) => "up",
            AStmt::Ca(..) => "ca",
            AStmt::Apo(..) => "apo",
        }
    }
    fn tok(&self) -> String {
        match self {
            AStmt::As(x, r) => format!("as:{}:{}", x, r.tok()),
            AStmt::Si(x, p, r) => format!("si:{}:{}:{}", x, ptok(p), r.tok()),
            AStmt::Ap(x, p, r) => format!("ap:{}:{}:{}", x, ptok(p), r.tok()),
            AStmt::Po(y, x, p) => format!("po:{}:{}:{}", y, x, ptok(p)),
            AStmt::Rm(y, x, p, i) => format!("rm:{}:{}:{}:{}", y, x, ptok(p), i),
            AStmt::Co(y, x, p) => format!("co:{}:{}:{}", y, x, ptok(p)),
            AStmt::Sw(x, px, y, py) => format!("sw:{}:{}:{}:{}", x, ptok(px), y, ptok(py)),
            AStmt::Up(y, x, i, a) => format!("up:{}:{}:{}:{}", y, x, i, a.tok()),
            AStmt::Ca(y, x, a) => format!("ca:{}:{}:{}", y, x, a.tok()),
            AStmt::Apo(x, p, y, q) => format!("apo:{}:{}:{}:{}", x, ptok(p), y, ptok(q)),
        }
    }
    fn src(&self) -> String {
        match self {
            AStmt::As(x, r) => format!("{} = {}", VARS[*x], r.src()),
            AStmt::Si(x, p, r) => format!("{}{} = {}", VARS[*x], psrc(p), r.src()),
            AStmt::Ap(x, p, r) => format!("{}{} append= {}", VARS[*x], psrc(p), r.src()),
            AStmt::Po(y, x, p) => format!("{} = pop {}{}", VARS[*y], VARS[*x], psrc(p)),
            AStmt::Rm(y, x, p, i) => format!("{} = remove {}{}[{}]", VARS[*y], VARS[*x], psrc(p), i),
            AStmt::Co(y, x, p) => format!("{} = consume {}{}", VARS[*y], VARS[*x], psrc(p)),
            AStmt::Sw(x, px, y, py) => format!("swap {}{}, {}{}", VARS[*x], psrc(px), VARS[*y], psrc(py)),
            AStmt::Up(y, x, i, a) => format!("{} = {}{{{} = {}}}", VARS[*y], VARS[*x], int_src(*i), a.src()),
            AStmt::Ca(y, x, a) => format!("{} = {} append {}", VARS[*y], VARS[*x], a.src()),
            AStmt::Apo(x, p, y, q) => format!("{}{} append= pop {}{}", VARS[*x], psrc(p), VARS[*y], psrc(q)),
        }
    }
    /// the paths whose containers the statement mutates: (variable, path to walk when looking for a
    /// shared payload)
    fn mutated(&self) -> Vec<(usize, Vec<i64>)> {
        let parent = |p: &Vec<i64>| -> Vec<i64> {
            if p.is_empty() {
                vec![]
            } else {
                p[..p.len() - 1].to_vec()
            }
        };
        match self {
            AStmt::As(..) => vec![],
            // non-mutating forms: is the payload handed to the update / the builtin held by anybody
            // besides the variable itself
            AStmt::Up(_, x, _, _) | AStmt::Ca(_, x, _) => vec![(*x, vec![])],
            AStmt::Apo(x, p, y, q) => vec![(*x, p.clone()), (*y, q.clone())],
            AStmt::Si(x, p, _) => vec![(*x, parent(p))],
            AStmt::Ap(x, p, _) | AStmt::Po(_, x, p) | AStmt::Rm(_, x, p, _) => vec![(*x, p.clone())],
            AStmt::Co(_, x, p) => {
                if p.is_empty() {
                    vec![]
                } else {
                    vec![(*x, parent(p))]
                }
            }
            AStmt::Sw(x, px, y, py) => {
                let mut v = vec![];
                if !px.is_empty() {
                    v.push((*x, parent(px)));
                }
                if !py.is_empty() {
                    v.push((*y, parent(py)));
                }
                v
            }
        }
    }
    fn depth(&self) -> usize {
        match self {
            AStmt::As(..) | AStmt::Ca(..) => 0,
            AStmt::Up(..) => 1,
            AStmt::Apo(_, p, _, q) => p.len().max(q.len()),
            AStmt::Si(_, p, _) | AStmt::Ap(_, p, _) | AStmt::Po(_, _, p) | AStmt::Co(_, _, p) => p.len(),
            AStmt::Rm(_, _, p, _) => p.len() + 1,
            AStmt::Sw(_, px, _, py) => px.len().max(py.len()),
        }
    }
}
/// the reference semantics of part B applied to a part-A statement (used as the shadow store of the
/// generator and cross-checked against the Lean Spec)
fn a_apply(vars: &mut Vec<V>, st: &AStmt) -> bool {
    match st {
        AStmt::As(x, r) => {
            vars[*x] = r.val(vars);
            true
        }
        AStmt::Si(x, p, r) => {
            let v = r.val(vars);
            set_index(&mut vars[*x], &ipath(p), Some(v), false).is_ok()
        }
        AStmt::Ap(x, p, r) => {
            // the right-hand side is evaluated before the slot is nulled
            let v = r.val(vars);
            st_op(vars, *x, &ipath(p), Op::Append, &v).unwrap_or(false)
        }
        AStmt::Po(y, x, p) => st_extract(vars, Ext::Pop, *y, *x, &ipath(p)),
        AStmt::Rm(y, x, p, i) => {
            let mut pp = ipath(p);
            pp.push(Ix::I(*i));
            st_extract(vars, Ext::Remove, *y, *x, &pp)
        }
        AStmt::Co(y, x, p) => st_extract(vars, Ext::Consume, *y, *x, &ipath(p)),
        AStmt::Sw(x, px, y, py) => st_swap(vars, *x, &ipath(px), *y, &ipath(py)),
        AStmt::Up(y, x, i, a) => {
            let v = a.val(vars);
            let mut base = vars[*x].clone();
            match set_index(&mut base, &[Ix::I(*i)], Some(v), false) {
                Ok(()) => {
                    vars[*y] = base;
                    true
                }
                Err(()) => false,
            }
        }
        AStmt::Apo(x, p, y, q) => {
            let qq = ipath(q);
            let y = *y;
            st_op_with(vars, |v| v, *x, &ipath(p), Op::Append, &mut |vars: &mut Vec<V>| Some(modify(&mut vars[y], &qq, &mut pop_leaf)))
                .unwrap_or(false)
        }
        AStmt::Ca(y, x, a) => match binop(Op::Append, vars[*x].clone(), &a.val(vars)) {
            Some(Ok(v)) => {
                vars[*y] = v;
                true
            }
            _ => false,
        },
    }
}

fn a_cont(v: &V) -> bool {
    matches!(v, V::List(_) | V::Dict(..))
}
/// something to mutate: a non-empty list or any dict
fn a_target(v: &V) -> bool {
    matches!(v, V::Dict(..)) || matches!(v, V::List(l) if !l.is_empty())
}
/// does walking `p` from `v` visit a dict (including the value at the end of the path)
fn crosses_dict(v: &V, p: &[i64]) -> bool {
    let mut cur = v.clone();
    for i in p {
        if matches!(cur, V::Dict(..)) {
            return true;
        }
        match index(&cur, &Ix::I(*i)) {
            Ok(n) => cur = n,
            Err(_) => return false,
        }
    }
    matches!(cur, V::Dict(..))
}
fn a_key(rng: &mut Rng) -> i64 {
    rng.range(-3, 12)
}
fn a_atom(rng: &mut Rng, vars: &[V], var_pct: u64) -> Atom {
    if rng.below(100) < var_pct {
        // prefer variables that hold lists / dicts
        for _ in 0..3 {
            let x = rng.below(vars.len() as u64) as usize;
            if a_cont(&vars[x]) {
                return Atom::Var(x);
            }
        }
        Atom::Var(rng.below(vars.len() as u64) as usize)
    } else if rng.chance(1, 5) {
        Atom::N
    } else {
        Atom::I(rng.range(-9, 9))
    }
}
fn a_rhs(rng: &mut Rng, vars: &[V], var_pct: u64) -> ARhs {
    match rng.below(13) {
        0..=4 => ARhs::A(a_atom(rng, vars, var_pct)),
        5..=8 => {
            let n = rng.below(5) as usize;
            ARhs::L((0..n).map(|_| a_atom(rng, vars, var_pct)).collect())
        }
        9..=10 => ARhs::R(a_atom(rng, vars, var_pct), rng.below(5) as usize),
        _ => {
            // ~25 % of the container literals are dicts
            let mut es: Vec<(i64, Atom)> = vec![];
            for _ in 0..rng.below(4) {
                let k = a_key(rng);
                if es.iter().all(|(k2, _)| *k2 != k) {
                    es.push((k, a_atom(rng, vars, var_pct)));
                }
            }
            ARhs::D(es)
        }
    }
}
fn a_var(rng: &mut Rng, vars: &[V], want_list: bool, hot: Option<usize>) -> usize {
    if want_list {
        // a variable that was aliased a moment ago: its payloads are shared right now
        if let Some(h) = hot {
            if rng.chance(7, 10) && a_target(&vars[h]) {
                return h;
            }
        }
        for _ in 0..4 {
            let x = rng.below(vars.len() as u64) as usize;
            if a_target(&vars[x]) {
                return x;
            }
        }
    }
    rng.below(vars.len() as u64) as usize
}
/// one candidate statement (may be rejected by the size guard of the caller)
fn a_gen(rng: &mut Rng, vars: &[V], build: bool, ill: bool, hot: Option<usize>) -> AStmt {
    let n = vars.len() as u64;
    let y = rng.below(n) as usize;
    let form = if build {
        *rng.pick(&["as", "as", "as", "as", "si", "si", "ap", "ap", "ap", "sw"])
    } else {
        *rng.pick(&[
            "as", "as", "si", "si", "si", "si", "ap", "ap", "ap", "po", "po", "rm", "rm", "co", "co", "sw", "sw", "up", "up", "ca", "ca", "apo", "apo",
            "apo",
        ])
    };
    let x = a_var(rng, vars, form != "as", hot);
    // nothing to mutate yet: build instead
    let form = if !ill && form != "as" && form != "ap" && form != "ca" && !a_target(&vars[x]) {
        "as"
    } else if !ill && form == "ca" && !matches!(&vars[x], V::List(_)) {
        "as"
    } else {
        form
    };
    let var_pct = if build { 75 } else { 60 };
    let poss = positions(&vars[x], rng);
    let is_list = |p: &Pos| p.kind == Kind::List;
    match form {
        "as" => {
            // mostly lists (an int assignment destroys structure that later statements could mutate)
            let mut r = a_rhs(rng, vars, var_pct);
            for _ in 0..3 {
                let atom_only = match &r {
                    ARhs::A(Atom::Var(v)) => !a_cont(&vars[*v]),
                    ARhs::A(_) => true,
                    ARhs::L(xs) => xs.is_empty(),
                    ARhs::R(_, n) => *n == 0,
                    ARhs::D(es) => es.is_empty(),
                };
                if !atom_only || rng.chance(1, 6) {
                    break;
                }
                r = a_rhs(rng, vars, var_pct);
            }
            // prefer overwriting a variable that holds no list / dict
            let mut y = y;
            for _ in 0..2 {
                if a_target(&vars[y]) {
                    y = rng.below(n) as usize;
                }
            }
            AStmt::As(y, r)
        }
        "up" | "ca" => {
            // ill-formed: a variable that holds no list (both forms) or an index out of range (update)
            let non_list: Vec<usize> =
                (0..vars.len()).filter(|i| if form == "ca" { !matches!(vars[*i], V::List(_)) } else { !a_cont(&vars[*i]) }).collect();
            let bad_x = ill && !non_list.is_empty() && (form == "ca" || rng.chance(1, 3));
            let x = if bad_x { non_list[rng.below(non_list.len() as u64) as usize] } else { x };
            let y = if rng.chance(1, 4) { x } else { y };
            let atom = if rng.chance(1, 5) { Atom::Var(x) } else { a_atom(rng, vars, var_pct) };
            if form == "ca" {
                return AStmt::Ca(y, x, atom);
            }
            if let V::Dict(m, _) = &vars[x] {
                // update of a dict: overwrite an existing key or insert a new one in the copy
                let ks: Vec<i64> = m.values().filter_map(|(k, _)| if let V::Int(n) = k { Some(*n) } else { None }).collect();
                let i = if ks.is_empty() || rng.chance(2, 5) { a_key(rng) } else { ks[rng.below(ks.len() as u64) as usize] };
                return AStmt::Up(y, x, i, atom);
            }
            let l = match &vars[x] {
                V::List(xs) => xs.len() as i64,
                _ => 0,
            };
            let i = if ill && !bad_x || l == 0 {
                if rng.chance(1, 2) {
                    l + rng.range(0, 2)
                } else {
                    -l - 1 - rng.range(0, 2)
                }
            } else {
                let j = rng.below(l as u64) as i64;
                if rng.chance(1, 3) {
                    j - l
                } else {
                    j
                }
            };
            AStmt::Up(y, x, i, atom)
        }
        "apo" => {
            // the popped list is mostly the same variable, related to the appended-to slot: the same list,
            // an ancestor (the slot may stop being addressable) or a descendant
            let same = rng.chance(13, 20);
            let y2 = if same { x } else { a_var(rng, vars, true, hot) };
            let poss_y = if y2 == x { poss.clone() } else { positions(&vars[y2], rng) };
            let ppos = if ill && rng.chance(1, 2) {
                pick_pos(rng, &poss, &|p| !is_list(p))
            } else {
                pick_pos(rng, &poss, &|p| is_list(p) && p.len < MAX_LEN)
            };
            let mut p = ppos.map(|p| p.path.clone()).unwrap_or_default();
            let pop_ok = |c: &Pos| is_list(c) && c.len > 0;
            let is_prefix = |a: &[Ix], b: &[Ix]| a.len() <= b.len() && ints_of(a) == ints_of(&b[..a.len()]);
            let rel = rng.below(10);
            let qpos = if ill && rng.chance(1, 2) {
                pick_pos(rng, &poss_y, &|c| !pop_ok(c))
            } else if y2 == x && rel < 3 {
                pick_pos(rng, &poss_y, &|c| pop_ok(c) && ints_of(&c.path) == ints_of(&p))
            } else if y2 == x && rel < 6 {
                pick_pos(rng, &poss_y, &|c| pop_ok(c) && c.path.len() < p.len() && is_prefix(&c.path, &p))
            } else if y2 == x && rel < 8 {
                pick_pos(rng, &poss_y, &|c| pop_ok(c) && c.path.len() > p.len() && is_prefix(&p, &c.path))
            } else {
                None
            };
            let qpos = qpos.or_else(|| pick_pos(rng, &poss_y, &|c| pop_ok(c)));
            let mut q = qpos.map(|c| c.path.clone()).unwrap_or_default();
            if ill && rng.chance(1, 4) {
                if rng.chance(1, 2) {
                    corrupt(rng, &vars[x], &mut p, true);
                } else {
                    corrupt(rng, &vars[y2], &mut q, true);
                }
            }
            AStmt::Apo(x, ints_of(&p), y2, ints_of(&q))
        }
        "si" => {
            let mut path = match pick_pos(rng, &poss, &|p| !p.path.is_empty()) {
                Some(p) => p.path.clone(),
                None => return if ill { AStmt::Si(x, vec![rng.range(-2, 2)], a_rhs(rng, vars, var_pct)) } else { AStmt::As(x, a_rhs(rng, vars, var_pct)) },
            };
            // a dict as the last container: insert a NEW key ~40 % of the time (insertion through aliases)
            if let Some(dp) = if rng.chance(1, 4) { pick_pos(rng, &poss, &|p| p.kind == Kind::Dict) } else { None } {
                path = dp.path.clone();
                path.push(Ix::I(a_key(rng)));
            } else if !path.is_empty() && rng.chance(2, 5) {
                let parent = get_path(&vars[x], &path[..path.len() - 1]);
                if matches!(parent, Ok(V::Dict(..))) {
                    let l = path.len();
                    path[l - 1] = Ix::I(a_key(rng));
                }
            }
            if ill {
                corrupt(rng, &vars[x], &mut path, true);
            }
            AStmt::Si(x, ints_of(&path), a_rhs(rng, vars, var_pct))
        }
        "ap" => {
            let pos = if ill {
                pick_pos(rng, &poss, &|p| !is_list(p))
            } else {
                pick_pos(rng, &poss, &|p| is_list(p) && p.len < MAX_LEN)
            };
            let mut path = match pos {
                Some(p) => p.path.clone(),
                None if ill => {
                    let mut p = vec![];
                    corrupt(rng, &vars[x], &mut p, true);
                    p
                }
                None => return AStmt::As(x, a_rhs(rng, vars, var_pct)),
            };
            if ill && rng.chance(1, 3) {
                corrupt(rng, &vars[x], &mut path, true);
            }
            // `qa append= qa` and friends
            let rhs = if rng.chance(1, 4) { ARhs::A(Atom::Var(x)) } else { a_rhs(rng, vars, var_pct) };
            AStmt::Ap(x, ints_of(&path), rhs)
        }
        "po" => {
            let pos = if ill {
                pick_pos(rng, &poss, &|p| !(is_list(p) && p.len > 0))
            } else {
                pick_pos(rng, &poss, &|p| is_list(p) && p.len > 0)
            };
            let mut path = pos.map(|p| p.path.clone()).unwrap_or_default();
            if ill && (pos.is_none() || rng.chance(1, 3)) {
                corrupt(rng, &vars[x], &mut path, true);
            }
            AStmt::Po(y, x, ints_of(&path))
        }
        "rm" => {
            let pos = pick_pos(rng, &poss, &|p| (is_list(p) || p.kind == Kind::Dict) && p.len > 0);
            match pos {
                Some(p) if p.kind == Kind::Dict => {
                    let ks: Vec<i64> = match get_path(&vars[x], &p.path) {
                        Ok(V::Dict(m, _)) => m.values().filter_map(|(k, _)| if let V::Int(n) = k { Some(*n) } else { None }).collect(),
                        _ => vec![],
                    };
                    let i = if ill || ks.is_empty() { 20 + rng.range(0, 5) } else { ks[rng.below(ks.len() as u64) as usize] };
                    AStmt::Rm(y, x, ints_of(&p.path), i)
                }
                Some(p) => {
                    let l = p.len as i64;
                    let i = if ill {
                        if rng.chance(1, 2) {
                            l + rng.range(0, 2)
                        } else {
                            -l - 1 - rng.range(0, 2)
                        }
                    } else {
                        let j = rng.below(p.len as u64) as i64;
                        if rng.chance(1, 3) {
                            j - l
                        } else {
                            j
                        }
                    };
                    AStmt::Rm(y, x, ints_of(&p.path), i)
                }
                None => {
                    // remove from a non-list / empty list
                    let p = pick_pos(rng, &poss, &|_| true).map(|p| p.path.clone()).unwrap_or_default();
                    AStmt::Rm(y, x, ints_of(&p), rng.range(-1, 1))
                }
            }
        }
        "co" => {
            let root_ok = rng.chance(1, 6);
            let mut path = pick_pos(rng, &poss, &|p| root_ok || !p.path.is_empty()).map(|p| p.path.clone()).unwrap_or_default();
            if ill {
                corrupt(rng, &vars[x], &mut path, true);
            }
            AStmt::Co(y, x, ints_of(&path))
        }
        _ => {
            let x2 = if rng.chance(1, 4) { x } else { a_var(rng, vars, true, hot) };
            let poss2 = positions(&vars[x2], rng);
            let mut p1 = pick_pos(rng, &poss, &|_| true).map(|p| p.path.clone()).unwrap_or_default();
            let mut p2 = pick_pos(rng, &poss2, &|_| true).map(|p| p.path.clone()).unwrap_or_default();
            if ill {
                if rng.chance(1, 2) {
                    corrupt(rng, &vars[x], &mut p1, true);
                } else {
                    corrupt(rng, &vars[x2], &mut p2, true);
                }
            }
            AStmt::Sw(x, ints_of(&p1), x2, ints_of(&p2))
        }
    }
}

struct ARec {
    src: String,
    tok: String,
    rust: String,
    refd: String,
    form: &'static str,
    depth: usize,
    shared: bool,
    /// `up` / `ca` on a list: the payload is shared between the variable and the callee while it runs
    copies: bool,
    /// the statement's path crosses or ends in a dict (arm suffix `+dict`)
    dict: bool,
    outcome: &'static str,
}
struct AHist {
    nvars: usize,
    recs: Vec<ARec>,
}
fn a_decl(nvars: usize) -> String {
    (0..nvars).map(|i| format!("{} := null", VARS[i])).collect::<Vec<_>>().join("; ")
}
fn a_input(h: &AHist, upto: usize) -> String {
    let mut parts = vec![a_decl(h.nvars)];
    let mut toks = vec![];
    for r in &h.recs[..=upto] {
        parts.push(r.src.clone());
        toks.push(r.tok.clone());
    }
    format!("{}\nrequest: run {} {}", parts.join("; "), h.nvars, toks.join(" "))
}

fn run_a_shard(mut rng: Rng, n_hist: usize, max_len: usize, driver: &str) -> Local {
    let mut loc = Local::default();
    let mut hists: Vec<AHist> = vec![];
    for _ in 0..n_hist {
        let nvars = rng.range(2, 5) as usize;
        let len = rng.range((max_len / 2) as i64, max_len as i64) as usize;
        let interp = Interp::new();
        for i in 0..nvars {
            interp.eval(&format!("{} := null", VARS[i]));
        }
        let names: Vec<String> = (0..nvars).map(|i| VARS[i].to_string()).collect();
        types_clear();
        let mut vars = vec![V::Null; nvars];
        let mut h = AHist { nvars, recs: vec![] };
        let build_len = 2 + len / 3;
        let mut hot: Option<usize> = None;
        for i in 0..len {
            let build = i < build_len && rng.chance(4, 5);
            let ill = !build && rng.chance(15, 100);
            // size guard: regenerate a statement that would make a value too big
            let mut chosen = None;
            for _ in 0..8 {
                let st = a_gen(&mut rng, &vars, build, ill, hot);
                let mut trial = vars.clone();
                let ok = a_apply(&mut trial, &st);
                if trial.iter().all(|v| v.size() <= MAX_NODES && v.max_len() <= MAX_LEN) {
                    chosen = Some((st, trial, ok));
                    break;
                }
            }
            let (st, trial, ok) = chosen.unwrap_or_else(|| {
                let st = AStmt::As(rng.below(nvars as u64) as usize, ARhs::A(Atom::I(rng.range(0, 9))));
                let mut trial = vars.clone();
                let ok = a_apply(&mut trial, &st);
                (st, trial, ok)
            });
            if let AStmt::Apo(x, p, y, q) = &st {
                let mut alt = vars.clone();
                let qq = ipath(q);
                let y = *y;
                let alt_ok = st_op_ordered(&mut alt, |v| v, *x, &ipath(p), Op::Append, &mut |vs: &mut Vec<V>| Some(modify(&mut vs[y], &qq, &mut pop_leaf)), true)
                    .unwrap_or(false);
                loc.rhsmut_cases += 1;
                if alt_ok != ok || alt != trial {
                    loc.order_sensitive += 1;
                }
            }
            let shared = st.mutated().iter().any(|(x, p)| probe_shared(&interp, VARS[*x], &ipath(p)));
            // a statement that copies a list out of a variable makes that variable (and the target) "hot"
            let rhs_var = |r: &ARhs| -> Option<usize> {
                let atoms: Vec<&Atom> = match r {
                    ARhs::A(a) | ARhs::R(a, _) => vec![a],
                    ARhs::L(xs) => xs.iter().collect(),
                    ARhs::D(es) => es.iter().map(|(_, a)| a).collect(),
                };
                atoms.iter().find_map(|a| if let Atom::Var(v) = a { if a_cont(&vars[*v]) { Some(*v) } else { None } } else { None })
            };
            hot = match &st {
                AStmt::As(x, r) | AStmt::Si(x, _, r) | AStmt::Ap(x, _, r) => match rhs_var(r) {
                    Some(v) => Some(if rng.chance(1, 2) { v } else { *x }),
                    None => hot,
                },
                _ => hot,
            };
            let src = st.src();
            let copies = match &st {
                AStmt::Up(_, x, _, _) | AStmt::Ca(_, x, _) => a_cont(&vars[*x]),
                _ => false,
            };
            let dict = match &st {
                AStmt::As(_, r) => matches!(r.val(&vars), V::Dict(..)),
                AStmt::Si(x, p, r) | AStmt::Ap(x, p, r) => crosses_dict(&vars[*x], p) || matches!(r, ARhs::D(_)),
                AStmt::Po(_, x, p) | AStmt::Co(_, x, p) | AStmt::Rm(_, x, p, _) => crosses_dict(&vars[*x], p),
                AStmt::Sw(x, px, y, py) | AStmt::Apo(x, px, y, py) => crosses_dict(&vars[*x], px) || crosses_dict(&vars[*y], py),
                AStmt::Up(_, x, _, _) | AStmt::Ca(_, x, _) => matches!(vars[*x], V::Dict(..)),
            };
            let out = interp.eval(&src);
            let dump = dump_real(&interp, &names);
            vars = trial;
            let refd = format!("{}{}", if ok { "+" } else { "!" }, vars.iter().map(|v| v.canon()).collect::<Vec<_>>().join("|"));
            h.recs.push(ARec {
                src,
                tok: st.tok(),
                rust: rust_text(&out, &dump),
                refd,
                form: st.form(),
                depth: st.depth(),
                shared,
                copies,
                dict,
                outcome: outcome_name(&out),
            });
        }
        hists.push(h);
    }
    // the model
    let requests: Vec<String> = hists
        .iter()
        .map(|h| format!("run {} {}", h.nvars, h.recs.iter().map(|r| r.tok.clone()).collect::<Vec<_>>().join(" ")))
        .collect();
    let resp = run_driver(driver, &requests);
    for (hi, h) in hists.iter().enumerate() {
        loc.histories += 1;
        let parts: Vec<&str> = resp[hi].split('\t').collect();
        let dumps = |s: &str| -> Option<Vec<String>> { s.strip_prefix("ok ").map(|b| b.split(';').map(|x| x.to_string()).collect()) };
        let (impl_d, spec_d) = if parts.len() >= 2 { (dumps(parts[0]), dumps(parts[1])) } else { (None, None) };
        let (impl_d, spec_d) = match (impl_d, spec_d) {
            (Some(a), Some(b)) if a.len() == h.recs.len() && b.len() == h.recs.len() => (a, b),
            _ => {
                let last = h.recs.len() - 1;
                loc.judge("driver", || a_input(h, last), &h.recs[last].rust, &resp[hi], &resp[hi]);
                continue;
            }
        };
        let mut hash = fnv(0xcbf29ce484222325, &a_decl(h.nvars));
        for (i, r) in h.recs.iter().enumerate() {
            hash = fnv(hash, &r.src);
            let raised = r.rust.starts_with('!') || r.rust == "panic";
            loc.cases.push((hash, r.shared || raised || r.copies));
            loc.a_cases += 1;
            if r.shared {
                loc.shared_cases += 1;
            }
            if raised {
                loc.raised_cases += 1;
            }
            let class = if raised { "fail" } else if r.shared { "shared" } else { "plain" };
            loc.arm(&format!("{}{}:{}", r.form, if r.dict { "+dict" } else { "" }, class));
            loc.arm(&format!("depth:d{}:{}", r.depth.min(5), class));
            loc.outcome(r.outcome);
            if r.refd != spec_d[i] {
                loc.selfcheck_mismatch += 1;
                loc.note(format!("part-B reference differs from the Lean Spec on: {} -> ref {} spec {}", a_input(h, i).replace('\n', " | "), r.refd, spec_d[i]));
            }
            if loc.samples.len() < 2 && i + 1 == h.recs.len() {
                loc.samples.push(a_input(h, i).replace('\n', " | "));
            }
            let agree = loc.judge(r.form, || a_input(h, i), &r.rust, &impl_d[i], &spec_d[i]);
            if !agree {
                break; // later statements of this history are noise
            }
        }
    }
    loc
}

// =============================================================================================
// PART B: wider vocabulary against the pure tree store
#[derive(Clone, Debug)]
enum Clo {
    /// `\ -> qx`: captures the VARIABLE
    Var(usize),
    /// `(\c -> \ -> c)(value)`: captures the VALUE at creation time
    Snap(V),
}
/// `cgN := \ -> (qx <op>= val; ret)`: a closure that UPDATES the outer variable when called
#[derive(Clone, Debug)]
struct Upd {
    x: usize,
    op: Op,
    val: V,
    ret: V,
}
const UPDS: [&str; 2] = ["cg1", "cg2"];
/// right-hand sides that mutate a variable while they are evaluated
#[derive(Clone, Debug)]
enum MutRhs {
    /// `(qz = val; then)`
    AssignThen { z: usize, val: V, then: V },
    /// `pop qz[..]` / `consume qz[..]` / `remove qz[..][i]`
    Extract { kind: Ext, z: usize, path: Vec<Ix> },
    /// `(qz[path] = val; then)`
    SetThen { z: usize, path: Vec<Ix>, val: V, then: V },
    /// `(qz op= val; then)`
    OpThen { z: usize, op: Op, val: V, then: V },
    /// `cgN()`
    Call { g: usize },
}
fn store_vars(s: &mut Store) -> &mut Vec<V> {
    &mut s.vars
}
fn eval_mrhs(st: &mut Store, m: &MutRhs) -> Option<R<V>> {
    match m {
        MutRhs::AssignThen { z, val, then } => Some(assign_into(&mut st.vars, *z, &[], val.clone()).map(|_| then.clone())),
        MutRhs::Extract { kind, z, path } => Some(match kind {
            Ext::Pop => modify(&mut st.vars[*z], path, &mut pop_leaf),
            Ext::Consume => modify(&mut st.vars[*z], path, &mut take_leaf),
            Ext::Remove => match path.split_last() {
                None => Err(()),
                Some((last, rest)) => modify(&mut st.vars[*z], rest, &mut |s| remove_leaf(s, last)),
            },
        }),
        MutRhs::SetThen { z, path, val, then } => Some(set_index(&mut st.vars[*z], path, Some(val.clone()), false).map(|_| then.clone())),
        MutRhs::OpThen { z, op, val, then } => match st_op(&mut st.vars, *z, &[], *op, val)? {
            true => Some(Ok(then.clone())),
            false => Some(Err(())),
        },
        MutRhs::Call { g } => {
            let u = st.upds[*g].clone();
            match st_op(&mut st.vars, u.x, &[], u.op, &u.val)? {
                true => Some(Ok(u.ret)),
                false => Some(Err(())),
            }
        }
    }
}
#[derive(Clone, Debug)]
struct Store {
    vars: Vec<V>,
    clos: Vec<Clo>,
    upds: Vec<Upd>,
    /// generator hint (not part of the state): a variable whose value was copied a moment ago
    hot: Option<usize>,
}
impl Store {
    fn dump(&self, ok: bool) -> String {
        let mut parts: Vec<String> = self.vars.iter().map(|v| v.canon()).collect();
        for c in &self.clos {
            parts.push(match c {
                Clo::Var(x) => self.vars[*x].canon(),
                Clo::Snap(v) => v.canon(),
            });
        }
        format!("{}{}", if ok { "+" } else { "!" }, parts.join("|"))
    }
    fn names(&self) -> Vec<String> {
        let mut n: Vec<String> = (0..self.vars.len()).map(|i| VARS[i].to_string()).collect();
        for i in 0..self.clos.len() {
            n.push(format!("{}()", CLOS[i]));
        }
        n
    }
    fn too_big(&self) -> bool {
        self.vars.iter().any(|v| v.size() > MAX_NODES || v.max_len() > MAX_LEN + 4)
            || self.clos.iter().any(|c| matches!(c, Clo::Snap(v) if v.size() > MAX_NODES))
    }
}

/// a generated expression: source text, its value in the reference semantics, and whether it copies a
/// container out of a variable (creates an alias in the real interpreter)
struct E {
    src: String,
    val: V,
    alias: bool,
}
const KEY_INTS: [i64; 7] = [0, 1, 2, 3, 5, -1, -3];
const KEY_STRS: [&str; 4] = ["k", "a", "zz", "key"];
fn gen_key(rng: &mut Rng) -> Ix {
    if rng.chance(3, 5) {
        Ix::I(*rng.pick(&KEY_INTS))
    } else {
        Ix::K(rng.pick(&KEY_STRS).as_bytes().to_vec())
    }
}
fn gen_str(rng: &mut Rng, minlen: u64) -> Vec<u8> {
    let n = minlen + rng.below(4);
    (0..n).map(|_| *rng.pick(b"abckxyz")).collect()
}
fn lit(v: V) -> E {
    let src = match &v {
        V::Null => "null".to_string(),
        V::Int(n) => int_src(*n),
        V::Str(s) => str_src(s),
        V::Bytes(s) => format!("B{}", str_src(s)),
        V::Vector(xs) => format!("V({})", xs.iter().map(|x| int_src(*x)).collect::<Vec<_>>().join(", ")),
        _ => "null".to_string(),
    };
    E { src, val: v, alias: false }
}
fn gen_expr(rng: &mut Rng, st: &Store, depth: usize) -> E {
    let nv = st.vars.len() as u64;
    let w = rng.below(100);
    let e = match w {
        0..=15 => lit(V::Int(rng.range(-9, 20))),
        16..=19 => lit(V::Null),
        20..=26 => lit(V::Str(gen_str(rng, 0))),
        27..=30 => lit(V::Bytes(gen_str(rng, 0))),
        31..=35 => {
            let n = rng.below(4);
            lit(V::Vector((0..n).map(|_| rng.range(-5, 9)).collect()))
        }
        36..=55 if nv > 0 => {
            let mut x = rng.below(nv) as usize;
            for _ in 0..2 {
                if !st.vars[x].is_container() {
                    x = rng.below(nv) as usize;
                }
            }
            E { src: VARS[x].to_string(), val: st.vars[x].clone(), alias: st.vars[x].is_container() }
        }
        56..=61 if nv > 0 => {
            let x = rng.below(nv) as usize;
            let poss = positions(&st.vars[x], rng);
            match pick_pos(rng, &poss, &|p| !p.path.is_empty()) {
                Some(p) => {
                    let val = get_path(&st.vars[x], &p.path).unwrap_or(V::Null);
                    E { src: format!("{}{}", VARS[x], path_src(&p.path)), alias: val.is_container() && !p.virt, val }
                }
                None => lit(V::Int(rng.range(0, 9))),
            }
        }
        62..=76 if depth > 0 => {
            let n = rng.below(4) as usize;
            let items: Vec<E> = (0..n).map(|_| gen_expr(rng, st, depth - 1)).collect();
            E {
                src: format!("[{}]", items.iter().map(|e| e.src.clone()).collect::<Vec<_>>().join(", ")),
                alias: items.iter().any(|e| e.alias),
                val: V::List(items.into_iter().map(|e| e.val).collect()),
            }
        }
        77..=81 if depth > 0 => {
            let inner = gen_expr(rng, st, depth - 1);
            let n = rng.below(4) as usize;
            E { src: format!("[{}] ** {}", inner.src, n), alias: inner.alias && n > 0, val: V::List(vec![inner.val; n]) }
        }
        82..=93 if depth > 0 => {
            let with_default = rng.chance(1, 3);
            let mut alias = false;
            let mut parts = vec![];
            let def = if with_default {
                let d = if rng.chance(1, 2) { lit(V::Int(0)) } else { gen_expr(rng, st, depth - 1) };
                parts.push(format!(":{}", d.src));
                alias |= d.alias;
                Some(Box::new(d.val))
            } else {
                None
            };
            let mut m = BTreeMap::new();
            for _ in 0..rng.below(4) {
                let k = gen_key(rng);
                let (kt, kv) = ix_key(&k).unwrap();
                if m.contains_key(&kt) {
                    continue;
                }
                let v = gen_expr(rng, st, depth - 1);
                parts.push(format!("{}: {}", k.key_src(), v.src));
                alias |= v.alias;
                m.insert(kt, (kv, v.val));
            }
            E { src: format!("{{{}}}", parts.join(", ")), val: V::Dict(m, def), alias }
        }
        94..=99 if depth > 0 => {
            let sid = *rng.pick(&[0usize, 0, 1, 2, 2, 3, 3, 4, 4, 5, 6, 6, 7]);
            gen_inst(rng, st, depth - 1, sid)
        }
        _ => lit(V::Int(rng.range(0, 9))),
    };
    if e.val.size() > MAX_NODES / 2 {
        lit(V::Int(rng.range(0, 9)))
    } else {
        e
    }
}
/// an instance of struct `sid`; the fields hold lists / dicts / ints, often copied from variables
fn gen_inst(rng: &mut Rng, st: &Store, depth: usize, sid: usize) -> E {
    let fs: Vec<E> = (0..STRUCTS[sid].fields.len())
        .map(|_| {
            let mut e = gen_expr(rng, st, depth);
            if !e.val.is_container() && rng.chance(1, 2) {
                e = gen_expr(rng, st, depth.max(1));
            }
            e
        })
        .collect();
    E {
        src: format!("{}({})", STRUCTS[sid].ctor, fs.iter().map(|e| e.src.clone()).collect::<Vec<_>>().join(", ")),
        alias: fs.iter().any(|e| e.alias),
        val: V::Inst(sid, fs.into_iter().map(|e| e.val).collect()),
    }
}
fn gen_list_expr(rng: &mut Rng, st: &Store) -> E {
    // a list valued expression: a list variable or a literal
    for _ in 0..2 {
        let x = rng.below(st.vars.len() as u64) as usize;
        if matches!(st.vars[x], V::List(_)) && rng.chance(1, 2) {
            return E { src: VARS[x].to_string(), val: st.vars[x].clone(), alias: true };
        }
    }
    let n = rng.below(3) as usize;
    let items: Vec<E> = (0..n).map(|_| gen_expr(rng, st, 1)).collect();
    E {
        src: format!("[{}]", items.iter().map(|e| e.src.clone()).collect::<Vec<_>>().join(", ")),
        alias: items.iter().any(|e| e.alias),
        val: V::List(items.into_iter().map(|e| e.val).collect()),
    }
}
fn gen_dict_expr(rng: &mut Rng, st: &Store) -> E {
    let mut m = BTreeMap::new();
    let mut parts = vec![];
    let mut alias = false;
    for _ in 0..rng.below(3) {
        let k = gen_key(rng);
        let (kt, kv) = ix_key(&k).unwrap();
        if m.contains_key(&kt) {
            continue;
        }
        let v = gen_expr(rng, st, 1);
        parts.push(format!("{}: {}", k.key_src(), v.src));
        alias |= v.alias;
        m.insert(kt, (kv, v.val));
    }
    E { src: format!("{{{}}}", parts.join(", ")), val: V::Dict(m, None), alias }
}

enum Eff {
    Declare(V),
    DeclClo(Clo),
    Set { x: usize, path: Vec<Ix>, val: V, every: bool },
    EveryMulti { xs: Vec<usize>, val: V },
    /// `every x[p1], x[p2] = v`: the targets are written left to right
    EveryTargets { targets: Vec<(usize, Vec<Ix>)>, val: V },
    /// plain assignment `x[base][<index expr>] (, ...) = <rhs> (, ...)`: ALL target index expressions are
    /// evaluated first (left to right), then the right-hand sides, then the writes (bounds are checked then)
    AssignOrder { targets: Vec<(usize, Vec<Ix>, Ex)>, rhs: Vec<Ex>, every: bool },
    /// two effects of one statement, in this order
    Both(Box<Eff>, Box<Eff>),
    Op { x: usize, path: Vec<Ix>, op: Op, rhs: V },
    EveryOp { x: usize, path: Vec<Ix>, op: Op, rhs: V },
    Extract { kind: Ext, y: usize, x: usize, path: Vec<Ix> },
    Swap { x: usize, px: Vec<Ix>, y: usize, py: Vec<Ix> },
    AssignVal { y: usize, val: R<V> },
    Adopt { y: usize },
    SetClo { c: usize, clo: Clo },
    DeclUpd(Upd),
    OpMut { x: usize, path: Vec<Ix>, op: Op, rhs: MutRhs },
    SetMut { x: usize, path: Vec<Ix>, rhs: MutRhs },
    /// `qa, qb = v1, v2`: the right-hand side is evaluated first, the targets are assigned left to right
    Unpack { xs: Vec<usize>, vals: Vec<V> },
    /// `(x[path] = dflt) op= rhs`
    WithDefault { x: usize, path: Vec<Ix>, dflt: DefaultE, op: Op, rhs: V },
}
/// small expressions over whole variables that read or mutate state (family ref:assign-order)
#[derive(Clone, Debug)]
enum Ex {
    Var(usize),
    /// `qq[i]`
    At(usize, i64),
    /// `len(qq) - 1`
    LenM1(usize),
    /// `len(qq)`
    Len(usize),
    /// `pop qq`
    Pop(usize),
    /// `remove qq[0]`
    Rem0(usize),
    /// `consume qq`
    Consume(usize),
    /// `(qi += k; qi)`
    Bump(usize, i64),
    /// `(qi = a; b)`
    SetThen(usize, i64, i64),
    /// `(qq append= a; b)`
    AppThen(usize, i64, i64),
    /// `cgN()`
    Call(usize),
}
impl Ex {
    fn src(&self) -> String {
        match self {
            Ex::Var(q) => VARS[*q].to_string(),
            Ex::At(q, i) => format!("{}[{}]", VARS[*q], i),
            Ex::LenM1(q) => format!("len({}) - 1", VARS[*q]),
            Ex::Len(q) => format!("len({})", VARS[*q]),
            Ex::Pop(q) => format!("(pop {})", VARS[*q]),
            Ex::Rem0(q) => format!("(remove {}[0])", VARS[*q]),
            Ex::Consume(q) => format!("(consume {})", VARS[*q]),
            Ex::Bump(q, k) => format!("({} += {}; {})", VARS[*q], k, VARS[*q]),
            Ex::SetThen(q, a, b) => format!("({} = {}; {})", VARS[*q], a, b),
            Ex::AppThen(q, a, b) => format!("({} append= {}; {})", VARS[*q], a, b),
            Ex::Call(g) => format!("{}()", UPDS[*g]),
        }
    }
    fn mutates(&self) -> bool {
        !matches!(self, Ex::Var(_) | Ex::At(..) | Ex::LenM1(_) | Ex::Len(_))
    }
}
fn eval_ex(st: &mut Store, e: &Ex) -> Option<R<V>> {
    let flag = |o: Option<bool>, v: &dyn Fn(&Store) -> V, st: &Store| -> Option<R<V>> {
        match o? {
            true => Some(Ok(v(st))),
            false => Some(Err(())),
        }
    };
    match e {
        Ex::Var(q) => Some(Ok(st.vars[*q].clone())),
        Ex::At(q, i) => Some(index(&st.vars[*q], &Ix::I(*i))),
        Ex::LenM1(q) | Ex::Len(q) => match &st.vars[*q] {
            V::List(xs) => Some(Ok(V::Int(xs.len() as i64 - if matches!(e, Ex::LenM1(_)) { 1 } else { 0 }))),
            _ => None,
        },
        Ex::Pop(q) => Some(modify(&mut st.vars[*q], &[], &mut pop_leaf)),
        Ex::Rem0(q) => Some(modify(&mut st.vars[*q], &[], &mut |s| remove_leaf(s, &Ix::I(0)))),
        Ex::Consume(q) => Some(modify(&mut st.vars[*q], &[], &mut take_leaf)),
        Ex::Bump(q, k) => {
            let o = st_op(&mut st.vars, *q, &[], Op::Plus, &V::Int(*k));
            let q = *q;
            flag(o, &move |s: &Store| s.vars[q].clone(), st)
        }
        Ex::SetThen(q, a, b) => Some(assign_into(&mut st.vars, *q, &[], V::Int(*a)).map(|_| V::Int(*b))),
        Ex::AppThen(q, a, b) => {
            let o = st_op(&mut st.vars, *q, &[], Op::Append, &V::Int(*a));
            let b = *b;
            flag(o, &move |_s: &Store| V::Int(b), st)
        }
        Ex::Call(g) => eval_mrhs(st, &MutRhs::Call { g: *g }),
    }
}
fn apply_assign_order(st: &mut Store, targets: &[(usize, Vec<Ix>, Ex)], rhs: &[Ex], every: bool) -> Option<bool> {
    let mut idxs = vec![];
    let mut vals = vec![];
    // wrong variant 5 (seeded a6): the right-hand side runs BEFORE the target's index expressions
    let phases = if wrong() == 5 { [false, true] } else { [true, false] };
    for idx_phase in phases {
        if idx_phase {
            for t in targets {
                match eval_ex(st, &t.2)? {
                    Ok(v) => idxs.push(v),
                    Err(()) => return Some(false),
                }
            }
        } else {
            for r in rhs {
                match eval_ex(st, r)? {
                    Ok(v) => vals.push(v),
                    Err(()) => return Some(false),
                }
            }
        }
    }
    for (i, (x, base, _)) in targets.iter().enumerate() {
        let ix = match &idxs[i] {
            V::Int(n) => Ix::I(*n),
            V::Str(s) => Ix::K(s.clone()),
            _ => return None,
        };
        let mut p = base.clone();
        p.push(ix);
        // bounds / kinds are checked at write time, after the right-hand side ran
        if set_index(&mut st.vars[*x], &p, Some(vals[i].clone()), every).is_err() {
            return Some(false);
        }
    }
    Some(true)
}
#[derive(Clone, Debug)]
enum DefaultE {
    Pure(V),
    Mut(MutRhs),
}
/// `(x[path] = dflt) op= rhs` on a dict WITHOUT default: key present -> the stored entry is the old value
/// and `dflt` is NOT evaluated; key absent -> `dflt` is evaluated exactly once (with its side effects)
/// and is the old value; then the usual order (null the slot = insert null at the key, operator, assign)
fn st_withdefault(st: &mut Store, x: usize, path: &[Ix], dflt: &DefaultE, op: Op, rhs: &V) -> Option<bool> {
    let Some((last, rest)) = path.split_last() else { return Some(false) };
    let cont = match get_path(&st.vars[x], rest) {
        Ok(c) => c,
        Err(_) => return Some(false),
    };
    let lhs = match &cont {
        V::Dict(m, None) => {
            let Some((kt, _)) = ix_key(last) else { return Some(false) };
            let stored = m.get(&kt).map(|(_, v)| v.clone());
            if stored.is_none() || wrong() == 2 {
                let dv = match dflt {
                    DefaultE::Pure(v) => Ok(v.clone()),
                    DefaultE::Mut(m) => eval_mrhs(st, m)?,
                };
                match dv {
                    Err(()) => return Some(false),
                    Ok(v) => stored.unwrap_or(v),
                }
            } else {
                stored.unwrap()
            }
        }
        // a dict with default rejects the form; so does anything that is not a dict
        _ => return Some(false),
    };
    let res = binop(op, lhs, rhs)?;
    if set_index(&mut st.vars[x], path, None, true).is_err() {
        return Some(false);
    }
    match res {
        Err(_) => Some(false),
        Ok(c) => Some(assign_into(&mut st.vars, x, path, c).is_ok()),
    }
}
/// apply to the reference store; `None` = the statement must not be generated (operator result unknown
/// to the reference semantics, or a multi-slot statement that fails half-way, which is unspecified)
fn apply(eff: &Eff, st: &mut Store) -> Option<bool> {
    match eff {
        Eff::Declare(v) => {
            st.vars.push(v.clone());
            Some(true)
        }
        Eff::DeclClo(c) => {
            st.clos.push(c.clone());
            Some(true)
        }
        Eff::Set { x, path, val, every } => {
            let before = st.vars[*x].clone();
            match set_index(&mut st.vars[*x], path, Some(val.clone()), *every) {
                Ok(()) => Some(true),
                Err(()) => {
                    if st.vars[*x] != before {
                        None
                    } else {
                        Some(false)
                    }
                }
            }
        }
        Eff::EveryMulti { xs, val } => {
            for x in xs {
                if assign_into(&mut st.vars, *x, &[], val.clone()).is_err() {
                    return Some(false);
                }
            }
            Some(true)
        }
        Eff::EveryTargets { targets, val } => {
            // mirrors the clean tree: a legitimate earlier target is already written when a later one raises
            for (x, p) in targets {
                let r = if p.is_empty() { assign_into(&mut st.vars, *x, &[], val.clone()) } else { set_index(&mut st.vars[*x], p, Some(val.clone()), true) };
                if r.is_err() {
                    return Some(false);
                }
            }
            Some(true)
        }
        Eff::AssignOrder { targets, rhs, every } => apply_assign_order(st, targets, rhs, *every),
        Eff::Both(a, b) => match apply(a, st)? {
            true => apply(b, st),
            false => Some(false),
        },
        Eff::Op { x, path, op, rhs } => st_op(&mut st.vars, *x, path, *op, rhs),
        Eff::EveryOp { x, path, op, rhs } => st_every_op(&mut st.vars, *x, path, *op, rhs),
        Eff::Extract { kind, y, x, path } => Some(st_extract(&mut st.vars, *kind, *y, *x, path)),
        Eff::Swap { x, px, y, py } => Some(st_swap(&mut st.vars, *x, px, *y, py)),
        Eff::AssignVal { y, val } => match val {
            Ok(v) => Some(assign_into(&mut st.vars, *y, &[], v.clone()).is_ok()),
            Err(()) => Some(false),
        },
        // the reference cannot predict whether a typed target accepts an adopted value
        Eff::Adopt { y } if ty_of(*y) != Ty::Any => None,
        Eff::Adopt { .. } => Some(true),
        Eff::SetClo { c, clo } => {
            st.clos[*c] = clo.clone();
            Some(true)
        }
        Eff::DeclUpd(u) => {
            st.upds.push(u.clone());
            Some(true)
        }
        Eff::OpMut { x, path, op, rhs } => st_op_with(st, store_vars, *x, path, *op, &mut |s: &mut Store| eval_mrhs(s, rhs)),
        Eff::Unpack { xs, vals } => {
            // mirrors the clean tree: targets before the rejecting one keep their new value, the rejecting
            // target keeps its old value, later targets are not assigned
            for (x, v) in xs.iter().zip(vals.iter()) {
                if assign_into(&mut st.vars, *x, &[], v.clone()).is_err() {
                    return Some(false);
                }
            }
            Some(true)
        }
        Eff::WithDefault { x, path, dflt, op, rhs } => st_withdefault(st, *x, path, dflt, *op, rhs),
        Eff::SetMut { x, path, rhs } => match eval_mrhs(st, rhs)? {
            // index expressions, then the right-hand side, then the assignment into the then-current value
            Err(()) => Some(false),
            Ok(v) => Some(set_index(&mut st.vars[*x], path, Some(v), false).is_ok()),
        },
    }
}

/// a literal without variable references (it is evaluated AFTER the nested mutation in the real interpreter)
fn pure_lit(rng: &mut Rng, want: u64) -> E {
    match want {
        0 => lit(V::Int(rng.range(-5, 20))),
        1 => {
            let n = rng.below(3);
            let xs: Vec<i64> = (0..n).map(|_| rng.range(0, 9)).collect();
            E {
                src: format!("[{}]", xs.iter().map(|x| x.to_string()).collect::<Vec<_>>().join(", ")),
                val: V::List(xs.into_iter().map(V::Int).collect()),
                alias: false,
            }
        }
        2 => {
            let k = gen_key(rng);
            E { src: k.key_src(), val: ix_key(&k).unwrap().1, alias: false }
        }
        3 => {
            let mut m = BTreeMap::new();
            let mut parts = vec![];
            for _ in 0..rng.below(3) {
                let k = gen_key(rng);
                let (kt, kv) = ix_key(&k).unwrap();
                if m.contains_key(&kt) {
                    continue;
                }
                let v = rng.range(0, 9);
                parts.push(format!("{}: {}", k.key_src(), v));
                m.insert(kt, (kv, V::Int(v)));
            }
            E { src: format!("{{{}}}", parts.join(", ")), val: V::Dict(m, None), alias: false }
        }
        _ => {
            let w = rng.below(3);
            pure_lit(rng, w)
        }
    }
}
/// an updater closure for variable x, shaped after the kind of value x holds now
fn gen_upd(rng: &mut Rng, st: &Store, x: usize) -> (Upd, String) {
    let (op, val, ret) = match &st.vars[x] {
        V::Int(_) => (Op::Plus, pure_lit(rng, 0), pure_lit(rng, 0)),
        V::List(_) if rng.chance(1, 2) => (Op::Concat, pure_lit(rng, 1), pure_lit(rng, 1)),
        V::Dict(..) => (Op::AddKey, pure_lit(rng, 2), pure_lit(rng, 2)),
        _ => (Op::Append, pure_lit(rng, 0), pure_lit(rng, 9)),
    };
    let body = format!("\\ -> ({} {}= {}; {})", VARS[x], op.sym(), val.src, ret.src);
    (Upd { x, op, val: val.val, ret: ret.val }, body)
}
/// operator / index assignment whose right-hand side mutates the same variable (or another one)
fn gen_rhsmut(rng: &mut Rng, st: &Store, ill: bool) -> Option<BGen> {
    let nv = st.vars.len();
    let is_set = rng.chance(3, 10);
    let op = *rng.pick(&[Op::Plus, Op::Plus, Op::Append, Op::Append, Op::Append, Op::Concat, Op::Concat, Op::AddKey, Op::Union]);
    let wants = |k: Kind| -> bool {
        match op {
            Op::Plus => k == Kind::Int,
            Op::Append | Op::Concat => k == Kind::List,
            _ => matches!(k, Kind::Dict | Kind::DictD),
        }
    };
    let x = pick_var(rng, st, &|v| contains_kind(v, &|u| wants(u.kind())));
    let poss = positions(&st.vars[x], rng);
    let tpos = if is_set {
        pick_pos(rng, &poss, &|p| !p.virt && (1..=2).contains(&p.path.len()))?
    } else if ill && rng.chance(1, 3) {
        pick_pos(rng, &poss, &|p| !p.virt && p.path.len() <= 2)?
    } else {
        pick_pos(rng, &poss, &|p| !p.virt && p.path.len() <= 2 && wants(p.kind))?
    };
    let mut path = tpos.path.clone();
    let z = if rng.chance(7, 10) || nv < 2 { x } else { pick_var(rng, st, &|v| v.is_container()) };
    let zposs = if z == x { poss.clone() } else { positions(&st.vars[z], rng) };
    // the literal the right-hand side evaluates to (when it is not the extracted value)
    let then = if is_set {
        pure_lit(rng, 9)
    } else {
        match op {
            Op::Plus => pure_lit(rng, 0),
            Op::Append => pure_lit(rng, 9),
            Op::Concat => pure_lit(rng, 1),
            Op::AddKey => pure_lit(rng, 2),
            _ => pure_lit(rng, 3),
        }
    };
    // nested positions related to the target slot: the slot itself, an ancestor, a descendant, or anything
    let related = |rng: &mut Rng, pred: &dyn Fn(&Pos) -> bool| -> Option<Pos> {
        let pre = |a: &[Ix], b: &[Ix]| a.len() <= b.len() && a == &b[..a.len()];
        let r = rng.below(4);
        let c = if z == x && r < 3 {
            pick_pos(rng, &zposs, &|c| pred(c) && !c.virt && (pre(&c.path, &path) || pre(&path, &c.path)))
        } else {
            None
        };
        c.or_else(|| pick_pos(rng, &zposs, &|c| pred(c) && !c.virt)).cloned()
    };
    let shape = rng.below(10);
    let (rhs, rsrc, npath): (MutRhs, String, Vec<Ix>) = match shape {
        0 | 1 => {
            let val = pure_lit(rng, 9);
            (MutRhs::AssignThen { z, val: val.val, then: then.val.clone() }, format!("({} = {}; {})", VARS[z], val.src, then.src), vec![])
        }
        2 | 3 => {
            let c = related(rng, &|c| c.kind == Kind::List && (ill || c.len > 0))?;
            let mut np = c.path.clone();
            if ill && rng.chance(1, 2) {
                corrupt(rng, &st.vars[z], &mut np, false);
            }
            (MutRhs::Extract { kind: Ext::Pop, z, path: np.clone() }, format!("pop {}{}", VARS[z], path_src(&np)), np)
        }
        4 => {
            let c = related(rng, &|_| true)?;
            let np = c.path.clone();
            (MutRhs::Extract { kind: Ext::Consume, z, path: np.clone() }, format!("consume {}{}", VARS[z], path_src(&np)), np)
        }
        5 => {
            let c = related(rng, &|c| matches!(c.kind, Kind::List | Kind::Dict | Kind::DictD) && c.len > 0)?;
            let cont = get_path(&st.vars[z], &c.path).ok()?;
            let mut np = c.path.clone();
            match &cont {
                V::List(xs) => {
                    let l = xs.len() as i64;
                    let j = rng.below(l as u64) as i64;
                    np.push(Ix::I(if ill { l + 1 } else if rng.chance(1, 3) { j - l } else { j }));
                }
                V::Dict(m, _) => {
                    let ks: Vec<&V> = m.values().map(|(k, _)| k).collect();
                    np.push(key_ix(ks[rng.below(ks.len() as u64) as usize])?);
                }
                _ => return None,
            }
            (MutRhs::Extract { kind: Ext::Remove, z, path: np.clone() }, format!("remove {}{}", VARS[z], path_src(&np)), parent_of(&np))
        }
        6 => {
            let c = related(rng, &|c| !c.path.is_empty())?;
            let mut np = c.path.clone();
            if ill && rng.chance(1, 2) {
                corrupt(rng, &st.vars[z], &mut np, false);
            }
            let val = pure_lit(rng, 9);
            (
                MutRhs::SetThen { z, path: np.clone(), val: val.val, then: then.val.clone() },
                format!("({}{} = {}; {})", VARS[z], path_src(&np), val.src, then.src),
                parent_of(&np),
            )
        }
        7 => {
            let (nop, val) = match &st.vars[z] {
                V::Int(_) => (Op::Plus, pure_lit(rng, 0)),
                V::Dict(..) => (Op::AddKey, pure_lit(rng, 2)),
                V::List(_) if rng.chance(1, 3) => (Op::Concat, pure_lit(rng, 1)),
                _ => (Op::Append, pure_lit(rng, 9)),
            };
            (
                MutRhs::OpThen { z, op: nop, val: val.val, then: then.val.clone() },
                format!("({} {}= {}; {})", VARS[z], nop.sym(), val.src, then.src),
                vec![],
            )
        }
        _ => {
            if st.upds.is_empty() {
                return None;
            }
            // prefer an updater of the same variable
            let mut g = rng.below(st.upds.len() as u64) as usize;
            for (i, u) in st.upds.iter().enumerate() {
                if u.x == x && rng.chance(2, 3) {
                    g = i;
                }
            }
            (MutRhs::Call { g }, format!("{}()", UPDS[g]), vec![])
        }
    };
    if ill && rng.chance(1, 3) {
        corrupt(rng, &st.vars[x], &mut path, false);
    }
    let lhs_kind = get_path(&st.vars[x], &path).map(|v| v.kind()).unwrap_or(Kind::Null);
    let nested_z = match &rhs {
        MutRhs::Call { g } => st.upds[*g].x,
        _ => z,
    };
    let mut probe = vec![(x, if is_set { parent_of(&path) } else { path.clone() })];
    probe.push((nested_z, npath));
    if is_set {
        Some(BGen {
            src: format!("{}{} = {}", VARS[x], path_src(&path), rsrc),
            key: "ref:set-rhsmut",
            form: format!("set-rhsmut({})", if nested_z == x { "same" } else { "other" }),
            kind: tpos.pkind,
            probe,
            copies_container: false,
            eff: Eff::SetMut { x, path, rhs },
        })
    } else {
        Some(BGen {
            src: format!("{}{} {}= {}", VARS[x], path_src(&path), op.sym(), rsrc),
            key: "ref:opassign-rhsmut",
            form: format!("opassign-rhsmut({},{})", op.sym(), if nested_z == x { "same" } else { "other" }),
            kind: lhs_kind,
            probe,
            copies_container: false,
            eff: Eff::OpMut { x, path, op, rhs },
        })
    }
}

struct BGen {
    src: String,
    key: &'static str,
    form: String,
    kind: Kind,
    /// (variable, path) walked in the real interpreter to see whether a mutated payload is shared
    probe: Vec<(usize, Vec<Ix>)>,
    /// non-mutating form that copies / passes a container (its payload becomes shared)
    copies_container: bool,
    eff: Eff,
}
fn parent_of(p: &[Ix]) -> Vec<Ix> {
    if p.is_empty() {
        vec![]
    } else {
        p[..p.len() - 1].to_vec()
    }
}
fn pick_var(rng: &mut Rng, st: &Store, want: &dyn Fn(&V) -> bool) -> usize {
    let n = st.vars.len() as u64;
    if let Some(h) = st.hot {
        if h < st.vars.len() && rng.chance(1, 2) && want(&st.vars[h]) {
            return h;
        }
    }
    for _ in 0..4 {
        let x = rng.below(n) as usize;
        if want(&st.vars[x]) {
            return x;
        }
    }
    rng.below(n) as usize
}
fn contains_kind(v: &V, pred: &dyn Fn(&V) -> bool) -> bool {
    if pred(v) {
        return true;
    }
    match v {
        V::List(xs) | V::Inst(_, xs) => xs.iter().any(|x| contains_kind(x, pred)),
        V::Dict(m, _) => m.values().any(|(_, x)| contains_kind(x, pred)),
        _ => false,
    }
}
fn set_key(pkind: Kind) -> &'static str {
    match pkind {
        Kind::Dict | Kind::DictD => "ref:dict-set",
        Kind::Str => "ref:string-set",
        Kind::Vector => "ref:vector-set",
        Kind::Bytes => "ref:bytes-set",
        Kind::Inst => "ref:struct-field",
        _ => "ref:index-set",
    }
}
/// value suitable for a slot of a container of kind `pkind`
fn slot_value(rng: &mut Rng, st: &Store, pkind: Kind, wrong: bool) -> E {
    if wrong {
        return match rng.below(3) {
            0 => lit(V::Str(gen_str(rng, 2))),
            1 => lit(V::Null),
            _ => lit(V::Int(rng.range(256, 999))),
        };
    }
    match pkind {
        Kind::Str => lit(V::Str(gen_str(rng, 1)[..1].to_vec())),
        Kind::Vector => lit(V::Int(rng.range(-9, 20))),
        Kind::Bytes => lit(V::Int(rng.range(0, 255))),
        _ => gen_expr(rng, st, 2),
    }
}
fn gen_slice(rng: &mut Rng, len: usize) -> Ix {
    let l = len as i64;
    let b = |rng: &mut Rng| -> Option<i64> {
        if rng.chance(1, 4) {
            None
        } else {
            Some(rng.range(-l - 1, l + 1))
        }
    };
    let lo = b(rng);
    let hi = b(rng);
    Ix::S(lo, hi)
}


/// an expression of the given kind (`want`) or of any OTHER kind (`avoid`)
fn gen_kind_value(rng: &mut Rng, st: &Store, want: Option<Ty>, avoid: Option<Ty>) -> E {
    for _ in 0..8 {
        let e = gen_expr(rng, st, 2);
        let t = Ty::of(&e.val);
        let ok = match (want, avoid) {
            (Some(w), _) => t == w,
            (_, Some(a)) => t != a,
            _ => true,
        };
        if ok {
            return e;
        }
    }
    match (want, avoid) {
        (Some(Ty::Int), _) => lit(V::Int(rng.range(-5, 20))),
        (Some(Ty::List), _) => pure_lit(rng, 1),
        (Some(Ty::Str), _) => lit(V::Str(gen_str(rng, 0))),
        (Some(Ty::Dict), _) => pure_lit(rng, 3),
        (Some(Ty::Vector), _) => lit(V::Vector(vec![rng.range(0, 9), rng.range(0, 9)])),
        (Some(Ty::Bytes), _) => lit(V::Bytes(gen_str(rng, 1))),
        (_, Some(Ty::Int)) => lit(V::Str(gen_str(rng, 1))),
        _ => lit(V::Int(rng.range(-5, 20))),
    }
}

/// every statement form through struct field accessors, ~35 % FOREIGN ones (accessor of another struct:
/// differently named, or same-named but a different declaration), at the end or in the middle of a path
fn gen_struct(rng: &mut Rng, st: &Store, _ill: bool) -> Option<BGen> {
    let nv = st.vars.len();
    let mut insts: Vec<(usize, Pos)> = vec![];
    for x in 0..nv {
        for p in positions(&st.vars[x], rng) {
            if !p.virt && p.kind == Kind::Inst && p.path.len() <= 2 {
                insts.push((x, p));
            }
        }
    }
    let y = rng.below(nv as u64) as usize;
    if insts.is_empty() || rng.chance(1, 12) {
        // make one (also inside a list / dict)
        let sid = *rng.pick(&[0usize, 2, 3, 3, 4, 4, 5, 6, 7]);
        let inst = gen_inst(rng, st, 1, sid);
        let e = match rng.below(4) {
            0 => E { src: format!("[{}]", inst.src), val: V::List(vec![inst.val]), alias: inst.alias },
            1 => {
                let k = gen_key(rng);
                let (kt, kv) = ix_key(&k).unwrap();
                let mut m = BTreeMap::new();
                m.insert(kt, (kv, inst.val));
                E { src: format!("{{{}: {}}}", k.key_src(), inst.src), val: V::Dict(m, None), alias: inst.alias }
            }
            _ => inst,
        };
        if !ty_of(y).accepts(&e.val) {
            return None;
        }
        return Some(BGen {
            src: format!("{} = {}", VARS[y], e.src),
            key: "ref:assign",
            form: "assign".into(),
            kind: e.val.kind(),
            probe: vec![],
            copies_container: e.alias,
            eff: Eff::AssignVal { y, val: Ok(e.val) },
        });
    }
    // instances of same-named structs are where pop / remove / consume can go wrong: prefer them a bit
    let same_named = |sid: usize| (0..STRUCTS.len()).any(|o| o != sid && STRUCTS[o].name == STRUCTS[sid].name);
    let form = rng.below(16);
    let is_extract = (7..=10).contains(&form);
    let mut pick = insts[rng.below(insts.len() as u64) as usize].clone();
    for _ in 0..(if is_extract { 6 } else { 2 }) {
        if let Ok(V::Inst(sid, _)) = get_path(&st.vars[pick.0], &pick.1.path) {
            if same_named(sid) {
                break;
            }
        }
        pick = insts[rng.below(insts.len() as u64) as usize].clone();
    }
    let (x, pos) = pick;
    let Ok(V::Inst(sid, fields)) = get_path(&st.vars[x], &pos.path) else { return None };
    let nf = fields.len();
    // accessor: own, or foreign (same-named other declaration / differently named struct)
    let accessor = |rng: &mut Rng, foreign: bool| -> Ix {
        if !foreign {
            return Ix::F(sid, rng.below(nf as u64) as usize);
        }
        let same: Vec<usize> = (0..STRUCTS.len()).filter(|o| *o != sid && STRUCTS[*o].name == STRUCTS[sid].name).collect();
        let other: Vec<usize> = (0..STRUCTS.len()).filter(|o| STRUCTS[*o].name != STRUCTS[sid].name).collect();
        let o = if !same.is_empty() && rng.chance(if is_extract { 9 } else { 6 }, 10) { same[rng.below(same.len() as u64) as usize] } else { other[rng.below(other.len() as u64) as usize] };
        Ix::F(o, rng.below(STRUCTS[o].fields.len() as u64) as usize)
    };
    let foreign = rng.chance(if is_extract { 45 } else { 35 }, 100);
    let mut acc = accessor(rng, foreign);
    if !foreign && is_extract {
        // an own accessor of a field that holds a list, when there is one (pop / remove need it)
        let lists: Vec<usize> = (0..nf).filter(|f| matches!(&fields[*f], V::List(l) if !l.is_empty())).collect();
        if !lists.is_empty() && rng.chance(2, 3) {
            acc = Ix::F(sid, lists[rng.below(lists.len() as u64) as usize]);
        }
    }
    let cls = if !foreign {
        "own"
    } else if let Ix::F(o, _) = &acc {
        if STRUCTS[*o].name == STRUCTS[sid].name {
            "foreign-same-name"
        } else {
            "foreign"
        }
    } else {
        "own"
    };
    let mut base = pos.path.clone();
    base.push(acc.clone());
    // the value the accessor addresses (own) or would address by position (foreign): used to choose what follows
    let slot_val: Option<V> = match &acc {
        Ix::F(_, f) => fields.get(*f).cloned(),
        _ => None,
    };
    // sometimes continue below the accessor, which puts a foreign accessor in the MIDDLE of the path
    let deeper = |rng: &mut Rng, base: &Vec<Ix>| -> Vec<Ix> {
        let mut p = base.clone();
        if rng.chance(2, 5) {
            if let Some(sv) = &slot_val {
                let subs = positions(sv, rng);
                if let Some(c) = pick_pos(rng, &subs, &|c| !c.virt && c.path.len() == 1) {
                    p.extend(c.path.iter().cloned());
                }
            }
        }
        p
    };
    let mk = |src: String, key: &'static str, f: &str, probe: Vec<(usize, Vec<Ix>)>, copies: bool, eff: Eff| -> Option<BGen> {
        Some(BGen { src, key, form: format!("{}({})", f, cls), kind: Kind::Inst, probe, copies_container: copies, eff })
    };
    match form {
        0..=2 => {
            let path = deeper(rng, &base);
            let e = gen_expr(rng, st, 2);
            mk(format!("{}{} = {}", VARS[x], path_src(&path), e.src), "ref:struct-set", "struct-set", vec![(x, parent_of(&path))], false, Eff::Set { x, path, val: e.val, every: false })
        }
        3 | 4 => {
            // every x[a1], x[a2] = v with the foreign accessor first or second; or a slice below the accessor
            let e = gen_expr(rng, st, 1);
            if rng.chance(1, 4) {
                let mut path = base.clone();
                path.push(Ix::S(None, None));
                return mk(format!("every {}{} = {}", VARS[x], path_src(&path), e.src), "ref:struct-every", "struct-every", vec![(x, base.clone())], false, Eff::Set { x, path, val: e.val, every: true });
            }
            let mut p2 = pos.path.clone();
            p2.push(accessor(rng, false));
            let targets = if rng.chance(1, 2) { vec![(x, base.clone()), (x, p2)] } else { vec![(x, p2), (x, base.clone())] };
            let tsrc: Vec<String> = targets.iter().map(|(x, p)| format!("{}{}", VARS[*x], path_src(p))).collect();
            mk(format!("every {} = {}", tsrc.join(", "), e.src), "ref:struct-every", "struct-every", vec![(x, pos.path.clone())], false, Eff::EveryTargets { targets, val: e.val })
        }
        5 | 6 => {
            let path = deeper(rng, &base);
            let cur = get_path(&st.vars[x], &path).ok().or_else(|| slot_val.clone());
            let (op, rhs) = match cur {
                Some(V::Int(_)) => (Op::Plus, lit(V::Int(rng.range(1, 9)))),
                Some(V::Dict(..)) => (Op::AddKey, pure_lit(rng, 2)),
                Some(V::List(_)) if rng.chance(1, 3) => (Op::Concat, pure_lit(rng, 1)),
                _ => (Op::Append, gen_expr(rng, st, 1)),
            };
            mk(format!("{}{} {}= {}", VARS[x], path_src(&path), op.sym(), rhs.src), "ref:struct-opassign", "struct-opassign", vec![(x, path.clone())], false, Eff::Op { x, path, op, rhs: rhs.val })
        }
        7..=10 => {
            // pop / remove / consume: they raise before mutating anything when the accessor is foreign
            let (kind, kw, path) = match (rng.below(3), &slot_val) {
                (0, Some(V::List(l))) if !l.is_empty() || foreign => (Ext::Pop, "pop", base.clone()),
                (1, Some(V::List(l))) if !l.is_empty() => {
                    let mut p = base.clone();
                    let n = l.len() as i64;
                    let j = rng.below(n as u64) as i64;
                    p.push(Ix::I(if rng.chance(1, 3) { j - n } else { j }));
                    (Ext::Remove, "remove", p)
                }
                (1, Some(V::Dict(m, _))) if !m.is_empty() => {
                    let ks: Vec<&V> = m.values().map(|(k, _)| k).collect();
                    let mut p = base.clone();
                    p.push(key_ix(ks[rng.below(ks.len() as u64) as usize])?);
                    (Ext::Remove, "remove", p)
                }
                (0, _) => (Ext::Pop, "pop", base.clone()),
                _ => (Ext::Consume, "consume", deeper(rng, &base)),
            };
            let probe = vec![(x, if kind == Ext::Pop { path.clone() } else { parent_of(&path) })];
            mk(format!("{} = {} {}{}", VARS[y], kw, VARS[x], path_src(&path)), "ref:struct-extract", &format!("struct-extract-{}", kw), probe, false, Eff::Extract { kind, y, x, path })
        }
        11 | 12 => {
            // functional update of the instance: qy = qx[..]{acc = v}
            let e = gen_expr(rng, st, 1);
            let mut copy = V::Inst(sid, fields.clone());
            let r = set_index(&mut copy, &[acc.clone()], Some(e.val), false).map(|_| copy);
            mk(
                format!("{} = {}{}{{{} = {}}}", VARS[y], VARS[x], path_src(&pos.path), acc.key_src(), e.src),
                "ref:struct-update",
                "struct-update",
                vec![],
                true,
                Eff::AssignVal { y, val: r },
            )
        }
        13 => {
            let path = deeper(rng, &base);
            let (a, pa, b, pb) = if rng.chance(1, 2) { (x, path.clone(), y, vec![]) } else { (y, vec![], x, path.clone()) };
            mk(format!("swap {}{}, {}{}", VARS[a], path_src(&pa), VARS[b], path_src(&pb)), "ref:struct-swap", "struct-swap", vec![(x, parent_of(&path))], false, Eff::Swap { x: a, px: pa, y: b, py: pb })
        }
        _ => {
            let path = deeper(rng, &base);
            let r = get_path(&st.vars[x], &path);
            let copies = r.as_ref().map(|v| v.is_container()).unwrap_or(false);
            mk(format!("{} = {}{}", VARS[y], VARS[x], path_src(&path)), "ref:struct-read", "struct-read", vec![], copies, Eff::AssignVal { y, val: r })
        }
    }
}

/// a helper assignment that gives the history an int list / a small int to index with
fn make_helper(rng: &mut Rng, st: &Store, want_list: bool, avoid: Option<usize>) -> Option<BGen> {
    let nv = st.vars.len();
    let e = if want_list {
        let n = rng.range(2, 4);
        let xs: Vec<i64> = (0..n).map(|_| rng.range(0, 2)).collect();
        E { src: format!("[{}]", xs.iter().map(|x| x.to_string()).collect::<Vec<_>>().join(", ")), val: V::List(xs.into_iter().map(V::Int).collect()), alias: false }
    } else {
        lit(V::Int(rng.range(0, 2)))
    };
    let y = (0..nv).map(|_| rng.below(nv as u64) as usize).find(|y| Some(*y) != avoid && ty_of(*y).accepts(&e.val))?;
    Some(BGen {
        src: format!("{} = {}", VARS[y], e.src),
        key: "ref:assign",
        form: "assign".into(),
        kind: e.val.kind(),
        probe: vec![],
        copies_container: false,
        eff: Eff::AssignVal { y, val: Ok(e.val) },
    })
}
/// plain assignments whose target index expression reads state that the right-hand side mutates (or the
/// converse): pins "target index expressions first, left to right, then the right-hand side"
fn gen_assign_order(rng: &mut Rng, st: &Store, _ill: bool) -> Option<BGen> {
    let nv = st.vars.len();
    let int_lists: Vec<usize> = (0..nv).filter(|i| matches!(&st.vars[*i], V::List(l) if l.len() >= 2 && l.iter().all(|e| matches!(e, V::Int(n) if (-3..=6).contains(n))))).collect();
    let ints: Vec<usize> = (0..nv).filter(|i| matches!(&st.vars[*i], V::Int(n) if (-2..=4).contains(n))).collect();
    if int_lists.is_empty() {
        return make_helper(rng, st, true, ints.first().copied());
    }
    let qq = int_lists[rng.below(int_lists.len() as u64) as usize];
    if ints.is_empty() && rng.chance(1, 2) {
        return make_helper(rng, st, false, Some(qq));
    }
    let qi = if ints.is_empty() { None } else { Some(ints[rng.below(ints.len() as u64) as usize]) };
    // targets: a list or dict at depth 0..1 of any variable (also of qq itself)
    let mut conts: Vec<(usize, Pos)> = vec![];
    for x in 0..nv {
        for p in positions(&st.vars[x], rng) {
            if !p.virt && p.path.len() <= 1 && matches!(p.kind, Kind::List | Kind::Dict | Kind::DictD) && (p.kind != Kind::List || p.len > 0) {
                conts.push((x, p));
            }
        }
    }
    if conts.is_empty() {
        return None;
    }
    let idx_ex = |rng: &mut Rng| -> Ex {
        loop {
            let e = match rng.below(8) {
                0 | 1 => Ex::At(qq, -1),
                2 => Ex::At(qq, 0),
                3 => Ex::LenM1(qq),
                4 => Ex::Pop(qq),
                5 | 6 => match qi {
                    Some(q) => {
                        if rng.chance(1, 2) {
                            Ex::Var(q)
                        } else {
                            Ex::Bump(q, 1)
                        }
                    }
                    None => continue,
                },
                _ => Ex::LenM1(qq),
            };
            return e;
        }
    };
    let rhs_ex = |rng: &mut Rng| -> Ex {
        loop {
            let e = match rng.below(11) {
                0 | 1 => Ex::Pop(qq),
                2 => Ex::Rem0(qq),
                3 => Ex::Consume(qq),
                4 => Ex::AppThen(qq, 0, rng.range(5, 9)),
                5 => Ex::Len(qq),
                6 | 7 => match qi {
                    Some(q) => Ex::Bump(q, 1),
                    None => continue,
                },
                8 => match qi {
                    Some(q) => Ex::SetThen(q, 0, rng.range(5, 9)),
                    None => continue,
                },
                9 => match qi {
                    Some(q) => Ex::Var(q),
                    None => continue,
                },
                _ => {
                    if st.upds.is_empty() {
                        continue;
                    }
                    Ex::Call(rng.below(st.upds.len() as u64) as usize)
                }
            };
            return e;
        }
    };
    let ntargets = if rng.chance(1, 6) { 2 } else { 1 };
    let every = ntargets == 1 && rng.chance(1, 6);
    let mut targets = vec![];
    let mut rhs = vec![];
    for _ in 0..ntargets {
        let (x, pos) = conts[rng.below(conts.len() as u64) as usize].clone();
        targets.push((x, pos.path.clone(), idx_ex(rng)));
        rhs.push(rhs_ex(rng));
    }
    // at least one side must mutate what the other reads, else the order cannot matter
    if !targets.iter().any(|t| t.2.mutates()) && !rhs.iter().any(|r| r.mutates()) {
        return None;
    }
    let tsrc: Vec<String> = targets.iter().map(|(x, b, e)| format!("{}{}[{}]", VARS[*x], path_src(b), e.src())).collect();
    let rsrc: Vec<String> = rhs.iter().map(|r| r.src()).collect();
    let (x0, b0) = (targets[0].0, targets[0].1.clone());
    let kind = get_path(&st.vars[x0], &b0).map(|v| v.kind()).unwrap_or(Kind::Null);
    Some(BGen {
        src: format!("{}{} = {}", if every { "every " } else { "" }, tsrc.join(", "), rsrc.join(", ")),
        key: "ref:assign-order",
        form: format!("assign-order({})", if every { "every" } else if ntargets == 2 { "unpack" } else { "plain" }),
        kind,
        probe: vec![(x0, b0)],
        copies_container: false,
        eff: Eff::AssignOrder { targets, rhs, every },
    })
}
/// closures created in a `for` body: every iteration has its own scope, so each closure keeps its own
/// loop variable / body-declared variable (one compound statement, the closures are called inside it)
fn gen_loop_closure(rng: &mut Rng, st: &Store, _ill: bool) -> Option<BGen> {
    let nv = st.vars.len();
    let y = rng.below(nv as u64) as usize;
    // the iterated list: a list variable or a literal
    let list_vars: Vec<usize> = (0..nv).filter(|i| matches!(&st.vars[*i], V::List(l) if !l.is_empty() && l.len() <= 5)).collect();
    let from_var = !list_vars.is_empty() && rng.chance(3, 5);
    let (src_e, xs, xvar): (String, Vec<V>, Option<usize>) = if from_var {
        let x = list_vars[rng.below(list_vars.len() as u64) as usize];
        let V::List(l) = &st.vars[x] else { return None };
        (VARS[x].to_string(), l.clone(), Some(x))
    } else {
        let n = rng.range(2, 3);
        let rows = rng.chance(2, 3);
        let es: Vec<E> = (0..n).map(|_| if rows { pure_lit(rng, 1) } else { gen_expr(rng, st, 1) }).collect();
        (format!("[{}]", es.iter().map(|e| e.src.clone()).collect::<Vec<_>>().join(", ")), es.into_iter().map(|e| e.val).collect(), None)
    };
    if xs.iter().any(|v| v.has_opaque()) {
        return None;
    }
    let all_lists = xs.iter().all(|v| matches!(v, V::List(_)));
    // `v append= k` works on lists, vectors and bytes; anything else raises
    let pushed = |v: &V, k: i64| -> R<V> { binop(Op::Append, v.clone(), &V::Int(k)).unwrap_or(Err(())) };
    let call_all = "fs map (\\f -> f())";
    let t = rng.below(10);
    // (loop source, result expression, expected value, extra effect on the iterated variable, uses `<-`)
    let (lp, res, val, extra, normal): (String, String, R<V>, Option<Eff>, bool) = match t {
        0 | 1 => (format!("for (v <- {}) fs append= \\-> v", src_e), call_all.into(), Ok(V::List(xs.clone())), None, true),
        2 => (
            format!("for (v <- {}) (w := [v, v]; fs append= \\-> w)", src_e),
            call_all.into(),
            Ok(V::List(xs.iter().map(|v| V::List(vec![v.clone(), v.clone()])).collect())),
            None,
            true,
        ),
        3 => (
            // the loop variable is changed AFTER the closure captured it: the closure shares the cell
            format!("for (v <- {}) (fs append= \\-> v; v append= 0)", src_e),
            call_all.into(),
            xs.iter().map(|v| pushed(v, 0)).collect::<R<Vec<V>>>().map(V::List),
            None,
            true,
        ),
        4 => {
            // closures that mutate their captured loop variable, called several times: one cell each
            // only the first and the last closure are called
            let first = pushed(&xs[0], 1);
            let second = first.clone().and_then(|f| pushed(&f, 1));
            let last = if xs.len() == 1 { second.clone().and_then(|s| pushed(&s, 1)) } else { pushed(&xs[xs.len() - 1], 1) };
            (
                format!("for (v <- {}) fs append= \\-> (v append= 1; v)", src_e),
                "[fs[0](), fs[0](), fs[-1]()]".into(),
                match (first, second, last) {
                    (Ok(a), Ok(b), Ok(c)) => Ok(V::List(vec![a, b, c])),
                    _ => Err(()),
                },
                None,
                true,
            )
        }
        5 => (
            format!("for (v <<- {}) fs append= \\-> v", src_e),
            call_all.into(),
            Ok(V::List(xs.iter().enumerate().map(|(i, v)| V::List(vec![V::Int(i as i64), v.clone()])).collect())),
            None,
            false,
        ),
        6 => (
            format!("for (v <- {}; w := [v]) fs append= \\-> w", src_e),
            call_all.into(),
            Ok(V::List(xs.iter().map(|v| V::List(vec![v.clone()])).collect())),
            None,
            true,
        ),
        7 => (
            format!("for (i, v <<- {}) fs append= \\-> [i, v]", src_e),
            call_all.into(),
            Ok(V::List(xs.iter().enumerate().map(|(i, v)| V::List(vec![V::Int(i as i64), v.clone()])).collect())),
            None,
            false,
        ),
        8 => {
            if xs.len() > 3 {
                return None;
            }
            let mut out = vec![];
            for a in &xs {
                for b in &xs {
                    out.push(V::List(vec![a.clone(), b.clone()]));
                }
            }
            (format!("for (a <- {}; b <- {}) fs append= \\-> [a, b]", src_e, src_e), call_all.into(), Ok(V::List(out)), None, true)
        }
        _ => {
            // the iterated variable is changed after the loop: the closures keep their own rows
            let x = xvar?;
            (
                format!("for (v <- {}) fs append= \\-> v; {}[0] = 99", src_e, VARS[x]),
                call_all.into(),
                Ok(V::List(xs.clone())),
                Some(Eff::Set { x, path: vec![Ix::I(0)], val: V::Int(99), every: false }),
                true,
            )
        }
    };
    // with ONE scope for all iterations every closure would see the last element
    let distinct = xs.windows(2).any(|w| w[0] != w[1]);
    let sens = normal && xs.len() >= 2 && distinct && val.is_ok();
    let assign = Eff::AssignVal { y, val };
    let eff = match extra {
        Some(e) => Eff::Both(Box::new(e), Box::new(assign)),
        None => assign,
    };
    Some(BGen {
        src: format!("{} = (\\-> (fs := []; {}; {}))()", VARS[y], lp, res),
        key: "ref:loop-closure",
        form: format!("loop-closure(t{}{})", t.min(9), if sens { ",sens" } else { "" }),
        kind: if all_lists { Kind::List } else { Kind::Int },
        probe: vec![],
        copies_container: xs.iter().any(|v| v.is_container()),
        eff,
    })
}
/// statements that write a whole TYPED variable, mostly with a value its declared type rejects
fn gen_typed(rng: &mut Rng, st: &Store, _ill: bool) -> Option<BGen> {
    let nv = st.vars.len();
    let typed: Vec<usize> = (0..nv).filter(|i| ty_of(*i) != Ty::Any).collect();
    if typed.is_empty() {
        return None;
    }
    let t = typed[rng.below(typed.len() as u64) as usize];
    let ty = ty_of(t);
    let wrong_kind = rng.chance(7, 10);
    let value = |rng: &mut Rng| -> E {
        if wrong_kind {
            gen_kind_value(rng, st, None, Some(ty))
        } else {
            gen_kind_value(rng, st, Some(ty), None)
        }
    };
    let other = |rng: &mut Rng| -> usize {
        let mut y = rng.below(nv as u64) as usize;
        if y == t {
            y = (t + 1 + rng.below((nv - 1) as u64) as usize) % nv;
        }
        y
    };
    let tag = |f: &str| format!("{}({})", f, ty.name());
    match rng.below(12) {
        0 | 1 => {
            // plain assignment, also of a call / update result
            let (src, val): (String, R<V>) = match rng.below(5) {
                0 => {
                    let y = rng.below(nv as u64) as usize;
                    let f = *rng.pick(&[Op::Rev, Op::Len, Op::Sort]);
                    let r = binop(f, st.vars[y].clone(), &V::Null)?;
                    (format!("{}({})", op_name(f), VARS[y]), r)
                }
                1 => {
                    let y = rng.below(nv as u64) as usize;
                    let k = match &st.vars[y] {
                        V::Dict(..) => gen_key(rng),
                        _ => Ix::I(rng.range(-1, 1)),
                    };
                    let v = lit(V::Int(rng.range(0, 9)));
                    let mut base = st.vars[y].clone();
                    let r = set_index(&mut base, &[k.clone()], Some(v.val), false).map(|_| base);
                    (format!("{}{{{} = {}}}", VARS[y], k.key_src(), v.src), r)
                }
                _ => {
                    let e = value(rng);
                    (e.src, Ok(e.val))
                }
            };
            Some(BGen {
                src: format!("{} = {}", VARS[t], src),
                key: "ref:typed-assign",
                form: tag("typed-assign"),
                kind: st.vars[t].kind(),
                probe: vec![(t, vec![])],
                copies_container: false,
                eff: Eff::AssignVal { y: t, val },
            })
        }
        2 | 3 => {
            let e = value(rng);
            let (xs, src) = if nv >= 2 && rng.chance(1, 2) {
                let y = other(rng);
                let xs = if rng.chance(1, 2) { vec![t, y] } else { vec![y, t] };
                let names: Vec<&str> = xs.iter().map(|x| VARS[*x]).collect();
                (xs, format!("every {} = {}", names.join(", "), e.src))
            } else {
                (vec![t], format!("every {} = {}", VARS[t], e.src))
            };
            Some(BGen {
                src,
                key: "ref:typed-every",
                form: tag("typed-every"),
                kind: st.vars[t].kind(),
                probe: vec![(t, vec![])],
                copies_container: false,
                eff: Eff::EveryMulti { xs, val: e.val },
            })
        }
        4 | 5 => {
            if nv < 2 {
                return None;
            }
            // unpacking: the typed target first, second (or in the middle of three)
            let mut xs = vec![t];
            let y = other(rng);
            xs.push(y);
            if nv >= 3 && rng.chance(1, 3) {
                let z = (0..nv).find(|z| *z != t && *z != y)?;
                xs.push(z);
            }
            let r = rng.below(xs.len() as u64) as usize;
            xs.swap(0, r);
            let es: Vec<E> = xs.iter().map(|x| if *x == t { value(rng) } else { gen_kind_value(rng, st, Some(ty_of(*x)).filter(|t| *t != Ty::Any), None) }).collect();
            let names: Vec<&str> = xs.iter().map(|x| VARS[*x]).collect();
            let rhs = es.iter().map(|e| e.src.clone()).collect::<Vec<_>>().join(", ");
            let src = if rng.chance(1, 2) { format!("{} = {}", names.join(", "), rhs) } else { format!("{} = [{}]", names.join(", "), rhs) };
            Some(BGen {
                src,
                key: "ref:typed-unpack",
                form: tag("typed-unpack"),
                kind: st.vars[t].kind(),
                probe: vec![(t, vec![])],
                copies_container: false,
                eff: Eff::Unpack { xs, vals: es.into_iter().map(|e| e.val).collect() },
            })
        }
        6 | 7 => {
            if nv < 2 {
                return None;
            }
            let y = other(rng);
            let mut py = vec![];
            if rng.chance(1, 3) {
                let poss = positions(&st.vars[y], rng);
                if let Some(p) = pick_pos(rng, &poss, &|p| !p.virt && !p.path.is_empty()) {
                    py = p.path.clone();
                }
            }
            let (x, px, y2, py2) = if rng.chance(1, 2) { (t, vec![], y, py) } else { (y, py, t, vec![]) };
            Some(BGen {
                src: format!("swap {}{}, {}{}", VARS[x], path_src(&px), VARS[y2], path_src(&py2)),
                key: "ref:typed-swap",
                form: tag("typed-swap"),
                kind: st.vars[t].kind(),
                probe: vec![(t, vec![])],
                copies_container: false,
                eff: Eff::Swap { x, px, y: y2, py: py2 },
            })
        }
        8 | 9 => {
            // op-assignment on the whole typed variable: a result of another kind is rejected at the
            // write-back and leaves the variable NULL (the slot is null while the operator runs)
            let (op, rhs): (Op, E) = match (ty, rng.below(4)) {
                (Ty::Int, 0) => (Op::Dollar, lit(V::Str(gen_str(rng, 1)))),
                (Ty::Int, 1) => (Op::Str, E { src: "str".into(), val: V::Null, alias: false }),
                (Ty::Int, 2) => (Op::Plus, lit(V::Int(rng.range(1, 9)))),
                (Ty::Int, _) => (Op::Append, lit(V::Int(1))),
                (Ty::List, 0) | (Ty::Str, 0) | (Ty::Dict, 0) | (Ty::Vector, 0) | (Ty::Bytes, 0) => (Op::Len, E { src: "len".into(), val: V::Null, alias: false }),
                (Ty::List, 1) => (Op::Append, gen_expr(rng, st, 1)),
                (Ty::List, 2) => (Op::Rev, E { src: "reverse".into(), val: V::Null, alias: false }),
                (Ty::List, _) => (Op::Concat, pure_lit(rng, 1)),
                (Ty::Str, 1) => (Op::Dollar, lit(V::Str(gen_str(rng, 1)))),
                (Ty::Str, _) => (Op::Rev, E { src: "reverse".into(), val: V::Null, alias: false }),
                (Ty::Dict, 1) => (Op::AddKey, pure_lit(rng, 2)),
                (Ty::Dict, _) => (Op::Union, pure_lit(rng, 3)),
                (Ty::Vector, 1) => (Op::Plus, lit(V::Int(rng.range(1, 9)))),
                (Ty::Vector, _) => (Op::Append, lit(V::Int(rng.range(0, 9)))),
                (Ty::Bytes, 1) => (Op::Append, lit(V::Int(rng.range(0, 255)))),
                (Ty::Bytes, _) => (Op::Rev, E { src: "reverse".into(), val: V::Null, alias: false }),
                _ => return None,
            };
            Some(BGen {
                src: format!("{} {}= {}", VARS[t], op.sym(), rhs.src),
                key: "ref:typed-opassign",
                form: format!("typed-opassign({},{})", ty.name(), op_name(op)),
                kind: st.vars[t].kind(),
                probe: vec![(t, vec![])],
                copies_container: false,
                eff: Eff::Op { x: t, path: vec![], op, rhs: rhs.val },
            })
        }
        _ => {
            // pop / remove / consume into the typed target: the extraction happens, a value of another
            // kind is then rejected and the target keeps its old value
            let x = pick_var(rng, st, &|v| matches!(v, V::List(l) if !l.is_empty()) || matches!(v, V::Dict(m, _) if !m.is_empty()));
            let poss = positions(&st.vars[x], rng);
            let which = rng.below(3);
            let (kind, kw, path) = match which {
                0 => (Ext::Pop, "pop", pick_pos(rng, &poss, &|p| p.kind == Kind::List && p.len > 0)?.path.clone()),
                1 => (Ext::Consume, "consume", pick_pos(rng, &poss, &|p| !p.virt)?.path.clone()),
                _ => {
                    let p = pick_pos(rng, &poss, &|p| matches!(p.kind, Kind::List | Kind::Dict | Kind::DictD) && p.len > 0)?;
                    let subs: Vec<&Pos> = poss.iter().filter(|c| !c.virt && c.path.len() == p.path.len() + 1 && c.path[..p.path.len()] == p.path[..]).collect();
                    if subs.is_empty() {
                        return None;
                    }
                    (Ext::Remove, "remove", subs[rng.below(subs.len() as u64) as usize].path.clone())
                }
            };
            Some(BGen {
                src: format!("{} = {} {}{}", VARS[t], kw, VARS[x], path_src(&path)),
                key: "ref:typed-extract",
                form: tag(&format!("typed-extract-{}", kw)),
                kind: st.vars[t].kind(),
                probe: vec![(x, if kind == Ext::Pop { path.clone() } else { parent_of(&path) })],
                copies_container: false,
                eff: Eff::Extract { kind, y: t, x, path },
            })
        }
    }
}

/// `(d[k] = dflt) op= v` on plain dicts (no default), present and absent keys, defaults that are pure,
/// have a side effect on another variable, or raise
fn gen_withdefault(rng: &mut Rng, st: &Store, ill: bool) -> Option<BGen> {
    let nv = st.vars.len();
    // every plain dict at depth 0..2
    let mut cands: Vec<(usize, Pos)> = vec![];
    let mut bad: Vec<(usize, Pos)> = vec![];
    for x in 0..nv {
        for p in positions(&st.vars[x], rng) {
            if p.virt || p.path.len() > 2 {
                continue;
            }
            if p.kind == Kind::Dict {
                cands.push((x, p));
            } else if matches!(p.kind, Kind::DictD | Kind::List | Kind::Int) {
                bad.push((x, p));
            }
        }
    }
    if cands.is_empty() {
        // make one: a plain dict with int / list values
        let y = rng.below(nv as u64) as usize;
        if !ty_of(y).accepts(&V::Dict(BTreeMap::new(), None)) {
            return None;
        }
        let mut m = BTreeMap::new();
        let mut parts = vec![];
        for _ in 0..rng.range(2, 4) {
            let k = gen_key(rng);
            let (kt, kv) = ix_key(&k).unwrap();
            if m.contains_key(&kt) {
                continue;
            }
            let v = if rng.chance(1, 2) { pure_lit(rng, 0) } else { pure_lit(rng, 1) };
            parts.push(format!("{}: {}", k.key_src(), v.src));
            m.insert(kt, (kv, v.val));
        }
        let val = V::Dict(m, None);
        return Some(BGen {
            src: format!("{} = {{{}}}", VARS[y], parts.join(", ")),
            key: "ref:assign",
            form: "assign".into(),
            kind: Kind::Dict,
            probe: vec![],
            copies_container: false,
            eff: Eff::AssignVal { y, val: Ok(val) },
        });
    }
    let illformed = ill && !bad.is_empty() && rng.chance(1, 2);
    let (x, pos) = if illformed { bad[rng.below(bad.len() as u64) as usize].clone() } else { cands[rng.below(cands.len() as u64) as usize].clone() };
    let cont = get_path(&st.vars[x], &pos.path).ok()?;
    let existing: Vec<Ix> = match &cont {
        V::Dict(m, _) => m.values().filter_map(|(k, _)| key_ix(k)).collect(),
        _ => vec![],
    };
    let present = !existing.is_empty() && rng.chance(1, 2);
    let k = if present {
        existing[rng.below(existing.len() as u64) as usize].clone()
    } else {
        let mut k = gen_key(rng);
        for _ in 0..6 {
            if !existing.contains(&k) {
                break;
            }
            k = gen_key(rng);
        }
        if existing.contains(&k) {
            return None;
        }
        k
    };
    let mut path = pos.path.clone();
    path.push(k);
    // operator by the kind of the stored entry (present) or free (absent)
    let stored = if present { get_path(&st.vars[x], &path).ok() } else { None };
    let op = match &stored {
        Some(V::Int(_)) => Op::Plus,
        Some(V::List(_)) => *rng.pick(&[Op::Append, Op::Concat]),
        Some(V::Dict(..)) => Op::AddKey,
        Some(_) => Op::Append,
        None => *rng.pick(&[Op::Plus, Op::Append, Op::Append, Op::Concat, Op::AddKey]),
    };
    let rhs = match op {
        Op::Plus => pure_lit(rng, 0),
        Op::Append => pure_lit(rng, 9),
        Op::Concat => pure_lit(rng, 1),
        _ => pure_lit(rng, 2),
    };
    let pure_default = |rng: &mut Rng| -> E {
        match op {
            Op::Plus => lit(V::Int(if rng.chance(1, 2) { 0 } else { rng.range(1, 9) })),
            Op::AddKey => E { src: "{}".into(), val: V::Dict(BTreeMap::new(), None), alias: false },
            _ => E { src: "[]".into(), val: V::List(vec![]), alias: false },
        }
    };
    // the variable the default expression touches: mostly ANOTHER variable, sometimes the same one
    let y = if nv >= 2 && !rng.chance(1, 7) { (x + 1 + rng.below((nv - 1) as u64) as usize) % nv } else { x };
    let yposs = positions(&st.vars[y], rng);
    let shape = rng.below(20);
    let (dflt, dsrc, dclass): (DefaultE, String, &str) = match shape {
        0..=5 => {
            let e = pure_default(rng);
            (DefaultE::Pure(e.val), e.src, "pure")
        }
        6..=8 => {
            let p = pick_pos(rng, &yposs, &|p| p.kind == Kind::List && p.len > 0)?.path.clone();
            (DefaultE::Mut(MutRhs::Extract { kind: Ext::Pop, z: y, path: p.clone() }), format!("pop {}{}", VARS[y], path_src(&p)), "pop")
        }
        9 | 10 => {
            let p = pick_pos(rng, &yposs, &|p| !p.virt)?.path.clone();
            (DefaultE::Mut(MutRhs::Extract { kind: Ext::Consume, z: y, path: p.clone() }), format!("consume {}{}", VARS[y], path_src(&p)), "consume")
        }
        11 | 12 => {
            let p = pick_pos(rng, &yposs, &|p| !p.virt && !p.path.is_empty() && matches!(p.pkind, Kind::List | Kind::Dict | Kind::DictD))?.path.clone();
            (DefaultE::Mut(MutRhs::Extract { kind: Ext::Remove, z: y, path: p.clone() }), format!("remove {}{}", VARS[y], path_src(&p)), "remove")
        }
        13 | 14 => {
            let then = pure_default(rng);
            let (nop, val) = match &st.vars[y] {
                V::Int(_) => (Op::Plus, pure_lit(rng, 0)),
                V::Dict(..) => (Op::AddKey, pure_lit(rng, 2)),
                _ => (Op::Append, pure_lit(rng, 0)),
            };
            (
                DefaultE::Mut(MutRhs::OpThen { z: y, op: nop, val: val.val, then: then.val }),
                format!("({} {}= {}; {})", VARS[y], nop.sym(), val.src, then.src),
                "opthen",
            )
        }
        15 | 16 => {
            if st.upds.is_empty() {
                return None;
            }
            let g = rng.below(st.upds.len() as u64) as usize;
            (DefaultE::Mut(MutRhs::Call { g }), format!("{}()", UPDS[g]), "updater")
        }
        _ => {
            // a default that raises: remove of something that is not there
            let mut p = pick_pos(rng, &yposs, &|p| !p.virt)?.path.clone();
            p.push(Ix::I(77));
            (DefaultE::Mut(MutRhs::Extract { kind: Ext::Remove, z: y, path: p.clone() }), format!("remove {}{}", VARS[y], path_src(&p)), "raising")
        }
    };
    let state = if illformed { "illformed" } else if present { "present" } else { "absent" };
    Some(BGen {
        src: format!("({}{} = {}) {}= {}", VARS[x], path_src(&path), dsrc, op.sym(), rhs.src),
        key: if present && !illformed { "ref:withdefault-present" } else { "ref:withdefault-absent" },
        form: format!("withdefault-{}({},{})", state, op.sym(), dclass),
        kind: pos.kind,
        probe: vec![(x, pos.path.clone())],
        copies_container: false,
        eff: Eff::WithDefault { x, path, dflt, op, rhs: rhs.val },
    })
}

/// one candidate statement of part B (None: try again)
fn gen_b(rng: &mut Rng, st: &Store, ill: bool) -> Option<BGen> {
    let nv = st.vars.len();
    let form = {
        let w = rng.below(100);
        match w {
            0..=15 => "set",
            16..=19 => "dict-insert",
            20..=29 => "assign",
            30..=45 => "opassign",
            46..=52 => "every",
            53..=56 => "every-op",
            57..=62 => "pop",
            63..=69 => "remove",
            70..=74 => "consume",
            75..=80 => "swap",
            81..=85 => "update",
            86..=89 => "closure",
            _ => "call",
        }
    };
    let y = rng.below(nv as u64) as usize;
    // keep the store populated with containers: there is nothing to alias or mutate in ints
    let ncont = st.vars.iter().filter(|v| v.is_container()).count();
    let form = if ncont == 0 || (ncont * 2 <= nv && rng.chance(1, 3)) { "assign" } else { form };
    if form != "assign" {
        match rng.below(100) {
            0..=15 => return gen_rhsmut(rng, st, ill),
            16..=26 if any_typed() => return gen_typed(rng, st, ill),
            27..=36 => return gen_withdefault(rng, st, ill),
            37..=50 => return gen_struct(rng, st, ill),
            51..=74 => return gen_assign_order(rng, st, ill),
            75..=78 => return gen_loop_closure(rng, st, ill),
            _ => {}
        }
    }
    match form {
        "assign" => {
            let mut e = gen_expr(rng, st, 3);
            for _ in 0..4 {
                if e.val.is_container() || ncont * 2 > nv {
                    break;
                }
                e = gen_expr(rng, st, 3);
            }
            Some(BGen {
                src: format!("{} = {}", VARS[y], e.src),
                key: "ref:assign",
                form: "assign".into(),
                kind: e.val.kind(),
                probe: vec![],
                copies_container: e.alias,
                eff: Eff::AssignVal { y, val: Ok(e.val) },
            })
        }
        "set" => {
            let x = pick_var(rng, st, &|v| v.is_container());
            let poss = positions(&st.vars[x], rng);
            let pos = pick_pos(rng, &poss, &|p| !p.path.is_empty())?;
            let mut path = pos.path.clone();
            let wrong_val = ill && matches!(pos.pkind, Kind::Str | Kind::Vector | Kind::Bytes) && rng.chance(1, 2);
            if ill && !wrong_val {
                corrupt(rng, &st.vars[x], &mut path, false);
            }
            let e = slot_value(rng, st, pos.pkind, wrong_val);
            Some(BGen {
                src: format!("{}{} = {}", VARS[x], path_src(&path), e.src),
                key: set_key(pos.pkind),
                form: "set".into(),
                kind: pos.pkind,
                probe: vec![(x, parent_of(&path))],
                copies_container: false,
                eff: Eff::Set { x, path, val: e.val, every: false },
            })
        }
        "dict-insert" => {
            let isd = |v: &V| matches!(v, V::Dict(..));
            let x = pick_var(rng, st, &|v| contains_kind(v, &isd));
            let poss = positions(&st.vars[x], rng);
            let pos = pick_pos(rng, &poss, &|p| matches!(p.kind, Kind::Dict | Kind::DictD))?;
            let mut path = pos.path.clone();
            path.push(gen_key(rng));
            if ill {
                // assignment THROUGH a missing key (raises even when the dict has a default)
                path.push(Ix::I(0));
            }
            let e = gen_expr(rng, st, 2);
            Some(BGen {
                src: format!("{}{} = {}", VARS[x], path_src(&path), e.src),
                key: "ref:dict-set",
                form: "dict-insert".into(),
                kind: pos.kind,
                probe: vec![(x, pos.path.clone())],
                copies_container: false,
                eff: Eff::Set { x, path, val: e.val, every: false },
            })
        }
        "opassign" => {
            let op = *rng.pick(&[
                Op::Plus, Op::Plus, Op::Append, Op::Append, Op::Append, Op::Concat, Op::Concat, Op::AddKey, Op::DelKey, Op::Union,
                Op::Dollar, Op::Rev, Op::Sort,
            ]);
            let wants = |k: Kind| -> bool {
                match op {
                    Op::Plus => matches!(k, Kind::Int | Kind::Vector),
                    Op::Append => matches!(k, Kind::List | Kind::Vector | Kind::Bytes),
                    Op::Concat => k == Kind::List,
                    Op::AddKey | Op::DelKey | Op::Union => matches!(k, Kind::Dict | Kind::DictD),
                    Op::Dollar => matches!(k, Kind::Str | Kind::Int),
                    Op::Rev => matches!(k, Kind::List | Kind::Str | Kind::Vector | Kind::Bytes),
                    Op::Sort => matches!(k, Kind::List | Kind::Vector),
                    Op::Len => matches!(k, Kind::List | Kind::Str | Kind::Vector | Kind::Bytes | Kind::Dict | Kind::DictD),
                    Op::Str => k == Kind::Int,
                }
            };
            let x = pick_var(rng, st, &|v| contains_kind(v, &|u| wants(u.kind())));
            let poss = positions(&st.vars[x], rng);
            // a missing key of a dict with default: the default is read, the key is inserted
            let through_default = rng.chance(1, 4);
            let mut path = if through_default {
                match pick_pos(rng, &poss, &|p| p.kind == Kind::DictD) {
                    Some(p) => {
                        let mut q = p.path.clone();
                        q.push(gen_key(rng));
                        q
                    }
                    None => pick_pos(rng, &poss, &|p| wants(p.kind))?.path.clone(),
                }
            } else if ill && rng.chance(1, 2) {
                pick_pos(rng, &poss, &|p| !wants(p.kind))?.path.clone()
            } else {
                pick_pos(rng, &poss, &|p| wants(p.kind))?.path.clone()
            };
            if ill && rng.chance(1, 2) {
                corrupt(rng, &st.vars[x], &mut path, false);
            }
            let lhs_kind = get_path(&st.vars[x], &path).map(|v| v.kind()).unwrap_or(Kind::Null);
            let rhs = match op {
                Op::Plus => lit(V::Int(rng.range(-3, 9))),
                Op::Append => {
                    if matches!(lhs_kind, Kind::Vector | Kind::Bytes) && !rng.chance(1, 5) {
                        lit(V::Int(rng.range(0, 300)))
                    } else if rng.chance(1, 5) {
                        E { src: VARS[x].to_string(), val: st.vars[x].clone(), alias: true }
                    } else {
                        gen_expr(rng, st, 2)
                    }
                }
                Op::Concat => gen_list_expr(rng, st),
                Op::AddKey | Op::DelKey => {
                    let k = gen_key(rng);
                    E { src: k.key_src(), val: ix_key(&k).unwrap().1, alias: false }
                }
                Op::Union => gen_dict_expr(rng, st),
                Op::Dollar => lit(V::Str(gen_str(rng, 0))),
                Op::Rev => E { src: "reverse".into(), val: V::Null, alias: false },
                Op::Sort => E { src: "sort".into(), val: V::Null, alias: false },
                Op::Len => E { src: "len".into(), val: V::Null, alias: false },
                Op::Str => E { src: "str".into(), val: V::Null, alias: false },
            };
            let opname = op_name(op);
            Some(BGen {
                src: format!("{}{} {}= {}", VARS[x], path_src(&path), op.sym(), rhs.src),
                key: "ref:opassign",
                form: format!("opassign({})", opname),
                kind: lhs_kind,
                probe: vec![(x, path.clone())],
                copies_container: false,
                eff: Eff::Op { x, path, op, rhs: rhs.val },
            })
        }
        "every" => {
            if rng.chance(1, 8) && nv >= 2 {
                let a = rng.below(nv as u64) as usize;
                let mut b = rng.below(nv as u64) as usize;
                if b == a {
                    b = (a + 1) % nv;
                }
                let e = gen_expr(rng, st, 2);
                return Some(BGen {
                    src: format!("every {}, {} = {}", VARS[a], VARS[b], e.src),
                    key: "ref:every",
                    form: "every-multi".into(),
                    kind: e.val.kind(),
                    probe: vec![],
                    copies_container: e.alias,
                    eff: Eff::EveryMulti { xs: vec![a, b], val: e.val },
                });
            }
            let isl = |v: &V| matches!(v, V::List(_) | V::Dict(..));
            let x = pick_var(rng, st, &|v| contains_kind(v, &isl));
            let poss = positions(&st.vars[x], rng);
            let pos = if ill {
                pick_pos(rng, &poss, &|p| !matches!(p.kind, Kind::List) && !p.virt)?
            } else {
                pick_pos(rng, &poss, &|p| matches!(p.kind, Kind::List | Kind::Dict | Kind::DictD))?
            };
            let mut path = pos.path.clone();
            let container = get_path(&st.vars[x], &path).ok()?;
            match &container {
                V::Dict(..) if !ill => path.push(Ix::S(None, None)),
                _ => path.push(gen_slice(rng, pos.len)),
            }
            // optional trailing index that is valid for every element of the slice
            if let (V::List(xs), Some(Ix::S(lo, hi))) = (&container, path.last().cloned()) {
                let (a, b) = slice_bounds(xs.len(), lo, hi);
                if b > a && rng.chance(1, 3) && xs[a..b].iter().all(|e| matches!(e, V::List(l) if !l.is_empty())) {
                    path.push(Ix::I(if rng.chance(1, 2) { 0 } else { -1 }));
                }
            }
            let e = gen_expr(rng, st, 2);
            Some(BGen {
                src: format!("every {}{} = {}", VARS[x], path_src(&path), e.src),
                key: "ref:every",
                form: "every".into(),
                kind: pos.kind,
                probe: vec![(x, path.clone())],
                copies_container: false,
                eff: Eff::Set { x, path, val: e.val, every: true },
            })
        }
        "every-op" => {
            let isl = |v: &V| matches!(v, V::List(_));
            let x = pick_var(rng, st, &|v| contains_kind(v, &isl));
            let poss = positions(&st.vars[x], rng);
            let pos = if ill { pick_pos(rng, &poss, &|p| !p.virt)? } else { pick_pos(rng, &poss, &|p| p.kind == Kind::List)? };
            let mut path = pos.path.clone();
            let container = get_path(&st.vars[x], &path).ok()?;
            if !rng.chance(1, 6) {
                path.push(gen_slice(rng, pos.len));
            }
            let all_lists = matches!(&container, V::List(xs) if xs.iter().all(|e| matches!(e, V::List(_))));
            let (op, rhs) = if all_lists || rng.chance(1, 5) {
                (Op::Append, gen_expr(rng, st, 1))
            } else {
                (Op::Plus, lit(V::Int(rng.range(1, 5))))
            };
            Some(BGen {
                src: format!("every {}{} {}= {}", VARS[x], path_src(&path), op.sym(), rhs.src),
                key: "ref:every-op",
                form: format!("every-op({})", op.sym()),
                kind: pos.kind,
                probe: vec![(x, path.clone())],
                copies_container: false,
                eff: Eff::EveryOp { x, path, op, rhs: rhs.val },
            })
        }
        "pop" | "consume" => {
            let isl = |v: &V| matches!(v, V::List(l) if !l.is_empty());
            let x = pick_var(rng, st, &|v| contains_kind(v, &isl));
            let poss = positions(&st.vars[x], rng);
            let pos = if form == "pop" {
                if ill {
                    pick_pos(rng, &poss, &|p| !(p.kind == Kind::List && p.len > 0))?
                } else {
                    pick_pos(rng, &poss, &|p| p.kind == Kind::List && p.len > 0)?
                }
            } else if ill {
                pick_pos(rng, &poss, &|_| true)?
            } else {
                pick_pos(rng, &poss, &|p| !p.virt && (!p.path.is_empty() || p.kind == Kind::Int))?
            };
            let mut path = pos.path.clone();
            if ill && (form == "consume" || rng.chance(1, 3)) {
                if rng.chance(1, 3) && pos.kind == Kind::DictD {
                    path.push(gen_key(rng)); // pop through a missing key of a dict with default
                } else {
                    corrupt(rng, &st.vars[x], &mut path, false);
                }
            }
            let (kind, kw, probe) = if form == "pop" {
                (Ext::Pop, "pop", vec![(x, path.clone())])
            } else {
                (Ext::Consume, "consume", if path.is_empty() { vec![] } else { vec![(x, parent_of(&path))] })
            };
            Some(BGen {
                src: format!("{} = {} {}{}", VARS[y], kw, VARS[x], path_src(&path)),
                key: if form == "pop" { "ref:pop" } else { "ref:consume" },
                form: form.into(),
                kind: if form == "pop" { pos.kind } else { pos.pkind },
                probe,
                copies_container: false,
                eff: Eff::Extract { kind, y, x, path },
            })
        }
        "remove" => {
            let isl = |v: &V| matches!(v, V::List(l) if !l.is_empty()) || matches!(v, V::Dict(m, _) if !m.is_empty());
            let x = pick_var(rng, st, &|v| contains_kind(v, &isl));
            let poss = positions(&st.vars[x], rng);
            let pos = pick_pos(rng, &poss, &|p| matches!(p.kind, Kind::List | Kind::Dict | Kind::DictD) && (ill || p.len > 0))
                .or_else(|| pick_pos(rng, &poss, &|p| !p.virt))?;
            let container = get_path(&st.vars[x], &pos.path).ok()?;
            let mut path = pos.path.clone();
            let mut slice = false;
            match &container {
                V::List(xs) => {
                    let l = xs.len() as i64;
                    if rng.chance(1, 4) {
                        slice = true;
                        path.push(gen_slice(rng, xs.len()));
                    } else if ill || l == 0 {
                        path.push(Ix::I(if rng.chance(1, 2) { l + rng.range(0, 2) } else { -l - 1 - rng.range(0, 2) }));
                    } else {
                        let j = rng.below(l as u64) as i64;
                        path.push(Ix::I(if rng.chance(1, 3) { j - l } else { j }));
                    }
                }
                V::Dict(m, _) => {
                    if ill || m.is_empty() {
                        path.push(if rng.chance(1, 4) { Ix::S(Some(0), Some(1)) } else { Ix::K(b"nokey".to_vec()) });
                    } else {
                        let ks: Vec<&V> = m.values().map(|(k, _)| k).collect();
                        path.push(key_ix(ks[rng.below(ks.len() as u64) as usize])?);
                    }
                }
                _ => {
                    if rng.chance(1, 3) {
                        // `remove qx`: flat identifier
                    } else {
                        path.push(Ix::I(0));
                    }
                }
            }
            Some(BGen {
                src: format!("{} = remove {}{}", VARS[y], VARS[x], path_src(&path)),
                key: "ref:remove",
                form: if slice { "remove-slice".into() } else { "remove".into() },
                kind: pos.kind,
                probe: vec![(x, pos.path.clone())],
                copies_container: false,
                eff: Eff::Extract { kind: Ext::Remove, y, x, path },
            })
        }
        "swap" => {
            let x = pick_var(rng, st, &|v| v.is_container());
            let x2 = if rng.chance(1, 5) { x } else { pick_var(rng, st, &|v| v.is_container()) };
            let p1s = positions(&st.vars[x], rng);
            let p2s = positions(&st.vars[x2], rng);
            let a = pick_pos(rng, &p1s, &|p| !p.virt || rng_coin(p))?;
            // swapping elements of two strings / vectors works too; mixed kinds mostly raise
            let b = pick_pos(rng, &p2s, &|p| p.virt == a.virt)?;
            let mut pa = a.path.clone();
            let mut pb = b.path.clone();
            if ill {
                if rng.chance(1, 2) {
                    corrupt(rng, &st.vars[x], &mut pa, false);
                } else {
                    corrupt(rng, &st.vars[x2], &mut pb, false);
                }
            }
            let mut probe = vec![];
            if !pa.is_empty() {
                probe.push((x, parent_of(&pa)));
            }
            if !pb.is_empty() {
                probe.push((x2, parent_of(&pb)));
            }
            Some(BGen {
                src: format!("swap {}{}, {}{}", VARS[x], path_src(&pa), VARS[x2], path_src(&pb)),
                key: "ref:swap",
                form: "swap".into(),
                kind: a.pkind,
                probe,
                copies_container: false,
                eff: Eff::Swap { x, px: pa, y: x2, py: pb },
            })
        }
        "update" => {
            let x = pick_var(rng, st, &|v| v.is_container());
            let poss = positions(&st.vars[x], rng);
            let pos = pick_pos(rng, &poss, &|p| !p.virt && matches!(p.kind, Kind::List | Kind::Dict | Kind::DictD | Kind::Inst | Kind::Str | Kind::Vector | Kind::Bytes))?;
            let base = get_path(&st.vars[x], &pos.path).ok()?;
            let mut cur = base.clone();
            let mut result: R<()> = Ok(());
            let mut parts = vec![];
            for _ in 0..rng.range(1, 2) {
                let subs = positions(&cur, rng);
                let k: Ix = match &cur {
                    V::Dict(..) if rng.chance(1, 2) => gen_key(rng),
                    _ => match pick_pos(rng, &subs, &|p| p.path.len() == 1) {
                        Some(p) => p.path[0].clone(),
                        None => Ix::I(0),
                    },
                };
                let k = if ill && rng.chance(1, 2) {
                    match rng.below(3) {
                        0 => Ix::I(rng.range(9, 12)),
                        1 => Ix::F(1, 0),
                        _ => Ix::I(-(rng.range(9, 12))),
                    }
                } else {
                    k
                };
                let wrong = ill && rng.chance(1, 3) && matches!(cur.kind(), Kind::Str | Kind::Vector | Kind::Bytes);
                let e = slot_value(rng, st, cur.kind(), wrong);
                parts.push(format!("{} = {}", k.key_src(), e.src));
                if result.is_ok() {
                    result = set_index(&mut cur, &[k], Some(e.val), false);
                }
            }
            Some(BGen {
                src: format!("{} = {}{}{{{}}}", VARS[y], VARS[x], path_src(&pos.path), parts.join(", ")),
                key: "ref:update",
                form: "update".into(),
                kind: pos.kind,
                probe: vec![],
                copies_container: base.is_container(),
                eff: Eff::AssignVal { y, val: result.map(|_| cur) },
            })
        }
        "closure" => {
            if st.clos.is_empty() {
                return None;
            }
            let c = rng.below(st.clos.len() as u64) as usize;
            let x = pick_var(rng, st, &|v| v.is_container());
            if rng.chance(1, 2) {
                Some(BGen {
                    src: format!("{} = \\ -> {}", CLOS[c], VARS[x]),
                    key: "ref:closure",
                    form: "closure-var".into(),
                    kind: st.vars[x].kind(),
                    probe: vec![],
                    copies_container: st.vars[x].is_container(),
                    eff: Eff::SetClo { c, clo: Clo::Var(x) },
                })
            } else {
                let poss = positions(&st.vars[x], rng);
                let pos = pick_pos(rng, &poss, &|p| !p.virt)?;
                let val = get_path(&st.vars[x], &pos.path).ok()?;
                Some(BGen {
                    src: format!("{} = (\\c -> \\ -> c)({}{})", CLOS[c], VARS[x], path_src(&pos.path)),
                    key: "ref:closure",
                    form: "closure-val".into(),
                    kind: val.kind(),
                    probe: vec![],
                    copies_container: val.is_container(),
                    eff: Eff::SetClo { c, clo: Clo::Snap(val) },
                })
            }
        }
        _ => {
            // function call on (part of) a variable: the variable must not change
            let x = pick_var(rng, st, &|v| v.is_container());
            let poss = positions(&st.vars[x], rng);
            let pos = pick_pos(rng, &poss, &|p| !p.virt && matches!(p.kind, Kind::List | Kind::Dict | Kind::DictD | Kind::Str | Kind::Vector | Kind::Bytes | Kind::Inst))
                .or_else(|| pick_pos(rng, &poss, &|p| !p.virt))?;
            let mut path = pos.path.clone();
            if ill {
                corrupt(rng, &st.vars[x], &mut path, false);
            }
            let arg = format!("{}{}", VARS[x], path_src(&path));
            let argv = get_path(&st.vars[x], &path);
            let fname = *rng.pick(&[
                "append", "append", "concat", "reverse", "sort", "union", "addkey", "delkey", "insert", "insert2", "map", "filter", "prepend", "user-set",
                "user-append", "user-pop",
            ]);
            // Some(result) when the reference semantics knows the function, None = adopt the real result
            let via = |op: Op, rhs: &V| -> Option<R<V>> {
                match &argv {
                    Err(()) => Some(Err(())),
                    Ok(a) => binop(op, a.clone(), rhs),
                }
            };
            let (src, val): (String, Option<R<V>>) = match fname {
                "append" => {
                    let e = gen_expr(rng, st, 1);
                    (format!("{} append {}", arg, e.src), via(Op::Append, &e.val))
                }
                "concat" => {
                    let e = gen_list_expr(rng, st);
                    (format!("{} ++ {}", arg, e.src), via(Op::Concat, &e.val))
                }
                "reverse" => (format!("reverse({})", arg), via(Op::Rev, &V::Null)),
                "sort" => (format!("sort({})", arg), via(Op::Sort, &V::Null)),
                "union" => {
                    let e = gen_dict_expr(rng, st);
                    (format!("{} || {}", arg, e.src), via(Op::Union, &e.val))
                }
                "addkey" | "delkey" => {
                    let k = gen_key(rng);
                    let op = if fname == "addkey" { Op::AddKey } else { Op::DelKey };
                    (format!("{} {} {}", arg, op.sym(), k.key_src()), via(op, &ix_key(&k).unwrap().1))
                }
                "insert" | "insert2" => {
                    let k = gen_key(rng);
                    let e = gen_expr(rng, st, 1);
                    let res = match &argv {
                        Err(()) => Some(Err(())),
                        Ok(V::Dict(m, d)) => {
                            let mut m = m.clone();
                            let (kt, kv) = ix_key(&k).unwrap();
                            m.insert(kt, (kv, e.val.clone()));
                            Some(Ok(V::Dict(m, d.clone())))
                        }
                        Ok(_) => None,
                    };
                    (format!("{} {} [{}, {}]", arg, if fname == "insert" { "insert" } else { "|.." }, k.key_src(), e.src), res)
                }
                "map" => (format!("{} map (\\e -> [e])", arg), if argv.is_err() { Some(Err(())) } else { None }),
                "filter" => (format!("{} filter (\\e -> e != 1)", arg), if argv.is_err() { Some(Err(())) } else { None }),
                "prepend" => {
                    let e = gen_expr(rng, st, 1);
                    (format!("{} prepend {}", e.src, arg), if argv.is_err() { Some(Err(())) } else { None })
                }
                "user-set" => {
                    let res = argv.clone().and_then(|mut a| set_index(&mut a, &[Ix::I(0)], Some(V::Int(99)), false).map(|_| a));
                    (format!("(\\a -> (a[0] = 99; a))({})", arg), Some(res))
                }
                "user-append" => (format!("(\\a -> (a append= 5; a))({})", arg), via(Op::Append, &V::Int(5))),
                _ => {
                    let res = argv.clone().and_then(|mut a| pop_leaf(&mut a).map(|_| a));
                    (format!("(\\a -> (pop a; a))({})", arg), Some(res))
                }
            };
            let eff = match val {
                Some(v) => Eff::AssignVal { y, val: v },
                None => Eff::Adopt { y },
            };
            Some(BGen {
                src: format!("{} = {}", VARS[y], src),
                key: "ref:call",
                form: format!("call({})", fname),
                kind: argv.as_ref().map(|v| v.kind()).unwrap_or(Kind::Null),
                probe: vec![],
                copies_container: argv.map(|v| v.is_container()).unwrap_or(false),
                eff,
            })
        }
    }
}
fn rng_coin(p: &Pos) -> bool {
    // deterministic thinning of virtual (string / vector element) positions
    p.path.len() % 2 == 1
}

fn b_input(srcs: &[String], st_before_names: (usize, usize), expected: &str) -> String {
    format!("{}\nrequest: expect {} {} {}", srcs.join("; "), st_before_names.0, st_before_names.1, expected)
}

/// run one statement of part B in the real interpreter and compare; returns false on disagreement
#[allow(clippy::too_many_arguments)]
fn b_step(loc: &mut Local, interp: &Interp, store: &mut Store, srcs: &mut Vec<String>, hash: &mut u64, g: BGen, new_store: Store, ok: bool) -> bool {
    let shared = g.probe.iter().any(|(x, p)| probe_shared(interp, VARS[*x], p));
    let out = interp.eval(&g.src);
    *store = new_store;
    if g.copies_container {
        // the variable whose container was just copied / passed is a good target for the next mutation
        let rhs = g.src.splitn(2, '=').nth(1).unwrap_or("");
        let mentioned: Vec<usize> = (0..store.vars.len()).filter(|i| rhs.contains(VARS[*i])).collect();
        if !mentioned.is_empty() {
            store.hot = Some(mentioned[(*hash % mentioned.len() as u64) as usize]);
        }
    }
    let mut ok = ok;
    if let Eff::Adopt { y } = &g.eff {
        // the reference semantics does not know this function: take the real result for the target
        // variable (and whether the call raised); every OTHER variable must be unchanged
        loc.adopted += 1;
        ok = matches!(out, Outcome::Ok(_));
        if ok {
            match interp.eval(VARS[*y]) {
                Outcome::Ok(t) => store.vars[*y] = parse_canon(&t),
                o => store.vars[*y] = V::Opaque(o.class()),
            }
        }
    }
    let names = store.names();
    let dump = dump_real(interp, &names);
    let rust = rust_text(&out, &dump);
    let expected = store.dump(ok);
    srcs.push(g.src.clone());
    *hash = fnv(*hash, &g.src);
    let raised = rust.starts_with('!') || rust == "panic";
    let nontrivial = shared || raised || g.copies_container;
    loc.cases.push((*hash, nontrivial));
    loc.ref_cases += 1;
    if shared {
        loc.shared_cases += 1;
    }
    if raised {
        loc.raised_cases += 1;
    }
    let class = if raised {
        "fail"
    } else if shared {
        "shared"
    } else if g.copies_container {
        "copy"
    } else {
        "plain"
    };
    loc.arm(&format!("ref:{}:{}", g.form, class));
    loc.arm(&format!("kind:{}:{}", g.kind.name(), class));
    loc.outcome(outcome_name(&out));
    let nv = store.vars.len();
    let nc = store.clos.len();
    let agree = loc.judge(g.key, || b_input(srcs, (nv, nc), &expected), &rust, &expected, &expected);
    // a value the reference semantics cannot index into (function, stream, float): reset it on both sides
    for y in 0..store.vars.len() {
        if store.vars[y].has_opaque() {
            let s = format!("{} = null", VARS[y]);
            interp.eval(&s);
            srcs.push(s);
            store.vars[y] = V::Null;
        }
    }
    agree
}

fn run_b_shard(mut rng: Rng, n_hist: usize, max_len: usize) -> Local {
    let mut loc = Local::default();
    for _ in 0..n_hist {
        loc.histories += 1;
        let nvars = rng.range(2, 5) as usize;
        let nclos = rng.range(1, 3) as usize;
        let len = rng.range((max_len / 2) as i64, max_len as i64) as usize;
        let interp = Interp::new();
        interp.eval(STRUCT_DECL);
        let mut srcs = vec![STRUCT_DECL.to_string()];
        let mut hash = fnv(0xcbf29ce484222325, STRUCT_DECL);
        let mut store = Store { vars: vec![], clos: vec![], upds: vec![], hot: None };
        let mut alive = true;
        types_clear();
        // declarations (aliased on purpose: later declarations mention earlier variables)
        for i in 0..nvars {
            let mut e = gen_expr(&mut rng, &store, 3);
            for _ in 0..2 {
                if e.val.is_container() {
                    break;
                }
                e = gen_expr(&mut rng, &store, 3);
            }
            // about a third of the variables are declared with a type annotation
            let ty = if rng.chance(35, 100) { Ty::of(&e.val) } else { Ty::Any };
            types_push(ty);
            let g = BGen {
                src: if ty == Ty::Any { format!("{} := {}", VARS[i], e.src) } else { format!("{}: {} = {}", VARS[i], ty.name(), e.src) },
                key: "ref:declare",
                form: if ty == Ty::Any { "declare".into() } else { "declare-typed".into() },
                kind: e.val.kind(),
                probe: vec![],
                copies_container: e.alias,
                eff: Eff::Declare(e.val),
            };
            let mut ns = store.clone();
            apply(&g.eff, &mut ns);
            if !b_step(&mut loc, &interp, &mut store, &mut srcs, &mut hash, g, ns, true) {
                alive = false;
                break;
            }
        }
        for c in 0..nclos {
            if !alive {
                break;
            }
            let x = rng.below(nvars as u64) as usize;
            let g = if rng.chance(1, 2) {
                BGen {
                    src: format!("{} := \\ -> {}", CLOS[c], VARS[x]),
                    key: "ref:closure",
                    form: "closure-var".into(),
                    kind: store.vars[x].kind(),
                    probe: vec![],
                    copies_container: store.vars[x].is_container(),
                    eff: Eff::DeclClo(Clo::Var(x)),
                }
            } else {
                BGen {
                    src: format!("{} := (\\c -> \\ -> c)({})", CLOS[c], VARS[x]),
                    key: "ref:closure",
                    form: "closure-val".into(),
                    kind: store.vars[x].kind(),
                    probe: vec![],
                    copies_container: store.vars[x].is_container(),
                    eff: Eff::DeclClo(Clo::Snap(store.vars[x].clone())),
                }
            };
            let mut ns = store.clone();
            apply(&g.eff, &mut ns);
            if !b_step(&mut loc, &interp, &mut store, &mut srcs, &mut hash, g, ns, true) {
                alive = false;
            }
        }
        for g in 0..rng.range(1, 2) as usize {
            if !alive {
                break;
            }
            let x = pick_var(&mut rng, &store, &|v| matches!(v, V::Int(_) | V::List(_) | V::Dict(..)));
            let (u, body) = gen_upd(&mut rng, &store, x);
            let gen = BGen {
                src: format!("{} := {}", UPDS[g], body),
                key: "ref:closure",
                form: "closure-upd".into(),
                kind: store.vars[x].kind(),
                probe: vec![],
                copies_container: false,
                eff: Eff::DeclUpd(u),
            };
            let mut ns = store.clone();
            apply(&gen.eff, &mut ns);
            if !b_step(&mut loc, &interp, &mut store, &mut srcs, &mut hash, gen, ns, true) {
                alive = false;
            }
        }
        let mut i = 0;
        while alive && i < len {
            i += 1;
            let ill = rng.chance(15, 100);
            let mut chosen = None;
            for _ in 0..12 {
                let Some(g) = gen_b(&mut rng, &store, ill) else { continue };
                let mut ns = store.clone();
                match apply(&g.eff, &mut ns) {
                    Some(ok) if !ns.too_big() => {
                        chosen = Some((g, ns, ok));
                        break;
                    }
                    _ => continue,
                }
            }
            let Some((g, ns, ok)) = chosen else { continue };
            if !matches!(g.eff, Eff::Adopt { .. }) {
                // the two WRONG variants of the reference semantics (seeded changes a4 / b4): how many
                // generated statements could tell them from the right one
                if any_typed() {
                    loc.typed_cases += 1;
                    set_wrong(1);
                    let mut alt = store.clone();
                    let alt_ok = apply(&g.eff, &mut alt);
                    set_wrong(0);
                    if alt_ok != Some(ok) || alt.vars != ns.vars {
                        loc.a4_sensitive += 1;
                    }
                }
                if matches!(g.eff, Eff::AssignOrder { .. }) {
                    loc.order_cases += 1;
                    set_wrong(5);
                    let mut alt = store.clone();
                    let alt_ok = apply(&g.eff, &mut alt);
                    set_wrong(0);
                    if alt_ok != Some(ok) || alt.vars != ns.vars {
                        loc.a6_sensitive += 1;
                    }
                }
                if g.key == "ref:loop-closure" {
                    loc.loop_cases += 1;
                    if g.form.contains(",sens") {
                        loc.b6_sensitive += 1;
                    }
                }
                if g.key.starts_with("ref:struct-") {
                    loc.struct_cases += 1;
                    for (w, is_a) in [(3u8, true), (4u8, false)] {
                        set_wrong(w);
                        let mut alt = store.clone();
                        let alt_ok = apply(&g.eff, &mut alt);
                        set_wrong(0);
                        if alt_ok != Some(ok) || alt.vars != ns.vars {
                            if is_a {
                                loc.a5_sensitive += 1;
                            } else {
                                loc.b5_sensitive += 1;
                            }
                        }
                    }
                }
                if matches!(g.eff, Eff::WithDefault { .. }) {
                    loc.withdefault_cases += 1;
                    set_wrong(2);
                    let mut alt = store.clone();
                    let alt_ok = apply(&g.eff, &mut alt);
                    set_wrong(0);
                    if alt_ok != Some(ok) || alt.vars != ns.vars {
                        loc.b4_sensitive += 1;
                    }
                }
            }
            if let Eff::OpMut { x, path, op, rhs } = &g.eff {
                let mut alt = store.clone();
                let alt_ok = st_op_ordered(&mut alt, store_vars, *x, path, *op, &mut |s: &mut Store| eval_mrhs(s, rhs), true);
                loc.rhsmut_cases += 1;
                if alt_ok != Some(ok) || alt.vars != ns.vars {
                    loc.order_sensitive += 1;
                }
            }
            if !b_step(&mut loc, &interp, &mut store, &mut srcs, &mut hash, g, ns, ok) {
                alive = false;
            }
        }
        if loc.samples.len() < 2 {
            loc.samples.push(srcs.join("; "));
        }
    }
    loc
}

/// F13: slice assignment without `every` must raise an ordinary error and leave the variable alone
fn fixed_slice_assign(loc: &mut Local) {
    let interp = Interp::new();
    interp.eval("qa := [1,2,3]");
    let src = "qa[0:2] = 5";
    let out = interp.eval(src);
    let dump = dump_real(&interp, &["qa".to_string()]);
    let rust = rust_text(&out, &dump);
    let expected = "![1,2,3]";
    loc.cases.push((fnv(1, src), true));
    loc.ref_cases += 1;
    loc.arm("ref:slice-assign:fail");
    loc.arm("kind:list:fail");
    loc.outcome(outcome_name(&out));
    loc.judge("ref:slice-assign", || format!("qa := [1,2,3]; {}\nrequest: expect 1 0 {}", src, expected), &rust, expected, expected);
}

// ---------------------------------------------------------------------------------------------
// replay
fn split_top(program: &str) -> Vec<String> {
    let mut out = vec![];
    let mut cur = String::new();
    let mut depth = 0i32;
    let mut in_str = false;
    let mut esc = false;
    for ch in program.chars() {
        if in_str {
            cur.push(ch);
            if esc {
                esc = false;
            } else if ch == '\\' {
                esc = true;
            } else if ch == '"' {
                in_str = false;
            }
            continue;
        }
        match ch {
            '"' => {
                in_str = true;
                cur.push(ch)
            }
            '(' | '[' | '{' => {
                depth += 1;
                cur.push(ch)
            }
            ')' | ']' | '}' => {
                depth -= 1;
                cur.push(ch)
            }
            ';' if depth == 0 => {
                out.push(cur.trim().to_string());
                cur.clear();
            }
            _ => cur.push(ch),
        }
    }
    if !cur.trim().is_empty() {
        out.push(cur.trim().to_string());
    }
    out
}
fn replay(args: &Args, path: &str) {
    let text = std::fs::read_to_string(path).expect("replay file");
    let mut input = None;
    let mut request = None;
    for line in text.lines() {
        if let Some(r) = line.strip_prefix("input: ") {
            input = Some(r.to_string());
        }
        if let Some(r) = line.strip_prefix("request: ") {
            request = Some(r.to_string());
        }
    }
    let input = input.expect("no input: line");
    let stmts = split_top(&input);
    let interp = Interp::new();
    let mut last = Outcome::Ok("null".into());
    for s in &stmts {
        last = interp.eval(s);
    }
    let req: Vec<String> = request.clone().unwrap_or_default().split(' ').map(|s| s.to_string()).collect();
    let (nv, nc) = match req.first().map(|s| s.as_str()) {
        Some("run") => (req.get(1).and_then(|s| s.parse().ok()).unwrap_or(0usize), 0usize),
        Some("expect") => (
            req.get(1).and_then(|s| s.parse().ok()).unwrap_or(0usize),
            req.get(2).and_then(|s| s.parse().ok()).unwrap_or(0usize),
        ),
        _ => (0, 0),
    };
    let mut names: Vec<String> = (0..nv.min(VARS.len())).map(|i| VARS[i].to_string()).collect();
    for c in 0..nc.min(CLOS.len()) {
        names.push(format!("{}()", CLOS[c]));
    }
    let dump = dump_real(&interp, &names);
    println!("rust: {}   [last statement: {}]", rust_text(&last, &dump), last.detail());
    match req.first().map(|s| s.as_str()) {
        Some("run") => {
            let r = run_driver(&args.driver, &[request.unwrap()]);
            let parts: Vec<&str> = r[0].split('\t').collect();
            let lastd = |s: &str| s.rsplit(';').next().unwrap_or("").trim_start_matches("ok ").to_string();
            if parts.len() >= 2 {
                println!("impl: {}", lastd(parts[0]));
                println!("spec: {}", lastd(parts[1]));
            }
            println!("model (impl, spec, cost ledger), all statements: {}", r[0]);
        }
        Some("expect") => {
            let e = req[3..].join(" ");
            println!("impl: {}   (reference-only case: pure tree store of c01.rs)", e);
            println!("spec: {}", e);
        }
        _ => {}
    }
}

// ---------------------------------------------------------------------------------------------
enum Work {
    A(Rng, usize, usize),
    B(Rng, usize, usize),
}
fn main() {
    let args = parse_args();
    install_quiet_panic_hook();
    if let Some(path) = &args.replay {
        replay(&args, path);
        return;
    }
    let mut rep = Report::new("C01", &args);
    rep.rule = "PART A: random histories (quick 400 x <=25, thorough 20000 x <=60 statements) over 2..5 variables in the \
                vocabulary of the Lean model (x = rhs, x[path] = rhs, x[path] append= rhs, y = pop x[path], y = remove x[path][i], \
                y = consume x[path], swap x[px], y[py], y = x{i = atom}, y = x append atom, x[p] append= pop y[q]; rhs = atom | [atoms] | [atom] ** n | {int key: atom, ...}; every path index is a list index or, on a dict, an integer key -3..12); the first third of a history builds \
                nested lists that share payloads (qb = [qa, qa], [qa] ** 3, qa[1] = qb, qa append= qa), the rest mutates one \
                holder through every form at depth 0..4 with paths that are valid in a shadow store, ~15 % deliberately \
                ill-formed (index out of range, indexing an int/null, pop of empty/non-list, append to non-list, remove out of \
                range); after EVERY statement all variables are dumped and compared with the Impl (Rc heap) and Spec (pure \
                store) dumps. PART B (reference-only): the same scheme over dicts with/without default, strings, vectors, \
                bytes, struct instances, op-assignments (+ append ++ |. -. || $ .reverse .sort), every / every-op, \
                remove of index/key/slice, x{k = v}, closures capturing a variable or a value, function calls, and op-/index-assignments \
                whose right-hand side mutates the same or another variable (nested assignment, pop/consume/remove, updater closure), \
                whole-variable writes of every form into type-annotated variables (mostly of a rejected kind), and the with-default \
                form (d[k] = dflt) op= v with pure / side-effecting / raising defaults on present and absent keys, and every statement \
                form through struct field accessors of 8 struct declarations (three share the name Node, two the name Pair), ~35 % of \
                them accessors of ANOTHER struct, against a \
                pure tree store in c01.rs. A case (= one statement of one history) is non-trivial when, in the real \
                interpreter at the time of the statement, a payload on the mutated index path has strong count > 1 (it is \
                shared with another holder), or the statement raises, or (non-mutating forms: assign, update, closure, call) \
                it copies/passes a container so that its payload becomes shared; distinct = distinct (history prefix, \
                statement)"
        .into();
    let thorough = args.tier == "thorough";
    let (a_hist, a_len, b_hist, b_len) = if thorough { (20000usize, 60usize, 8000usize, 60usize) } else { (400, 25, 300, 30) };
    let (a_shard, b_shard) = if thorough { (100usize, 100usize) } else { (50, 50) };
    let mut master = Rng::new(args.seed);
    let mut work: Vec<Work> = vec![];
    let mut left = a_hist;
    while left > 0 {
        let n = left.min(a_shard);
        work.push(Work::A(master.fork(), n, a_len));
        left -= n;
    }
    let mut left = b_hist;
    while left > 0 {
        let n = left.min(b_shard);
        work.push(Work::B(master.fork(), n, b_len));
        left -= n;
    }
    let nwork = work.len();
    let threads = std::thread::available_parallelism().map(|n| n.get()).unwrap_or(1).min(16).min(nwork).max(1);
    let queue = std::sync::Mutex::new(work.into_iter().enumerate().collect::<Vec<_>>());
    let results: std::sync::Mutex<Vec<(usize, Local)>> = std::sync::Mutex::new(vec![]);
    let driver = args.driver.clone();
    std::thread::scope(|s| {
        for _ in 0..threads {
            s.spawn(|| loop {
                let item = queue.lock().unwrap().pop();
                let Some((idx, w)) = item else { break };
                let loc = match w {
                    Work::A(rng, n, len) => run_a_shard(rng, n, len, &driver),
                    Work::B(rng, n, len) => run_b_shard(rng, n, len),
                };
                results.lock().unwrap().push((idx, loc));
            });
        }
    });
    let mut results = results.into_inner().unwrap();
    results.sort_by_key(|(i, _)| *i);
    let mut fixed = Local::default();
    fixed_slice_assign(&mut fixed);
    results.push((nwork, fixed));

    let (mut a_cases, mut ref_cases, mut adopted, mut selfcheck, mut shared, mut raised, mut hist) = (0u64, 0u64, 0u64, 0u64, 0u64, 0u64, 0u64);
    let (mut order_sensitive, mut rhsmut_cases) = (0u64, 0u64);
    let (mut typed_cases, mut a4_sensitive, mut withdefault_cases, mut b4_sensitive) = (0u64, 0u64, 0u64, 0u64);
    let (mut struct_cases, mut a5_sensitive, mut b5_sensitive) = (0u64, 0u64, 0u64);
    let (mut order_cases, mut a6_sensitive, mut loop_cases, mut b6_sensitive) = (0u64, 0u64, 0u64, 0u64);
    let mut samples = vec![];
    for (_, loc) in results {
        for (h, nt) in &loc.cases {
            rep.case(&format!("{:016x}", h), *nt);
        }
        for (k, n) in &loc.arms {
            *rep.arms.entry(k.clone()).or_insert(0) += n;
        }
        for (k, n) in &loc.outcomes {
            *rep.outcomes.entry(k.clone()).or_insert(0) += n;
        }
        for d in &loc.dis {
            rep.judge(&d[0], &d[1], &d[2], &d[3], &d[4]);
        }
        for n in &loc.notes {
            if rep.notes.len() < 12 {
                rep.notes.push(n.clone());
            }
        }
        for smp in &loc.samples {
            let is_b = smp.starts_with("struct ");
            let have = samples.iter().filter(|x: &&String| x.starts_with("struct ") == is_b).count();
            if have < 6 {
                samples.push(smp.clone());
            }
        }
        a_cases += loc.a_cases;
        ref_cases += loc.ref_cases;
        adopted += loc.adopted;
        selfcheck += loc.selfcheck_mismatch;
        shared += loc.shared_cases;
        raised += loc.raised_cases;
        hist += loc.histories;
        order_sensitive += loc.order_sensitive;
        typed_cases += loc.typed_cases;
        a4_sensitive += loc.a4_sensitive;
        withdefault_cases += loc.withdefault_cases;
        b4_sensitive += loc.b4_sensitive;
        struct_cases += loc.struct_cases;
        a5_sensitive += loc.a5_sensitive;
        b5_sensitive += loc.b5_sensitive;
        order_cases += loc.order_cases;
        a6_sensitive += loc.a6_sensitive;
        loop_cases += loc.loop_cases;
        b6_sensitive += loc.b6_sensitive;
        rhsmut_cases += loc.rhsmut_cases;
    }
    samples.truncate(12);
    rep.samples = samples;
    rep.notes.push(format!("three-way cases (real vs Impl vs Spec): {}", a_cases));
    rep.notes.push(format!("reference-only cases: {}", ref_cases));
    rep.notes.push(format!("reference-only calls whose result was adopted from the real interpreter: {}", adopted));
    rep.notes.push(format!("histories: {}; statements on a shared payload: {}; statements that raised: {}", hist, shared, raised));
    rep.notes.push(format!("part-A statements where the c01.rs reference store differs from the Lean Spec (self-check, must be 0): {}", selfcheck));
    rep.notes.push(format!(
        "op-assignments whose right-hand side mutates a variable (apo + ref:opassign-rhsmut): {}; of these {} give a different result when the old left-hand value is read AFTER the right-hand side (order-sensitive)",
        rhsmut_cases, order_sensitive
    ));
    rep.notes.push(format!(
        "statements in histories with type-annotated variables: {}; of these {} give a different result when a rejected whole-variable write still happens (sensitive to seeded change a4)",
        typed_cases, a4_sensitive
    ));
    rep.notes.push(format!(
        "with-default op-assignments `(d[k] = dflt) op= v`: {}; of these {} give a different result when the default is evaluated although the key is present (sensitive to seeded change b4)",
        withdefault_cases, b4_sensitive
    ));
    rep.notes.push(format!(
        "statements through struct field accessors (ref:struct-*): {}; of these {} give a different result when writes accept a foreign accessor whose index is in range (sensitive to seeded change a5) and {} when pop/remove/consume compare structs by name (sensitive to seeded change b5)",
        struct_cases, a5_sensitive, b5_sensitive
    ));
    rep.notes.push(format!(
        "plain assignments with state-reading / state-mutating target index expressions and right-hand sides (ref:assign-order): {}; of these {} give a different result when the right-hand side is evaluated before the target (sensitive to seeded change a6)",
        order_cases, a6_sensitive
    ));
    rep.notes.push(format!(
        "closures created in for-loop bodies (ref:loop-closure): {}; of these {} iterate >= 2 different elements with `<-` and would give a different result if all iterations shared one scope (sensitive to seeded change b6)",
        loop_cases, b6_sensitive
    ));
    rep.notes.push(format!("threads: {}", threads));
    rep.notes.push("arm histogram: every case is counted twice, once under its statement form (`si:shared`, `ref:opassign(append):fail`) and once under depth (part A, `depth:d2:shared`) or the kind of the mutated container / copied value (part B, `kind:ddict:shared`)".to_string());
    rep.write(&args.out);
}
